// poster-facts: rustc_private driver that dumps a JSON fact base of the type-checked,
// name-resolved program (pre-borrowck MIR `mir_built` of every body owner, ADTs, impls,
// evaluated associated constants) for the rule engine in ../rules.
//
// Injected with RUSTC_WORKSPACE_WRAPPER (argv[1] is the real rustc path and is dropped).
// Env:
//   POSTER_FACTS_OUT    path of the JSON file to write (required; one write per process)
//   POSTER_FACTS_CRATE  crate name to dump (default "poster"); other crates compile normally
#![feature(rustc_private)]
#![allow(clippy::all)]

extern crate rustc_abi;
extern crate rustc_driver;
extern crate rustc_hir;
extern crate rustc_interface;
extern crate rustc_middle;
extern crate rustc_span;

use rustc_driver::{Callbacks, Compilation};
use rustc_hir::def::DefKind;
use rustc_hir::def_id::{DefId, LocalDefId, LOCAL_CRATE};
use rustc_interface::interface::Compiler;
use rustc_middle::mir::{
    self, AggregateKind, AssertKind, BasicBlockData, Body, Const, ConstValue, Operand, Place,
    PlaceElem, Rvalue, StatementKind, TerminatorKind,
};
use rustc_middle::ty::print::{with_no_trimmed_paths, PrintTraitRefExt};
use rustc_middle::ty::TypeVisitableExt;
use rustc_middle::ty::{self, Instance, Ty, TyCtxt, TypingEnv};
use rustc_span::Span;
use std::fmt::Write as _;

// ---------------------------------------------------------------------------------------------
// Minimal JSON value
enum J {
    Null,
    Bool(bool),
    Int(i128),
    Str(String),
    Arr(Vec<J>),
    Obj(Vec<(&'static str, J)>),
}

fn esc(s: &str, out: &mut String) {
    out.push('"');
    for c in s.chars() {
        match c {
            '"' => out.push_str("\\\""),
            '\\' => out.push_str("\\\\"),
            '\n' => out.push_str("\\n"),
            '\r' => out.push_str("\\r"),
            '\t' => out.push_str("\\t"),
            c if (c as u32) < 0x20 => {
                let _ = write!(out, "\\u{:04x}", c as u32);
            }
            c => out.push(c),
        }
    }
    out.push('"');
}

impl J {
    fn write(&self, out: &mut String) {
        match self {
            J::Null => out.push_str("null"),
            J::Bool(b) => out.push_str(if *b { "true" } else { "false" }),
            J::Int(i) => {
                let _ = write!(out, "{}", i);
            }
            J::Str(s) => esc(s, out),
            J::Arr(v) => {
                out.push('[');
                for (i, x) in v.iter().enumerate() {
                    if i > 0 {
                        out.push(',');
                    }
                    x.write(out);
                }
                out.push(']');
            }
            J::Obj(v) => {
                out.push('{');
                for (i, (k, x)) in v.iter().enumerate() {
                    if i > 0 {
                        out.push(',');
                    }
                    esc(k, out);
                    out.push(':');
                    x.write(out);
                }
                out.push('}');
            }
        }
    }
}

fn s<T: Into<String>>(x: T) -> J {
    J::Str(x.into())
}
fn opt_s(x: Option<String>) -> J {
    match x {
        Some(v) => J::Str(v),
        None => J::Null,
    }
}

// ---------------------------------------------------------------------------------------------

struct Cx<'tcx> {
    tcx: TyCtxt<'tcx>,
}

impl<'tcx> Cx<'tcx> {
    fn ty_str(&self, ty: Ty<'tcx>) -> String {
        with_no_trimmed_paths!(format!("{}", ty))
    }

    fn path(&self, did: DefId) -> String {
        with_no_trimmed_paths!(self.tcx.def_path_str(did))
    }

    fn adt_of(&self, ty: Ty<'tcx>) -> Option<String> {
        let mut t = ty;
        loop {
            match t.kind() {
                ty::Ref(_, inner, _) => t = *inner,
                ty::RawPtr(inner, _) => t = *inner,
                ty::Adt(def, _) => return Some(self.path(def.did())),
                _ => return None,
            }
        }
    }

    fn loc(&self, span: Span) -> (String, i128, bool) {
        let exp = span.from_expansion();
        let sp = if exp { span.source_callsite() } else { span };
        let sm = self.tcx.sess.source_map();
        if sp.is_dummy() {
            return (String::new(), 0, exp);
        }
        let lo = sm.lookup_char_pos(sp.lo());
        let file = format!("{}", lo.file.name.prefer_local_unconditionally());
        (file, lo.line as i128, exp)
    }

    fn generic_args(&self, args: ty::GenericArgsRef<'tcx>) -> J {
        let mut v = Vec::new();
        for a in args.iter() {
            if let Some(t) = a.as_type() {
                v.push(s(self.ty_str(t)));
            } else if let Some(c) = a.as_const() {
                v.push(s(with_no_trimmed_paths!(format!("{}", c))));
            }
            // regions are skipped
        }
        J::Arr(v)
    }

    fn place(&self, body: &Body<'tcx>, pl: &Place<'tcx>) -> J {
        let mut proj = Vec::new();
        let mut pty = mir::PlaceTy::from_ty(body.local_decls[pl.local].ty);
        for elem in pl.projection.iter() {
            match elem {
                PlaceElem::Deref => proj.push(s("deref")),
                PlaceElem::Field(f, fty) => {
                    let mut name = J::Null;
                    let mut adt = J::Null;
                    if let ty::Adt(def, _) = pty.ty.kind() {
                        let vidx = pty.variant_index.unwrap_or(rustc_abi::FIRST_VARIANT);
                        if def.variants().len() > vidx.as_usize() {
                            let var = &def.variants()[vidx];
                            if var.fields.len() > f.as_usize() {
                                name = s(var.fields[f].name.to_string());
                            }
                        }
                        adt = s(self.path(def.did()));
                    }
                    proj.push(J::Obj(vec![
                        ("f", J::Int(f.as_usize() as i128)),
                        ("n", name),
                        ("adt", adt),
                        ("ty", s(self.ty_str(fty))),
                    ]));
                }
                PlaceElem::Downcast(name, vidx) => {
                    let n = match name {
                        Some(sym) => sym.to_string(),
                        None => format!("{}", vidx.as_usize()),
                    };
                    proj.push(J::Obj(vec![
                        ("dc", s(n)),
                        ("vi", J::Int(vidx.as_usize() as i128)),
                    ]));
                }
                PlaceElem::Index(l) => {
                    proj.push(J::Obj(vec![("idx", J::Int(l.as_usize() as i128))]))
                }
                PlaceElem::ConstantIndex { offset, from_end, .. } => proj.push(J::Obj(vec![
                    ("cidx", J::Int(offset as i128)),
                    ("from_end", J::Bool(from_end)),
                ])),
                PlaceElem::Subslice { from, to, from_end } => proj.push(J::Obj(vec![
                    ("sub", J::Int(from as i128)),
                    ("to", J::Int(to as i128)),
                    ("from_end", J::Bool(from_end)),
                ])),
                PlaceElem::OpaqueCast(_) => proj.push(s("opaque")),
                PlaceElem::UnwrapUnsafeBinder(_) => proj.push(s("unwrap_binder")),
            }
            pty = pty.projection_ty(self.tcx, elem);
        }
        J::Obj(vec![("l", J::Int(pl.local.as_usize() as i128)), ("p", J::Arr(proj))])
    }

    fn scalar_of(&self, cv: &ConstValue, ty: Ty<'tcx>) -> J {
        match cv {
            ConstValue::Scalar(mir::interpret::Scalar::Int(si)) => {
                let size = si.size();
                if size.bytes() == 0 {
                    return J::Null;
                }
                let bits = si.to_bits(size);
                match ty.kind() {
                    ty::Bool => J::Bool(bits != 0),
                    ty::Int(_) => {
                        // sign extend
                        let sh = 128 - size.bits();
                        J::Int(((bits as i128) << sh) >> sh)
                    }
                    _ => {
                        if bits > i128::MAX as u128 {
                            J::Str(format!("{}", bits))
                        } else {
                            J::Int(bits as i128)
                        }
                    }
                }
            }
            ConstValue::ZeroSized => J::Null,
            ConstValue::Slice { .. } => {
                if let Some(bytes) = cv.try_get_slice_bytes_for_diagnostics(self.tcx) {
                    match std::str::from_utf8(bytes) {
                        Ok(st) => J::Str(st.to_string()),
                        Err(_) => J::Arr(bytes.iter().map(|b| J::Int(*b as i128)).collect()),
                    }
                } else {
                    J::Null
                }
            }
            _ => J::Null,
        }
    }

    fn constant(&self, owner: LocalDefId, c: &mir::ConstOperand<'tcx>) -> J {
        let tcx = self.tcx;
        let ty = c.const_.ty();
        let mut val = J::Null;
        let mut uneval = J::Null;
        let mut fnj = J::Null;
        if let ty::FnDef(did, args) = ty.kind() {
            fnj = self.fn_ref(owner, *did, args);
        }
        match c.const_ {
            Const::Val(cv, ty) => {
                val = self.scalar_of(&cv, ty);
            }
            Const::Unevaluated(uv, ty) => {
                let env = TypingEnv::post_analysis(tcx, owner.to_def_id());
                let mut eval = J::Null;
                if uv.promoted.is_none() {
                    let has_params = uv.args.iter().any(|a| {
                        a.as_type().map(|t| t.has_param()).unwrap_or(false)
                            || a.as_const().map(|t| t.has_param()).unwrap_or(false)
                    });
                    if !has_params {
                        if let Ok(cv) = c.const_.eval(tcx, env, c.span) {
                            eval = self.scalar_of(&cv, ty);
                        }
                    }
                }
                let parent = tcx.opt_parent(uv.def);
                let mut self_ty = J::Null;
                let mut trait_ = J::Null;
                if let Some(p) = parent {
                    match tcx.def_kind(p) {
                        DefKind::Trait => {
                            trait_ = s(self.path(p));
                            if let Some(t) = uv.args.iter().next().and_then(|a| a.as_type()) {
                                self_ty = s(self.ty_str(t));
                            }
                        }
                        DefKind::Impl { .. } => {
                            let t = tcx.type_of(p).instantiate(tcx, uv.args).skip_norm_wip();
                            self_ty = s(self.ty_str(t));
                        }
                        _ => {}
                    }
                }
                uneval = J::Obj(vec![
                    ("def", s(self.path(uv.def))),
                    ("name", s(tcx.opt_item_name(uv.def).map(|n| n.to_string()).unwrap_or_default())),
                    ("args", self.generic_args(uv.args)),
                    ("self_ty", self_ty),
                    ("trait", trait_),
                    ("eval", eval),
                ]);
            }
            Const::Ty(_, ct) => {
                val = s(with_no_trimmed_paths!(format!("{}", ct)));
            }
        }
        J::Obj(vec![
            ("k", s("const")),
            ("ty", s(self.ty_str(ty))),
            ("val", val),
            ("uneval", uneval),
            ("fn", fnj),
        ])
    }

    fn fn_ref(&self, owner: LocalDefId, did: DefId, args: ty::GenericArgsRef<'tcx>) -> J {
        let tcx = self.tcx;
        let mut trait_ = J::Null;
        let mut self_ty = J::Null;
        let mut resolved = J::Null;
        let mut resolved_args = J::Null;
        if let Some(p) = tcx.opt_parent(did) {
            match tcx.def_kind(p) {
                DefKind::Trait => {
                    trait_ = s(self.path(p));
                    if let Some(t) = args.iter().next().and_then(|a| a.as_type()) {
                        self_ty = s(self.ty_str(t));
                    }
                    let env = TypingEnv::post_analysis(tcx, owner.to_def_id());
                    if let Ok(Some(inst)) = Instance::try_resolve(tcx, env, did, args) {
                        let rd = inst.def_id();
                        if rd != did {
                            resolved = s(self.path(rd));
                            resolved_args = self.generic_args(inst.args);
                        }
                    }
                }
                DefKind::Impl { .. } => {
                    let t = tcx.type_of(p).instantiate(tcx, args).skip_norm_wip();
                    self_ty = s(self.ty_str(t));
                }
                _ => {}
            }
        }
        J::Obj(vec![
            ("def", s(self.path(did))),
            ("name", s(tcx.opt_item_name(did).map(|n| n.to_string()).unwrap_or_default())),
            ("krate", s(tcx.crate_name(did.krate).to_string())),
            ("args", self.generic_args(args)),
            ("self_ty", self_ty),
            ("trait", trait_),
            ("resolved", resolved),
            ("resolved_args", resolved_args),
        ])
    }

    fn operand(&self, owner: LocalDefId, body: &Body<'tcx>, op: &Operand<'tcx>) -> J {
        match op {
            Operand::Copy(pl) => J::Obj(vec![("k", s("copy")), ("pl", self.place(body, pl))]),
            Operand::Move(pl) => J::Obj(vec![("k", s("move")), ("pl", self.place(body, pl))]),
            Operand::Constant(c) => self.constant(owner, c),
            #[allow(unreachable_patterns)]
            _ => J::Obj(vec![("k", s("other"))]),
        }
    }

    fn rvalue(&self, owner: LocalDefId, body: &Body<'tcx>, rv: &Rvalue<'tcx>) -> J {
        match rv {
            Rvalue::Use(op, _) => {
                J::Obj(vec![("k", s("use")), ("op", self.operand(owner, body, op))])
            }
            Rvalue::Repeat(op, _) => {
                J::Obj(vec![("k", s("repeat")), ("op", self.operand(owner, body, op))])
            }
            Rvalue::Ref(_, bk, pl) => J::Obj(vec![
                ("k", s("ref")),
                ("mut", J::Bool(matches!(bk, mir::BorrowKind::Mut { .. }))),
                ("fake", J::Bool(matches!(bk, mir::BorrowKind::Fake(_)))),
                ("pl", self.place(body, pl)),
            ]),
            Rvalue::RawPtr(_, pl) => J::Obj(vec![("k", s("rawptr")), ("pl", self.place(body, pl))]),
            Rvalue::Cast(kind, op, ty) => J::Obj(vec![
                ("k", s("cast")),
                ("kind", s(format!("{:?}", kind))),
                ("op", self.operand(owner, body, op)),
                ("ty", s(self.ty_str(*ty))),
            ]),
            Rvalue::BinaryOp(op, ab) => {
                let (a, b) = &**ab;
                let name = format!("{:?}", op);
                let checked = name.ends_with("WithOverflow");
                let base = name.trim_end_matches("WithOverflow").trim_end_matches("Unchecked");
                J::Obj(vec![
                    ("k", s("bin")),
                    ("op", s(base)),
                    ("checked", J::Bool(checked)),
                    ("a", self.operand(owner, body, a)),
                    ("b", self.operand(owner, body, b)),
                ])
            }
            Rvalue::UnaryOp(op, a) => J::Obj(vec![
                ("k", s("un")),
                ("op", s(format!("{:?}", op))),
                ("a", self.operand(owner, body, a)),
            ]),
            Rvalue::Discriminant(pl) => {
                let pty = pl.ty(&body.local_decls, self.tcx).ty;
                J::Obj(vec![
                    ("k", s("discr")),
                    ("pl", self.place(body, pl)),
                    ("adt", opt_s(self.adt_of(pty))),
                ])
            }
            Rvalue::Aggregate(kind, ops) => {
                let opsj = J::Arr(ops.iter().map(|o| self.operand(owner, body, o)).collect());
                match &**kind {
                    AggregateKind::Adt(did, vidx, args, _, _) => {
                        let def = self.tcx.adt_def(*did);
                        let var = &def.variants()[*vidx];
                        J::Obj(vec![
                            ("k", s("agg")),
                            ("what", s("adt")),
                            ("adt", s(self.path(*did))),
                            ("variant", s(var.name.to_string())),
                            ("vi", J::Int(vidx.as_usize() as i128)),
                            ("args", self.generic_args(args)),
                            (
                                "fields",
                                J::Arr(var.fields.iter().map(|f| s(f.name.to_string())).collect()),
                            ),
                            ("ops", opsj),
                        ])
                    }
                    AggregateKind::Tuple => {
                        J::Obj(vec![("k", s("agg")), ("what", s("tuple")), ("ops", opsj)])
                    }
                    AggregateKind::Array(_) => {
                        J::Obj(vec![("k", s("agg")), ("what", s("array")), ("ops", opsj)])
                    }
                    AggregateKind::Closure(did, _) => J::Obj(vec![
                        ("k", s("agg")),
                        ("what", s("closure")),
                        ("def", s(self.path(*did))),
                        ("ops", opsj),
                    ]),
                    AggregateKind::Coroutine(did, _) => J::Obj(vec![
                        ("k", s("agg")),
                        ("what", s("coroutine")),
                        ("def", s(self.path(*did))),
                        ("ops", opsj),
                    ]),
                    AggregateKind::CoroutineClosure(did, _) => J::Obj(vec![
                        ("k", s("agg")),
                        ("what", s("coroutine_closure")),
                        ("def", s(self.path(*did))),
                        ("ops", opsj),
                    ]),
                    AggregateKind::RawPtr(..) => {
                        J::Obj(vec![("k", s("agg")), ("what", s("rawptr")), ("ops", opsj)])
                    }
                }
            }
            Rvalue::CopyForDeref(pl) => J::Obj(vec![
                ("k", s("use")),
                ("op", J::Obj(vec![("k", s("copy")), ("pl", self.place(body, pl))])),
            ]),
            Rvalue::ThreadLocalRef(did) => {
                J::Obj(vec![("k", s("tls")), ("def", s(self.path(*did)))])
            }
            Rvalue::WrapUnsafeBinder(op, _) => {
                J::Obj(vec![("k", s("use")), ("op", self.operand(owner, body, op))])
            }
            #[allow(unreachable_patterns)]
            _ => J::Obj(vec![("k", s("other")), ("dbg", s(format!("{:?}", rv)))]),
        }
    }

    fn block(&self, owner: LocalDefId, body: &Body<'tcx>, bb: &BasicBlockData<'tcx>) -> J {
        let mut stmts = Vec::new();
        for st in &bb.statements {
            let (_, line, exp) = self.loc(st.source_info.span);
            match &st.kind {
                StatementKind::Assign(b) => {
                    let (pl, rv) = &**b;
                    stmts.push(J::Obj(vec![
                        ("k", s("assign")),
                        ("lhs", self.place(body, pl)),
                        ("rv", self.rvalue(owner, body, rv)),
                        ("line", J::Int(line)),
                        ("exp", J::Bool(exp)),
                    ]));
                }
                StatementKind::SetDiscriminant { place, variant_index } => {
                    stmts.push(J::Obj(vec![
                        ("k", s("setdiscr")),
                        ("lhs", self.place(body, place)),
                        ("vi", J::Int(variant_index.as_usize() as i128)),
                        ("line", J::Int(line)),
                    ]));
                }
                _ => {}
            }
        }
        let term = bb.terminator();
        let (_, tline, texp) = self.loc(term.source_info.span);
        let bbi = |b: mir::BasicBlock| J::Int(b.as_usize() as i128);
        let obb = |b: Option<mir::BasicBlock>| match b {
            Some(b) => J::Int(b.as_usize() as i128),
            None => J::Null,
        };
        let mut t = match &term.kind {
            TerminatorKind::Goto { target } => vec![("k", s("goto")), ("t", bbi(*target))],
            TerminatorKind::SwitchInt { discr, targets } => {
                let dty = discr.ty(&body.local_decls, self.tcx);
                let mut tv = Vec::new();
                for (v, b) in targets.iter() {
                    let vj = if v > i128::MAX as u128 {
                        J::Str(format!("{}", v))
                    } else {
                        J::Int(v as i128)
                    };
                    tv.push(J::Arr(vec![vj, bbi(b)]));
                }
                vec![
                    ("k", s("switch")),
                    ("op", self.operand(owner, body, discr)),
                    ("ty", s(self.ty_str(dty))),
                    ("targets", J::Arr(tv)),
                    ("otherwise", bbi(targets.otherwise())),
                ]
            }
            TerminatorKind::Call { func, args, destination, target, fn_span, .. } => {
                let fty = func.ty(&body.local_decls, self.tcx);
                let callee = if let ty::FnDef(did, gargs) = fty.kind() {
                    self.fn_ref(owner, *did, gargs)
                } else {
                    J::Null
                };
                let (_, cline, cexp) = self.loc(*fn_span);
                vec![
                    ("k", s("call")),
                    ("callee", callee),
                    ("fn_op", self.operand(owner, body, func)),
                    ("ops", J::Arr(args.iter().map(|a| self.operand(owner, body, &a.node)).collect())),
                    ("dest", self.place(body, destination)),
                    ("t", obb(*target)),
                    ("cline", J::Int(cline)),
                    ("cexp", J::Bool(cexp)),
                ]
            }
            TerminatorKind::TailCall { func, args, .. } => {
                let fty = func.ty(&body.local_decls, self.tcx);
                let callee = if let ty::FnDef(did, gargs) = fty.kind() {
                    self.fn_ref(owner, *did, gargs)
                } else {
                    J::Null
                };
                vec![
                    ("k", s("tailcall")),
                    ("callee", callee),
                    ("ops", J::Arr(args.iter().map(|a| self.operand(owner, body, &a.node)).collect())),
                ]
            }
            TerminatorKind::Return => vec![("k", s("return"))],
            TerminatorKind::Unreachable => vec![("k", s("unreachable"))],
            TerminatorKind::UnwindResume => vec![("k", s("resume"))],
            TerminatorKind::UnwindTerminate(_) => vec![("k", s("terminate"))],
            TerminatorKind::CoroutineDrop => vec![("k", s("coroutine_drop"))],
            TerminatorKind::Drop { place, target, .. } => {
                vec![("k", s("drop")), ("pl", self.place(body, place)), ("t", bbi(*target))]
            }
            TerminatorKind::Assert { cond, expected, msg, target, .. } => {
                let (kind, ops): (String, Vec<J>) = match &**msg {
                    AssertKind::BoundsCheck { len, index } => (
                        "BoundsCheck".into(),
                        vec![self.operand(owner, body, len), self.operand(owner, body, index)],
                    ),
                    AssertKind::Overflow(op, a, b) => (
                        format!("Overflow({:?})", op),
                        vec![self.operand(owner, body, a), self.operand(owner, body, b)],
                    ),
                    AssertKind::OverflowNeg(a) => {
                        ("OverflowNeg".into(), vec![self.operand(owner, body, a)])
                    }
                    AssertKind::DivisionByZero(a) => {
                        ("DivisionByZero".into(), vec![self.operand(owner, body, a)])
                    }
                    AssertKind::RemainderByZero(a) => {
                        ("RemainderByZero".into(), vec![self.operand(owner, body, a)])
                    }
                    other => {
                        let d = format!("{:?}", other);
                        let name = d.split(|c: char| !c.is_alphanumeric()).next().unwrap_or("");
                        (name.to_string(), vec![])
                    }
                };
                vec![
                    ("k", s("assert")),
                    ("cond", self.operand(owner, body, cond)),
                    ("expected", J::Bool(*expected)),
                    ("msg", s(kind)),
                    ("ops", J::Arr(ops)),
                    ("t", bbi(*target)),
                ]
            }
            TerminatorKind::Yield { value, resume, resume_arg, .. } => vec![
                ("k", s("yield")),
                ("value", self.operand(owner, body, value)),
                ("t", bbi(*resume)),
                ("resume_arg", self.place(body, resume_arg)),
            ],
            TerminatorKind::FalseEdge { real_target, imaginary_target } => vec![
                ("k", s("falseedge")),
                ("t", bbi(*real_target)),
                ("imag", bbi(*imaginary_target)),
            ],
            TerminatorKind::FalseUnwind { real_target, .. } => {
                vec![("k", s("falseunwind")), ("t", bbi(*real_target))]
            }
            TerminatorKind::InlineAsm { .. } => vec![("k", s("asm"))],
        };
        t.push(("line", J::Int(tline)));
        t.push(("exp", J::Bool(texp)));
        J::Obj(vec![
            ("stmts", J::Arr(stmts)),
            ("term", J::Obj(t)),
            ("cleanup", J::Bool(bb.is_cleanup)),
        ])
    }

    fn body(&self, def: LocalDefId, body: &Body<'tcx>) -> J {
        let tcx = self.tcx;
        let did = def.to_def_id();
        let dk = tcx.def_kind(did);
        let kind = match dk {
            DefKind::Fn | DefKind::AssocFn => "fn".to_string(),
            DefKind::Closure => {
                if tcx.is_coroutine(did) {
                    "coroutine".to_string()
                } else {
                    "closure".to_string()
                }
            }
            other => format!("{:?}", other).to_lowercase(),
        };
        let parent = tcx.opt_parent(did).map(|p| self.path(p));
        let (file, line, exp) = self.loc(tcx.def_span(did));
        let vis = match dk {
            DefKind::Fn | DefKind::AssocFn => {
                let v = tcx.visibility(did);
                if v.is_public() {
                    J::Str("pub".into())
                } else {
                    J::Str("restricted".into())
                }
            }
            _ => J::Null,
        };
        // impl / trait context
        let mut impl_self = J::Null;
        let mut impl_trait = J::Null;
        if matches!(dk, DefKind::AssocFn) {
            if let Some(p) = tcx.opt_parent(did) {
                if let DefKind::Impl { of_trait } = tcx.def_kind(p) {
                    impl_self = s(self.ty_str(tcx.type_of(p).instantiate_identity().skip_norm_wip()));
                    if of_trait {
                        let tr = tcx.impl_trait_ref(p).instantiate_identity().skip_norm_wip();
                        impl_trait = s(with_no_trimmed_paths!(format!(
                            "{}",
                            tr.print_only_trait_path()
                        )));
                    }
                }
            }
        }
        let mut sig_in = Vec::new();
        let mut sig_out = J::Null;
        if matches!(dk, DefKind::Fn | DefKind::AssocFn) {
            let sig = tcx.fn_sig(did).instantiate_identity().skip_norm_wip().skip_binder();
            for t in sig.inputs() {
                sig_in.push(s(self.ty_str(*t)));
            }
            sig_out = s(self.ty_str(sig.output()));
        }

        // names of the generic parameters, in the order in which generic arguments are listed at call sites
        // (parent's parameters first); lifetimes keep their leading apostrophe
        let mut generics = Vec::new();
        if matches!(dk, DefKind::Fn | DefKind::AssocFn) {
            let g = tcx.generics_of(did);
            for i in 0..g.count() {
                let p = g.param_at(i, tcx);
                generics.push(s(p.name.to_string()));
            }
        }

        let mut locals = Vec::new();
        for (_l, decl) in body.local_decls.iter_enumerated() {
            locals.push(J::Obj(vec![
                ("ty", s(self.ty_str(decl.ty))),
                ("adt", opt_s(self.adt_of(decl.ty))),
                ("user", J::Bool(decl.is_user_variable())),
            ]));
        }
        let mut dbg = Vec::new();
        for vdi in &body.var_debug_info {
            if let mir::VarDebugInfoContents::Place(pl) = &vdi.value {
                dbg.push(J::Obj(vec![
                    ("name", s(vdi.name.to_string())),
                    ("pl", self.place(body, pl)),
                    ("arg", match vdi.argument_index {
                        Some(i) => J::Int(i as i128),
                        None => J::Null,
                    }),
                ]));
            }
        }
        let blocks: Vec<J> =
            body.basic_blocks.iter().map(|bb| self.block(def, body, bb)).collect();
        J::Obj(vec![
            ("path", s(self.path(did))),
            ("name", s(tcx.opt_item_name(did).map(|n| n.to_string()).unwrap_or_default())),
            ("kind", s(kind)),
            ("parent", opt_s(parent)),
            ("vis", vis),
            ("impl_self", impl_self),
            ("impl_trait", impl_trait),
            ("sig_in", J::Arr(sig_in)),
            ("sig_out", sig_out),
            ("generics", J::Arr(generics)),
            ("file", s(file)),
            ("line", J::Int(line)),
            ("from_expansion", J::Bool(exp)),
            ("arg_count", J::Int(body.arg_count as i128)),
            ("ret_ty", s(self.ty_str(body.local_decls[mir::RETURN_PLACE].ty))),
            ("locals", J::Arr(locals)),
            ("debug", J::Arr(dbg)),
            ("blocks", J::Arr(blocks)),
        ])
    }

    fn adts(&self) -> J {
        let tcx = self.tcx;
        let mut out = Vec::new();
        for ld in tcx.hir_crate_items(()).definitions() {
            let did = ld.to_def_id();
            let dk = tcx.def_kind(did);
            if !matches!(dk, DefKind::Struct | DefKind::Enum | DefKind::Union) {
                continue;
            }
            let def = tcx.adt_def(did);
            let mut vars = Vec::new();
            let discrs: Vec<i128> = if def.is_enum() {
                def.discriminants(tcx).map(|(_, d)| d.val as i128).collect()
            } else {
                vec![0; def.variants().len()]
            };
            for (i, var) in def.variants().iter().enumerate() {
                let mut fields = Vec::new();
                for f in var.fields.iter() {
                    let fty = tcx.type_of(f.did).instantiate_identity().skip_norm_wip();
                    fields.push(J::Obj(vec![
                        ("name", s(f.name.to_string())),
                        ("ty", s(self.ty_str(fty))),
                        ("pub", J::Bool(f.vis.is_public())),
                    ]));
                }
                vars.push(J::Obj(vec![
                    ("name", s(var.name.to_string())),
                    ("discr", J::Int(discrs.get(i).copied().unwrap_or(0))),
                    ("fields", J::Arr(fields)),
                ]));
            }
            let (file, line, exp) = self.loc(tcx.def_span(did));
            out.push(J::Obj(vec![
                ("path", s(self.path(did))),
                ("kind", s(format!("{:?}", dk).to_lowercase())),
                ("pub", J::Bool(tcx.visibility(did).is_public())),
                ("file", s(file)),
                ("line", J::Int(line)),
                ("from_expansion", J::Bool(exp)),
                ("variants", J::Arr(vars)),
            ]));
        }
        J::Arr(out)
    }

    fn impls_and_consts(&self) -> (J, J) {
        let tcx = self.tcx;
        let mut impls = Vec::new();
        let mut consts = Vec::new();
        for ld in tcx.hir_crate_items(()).definitions() {
            let did = ld.to_def_id();
            match tcx.def_kind(did) {
                DefKind::Impl { of_trait } => {
                    let self_ty = tcx.type_of(did).instantiate_identity().skip_norm_wip();
                    let tr = if of_trait {
                        let tr = tcx.impl_trait_ref(did).instantiate_identity().skip_norm_wip();
                        J::Obj(vec![
                            ("path", s(self.path(tr.def_id))),
                            (
                                "full",
                                s(with_no_trimmed_paths!(format!("{}", tr.print_only_trait_path()))),
                            ),
                        ])
                    } else {
                        J::Null
                    };
                    let mut items = Vec::new();
                    for it in tcx.associated_items(did).in_definition_order() {
                        let kind = match it.kind {
                            ty::AssocKind::Const { .. } => "const",
                            ty::AssocKind::Fn { .. } => "fn",
                            ty::AssocKind::Type { .. } => "type",
                        };
                        let mut extra = J::Null;
                        if kind == "type" {
                            let t = tcx.type_of(it.def_id).instantiate_identity().skip_norm_wip();
                            extra = s(self.ty_str(t));
                        }
                        items.push(J::Obj(vec![
                            ("name", s(it.name().to_string())),
                            ("kind", s(kind)),
                            ("def", s(self.path(it.def_id))),
                            ("ty", extra),
                        ]));
                    }
                    let (file, line, exp) = self.loc(tcx.def_span(did));
                    impls.push(J::Obj(vec![
                        ("trait", tr),
                        ("self_ty", s(self.ty_str(self_ty))),
                        ("self_adt", opt_s(self.adt_of(self_ty))),
                        ("items", J::Arr(items)),
                        ("file", s(file)),
                        ("line", J::Int(line)),
                        ("from_expansion", J::Bool(exp)),
                    ]));
                }
                DefKind::AssocConst { .. } | DefKind::Const { .. } => {
                    // Only items with a value (trait declarations without default have none)
                    let parent = tcx.opt_parent(did);
                    let in_trait_decl =
                        parent.map(|p| matches!(tcx.def_kind(p), DefKind::Trait)).unwrap_or(false);
                    if in_trait_decl {
                        continue;
                    }
                    let generics = tcx.generics_of(did);
                    let mut only_lifetimes = true;
                    let mut g = Some(generics);
                    while let Some(gg) = g {
                        for p in &gg.own_params {
                            if !matches!(p.kind, ty::GenericParamDefKind::Lifetime) {
                                only_lifetimes = false;
                            }
                        }
                        g = gg.parent.map(|p| tcx.generics_of(p));
                    }
                    let ty = tcx.type_of(did).instantiate_identity().skip_norm_wip();
                    let mut val = J::Null;
                    if only_lifetimes {
                        if let Ok(cv) = tcx.const_eval_poly(did) {
                            val = self.scalar_of(&cv, ty);
                        }
                    }
                    let mut self_ty = J::Null;
                    let mut trait_ = J::Null;
                    if let Some(p) = parent {
                        if let DefKind::Impl { of_trait } = tcx.def_kind(p) {
                            self_ty =
                                s(self.ty_str(tcx.type_of(p).instantiate_identity().skip_norm_wip()));
                            if of_trait {
                                let tr =
                                    tcx.impl_trait_ref(p).instantiate_identity().skip_norm_wip();
                                trait_ = s(self.path(tr.def_id));
                            }
                        }
                    }
                    consts.push(J::Obj(vec![
                        ("def", s(self.path(did))),
                        ("name", s(tcx.opt_item_name(did).map(|n| n.to_string()).unwrap_or_default())),
                        ("ty", s(self.ty_str(ty))),
                        ("self_ty", self_ty),
                        ("trait", trait_),
                        ("val", val),
                    ]));
                }
                _ => {}
            }
        }
        (J::Arr(impls), J::Arr(consts))
    }
}

struct Dump;

impl Callbacks for Dump {
    fn after_expansion<'tcx>(&mut self, _c: &Compiler, tcx: TyCtxt<'tcx>) -> Compilation {
        let want = std::env::var("POSTER_FACTS_CRATE").unwrap_or_else(|_| "poster".to_string());
        let name = tcx.crate_name(LOCAL_CRATE).to_string();
        if name != want {
            return Compilation::Continue;
        }
        let out_path = match std::env::var("POSTER_FACTS_OUT") {
            Ok(p) => p,
            Err(_) => return Compilation::Continue,
        };
        // Phase 1: clone every body before anything (const eval, later passes) steals it.
        // Constants first: building a function body may const-evaluate an associated constant (a range pattern
        // `0..=Self::MAX`, an array length), which runs that constant through the later MIR passes and steals its
        // `mir_built`. A body that was stolen all the same is left out (never a function of the crate).
        let mut bodies: Vec<(LocalDefId, Body<'tcx>)> = Vec::new();
        let owners: Vec<LocalDefId> = tcx.hir_body_owners().collect();
        let is_const = |d: LocalDefId| {
            matches!(
                tcx.def_kind(d.to_def_id()),
                DefKind::Const { .. } | DefKind::AssocConst { .. } | DefKind::AnonConst | DefKind::InlineConst | DefKind::Static { .. }
            )
        };
        for pass in 0..2 {
            for &def in &owners {
                if is_const(def) != (pass == 0) {
                    continue;
                }
                let steal = tcx.mir_built(def);
                if steal.is_stolen() {
                    continue;
                }
                let b = steal.borrow().clone();
                bodies.push((def, b));
            }
        }
        // Phase 2: serialise.
        let cx = Cx { tcx };
        let mut fns = Vec::new();
        for (def, body) in &bodies {
            fns.push(cx.body(*def, body));
        }
        let adts = cx.adts();
        let (impls, consts) = cx.impls_and_consts();
        let opts = &tcx.sess.opts;
        let root = J::Obj(vec![
            ("crate", s(name)),
            (
                "config",
                J::Obj(vec![
                    ("overflow_checks", J::Bool(tcx.sess.overflow_checks())),
                    ("debug_assertions", J::Bool(opts.debug_assertions)),
                    ("test", J::Bool(opts.test)),
                ]),
            ),
            ("n_bodies", J::Int(bodies.len() as i128)),
            ("adts", adts),
            ("impls", impls),
            ("consts", consts),
            ("fns", J::Arr(fns)),
        ]);
        let mut out = String::with_capacity(1 << 24);
        root.write(&mut out);
        // single write, then atomic rename
        let tmp = format!("{}.tmp.{}", out_path, std::process::id());
        std::fs::write(&tmp, out).expect("write facts");
        std::fs::rename(&tmp, &out_path).expect("rename facts");
        Compilation::Continue
    }
}

fn main() {
    let mut args: Vec<String> = std::env::args().collect();
    // RUSTC_WORKSPACE_WRAPPER: argv[1] is the path of the real rustc
    if args.len() > 1 && (args[1].ends_with("rustc") || args[1].contains("/rustc")) {
        args.remove(1);
    }
    let mut cb = Dump;
    rustc_driver::run_compiler(&args, &mut cb);
}
