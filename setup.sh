#!/bin/sh
# Build the fact extractor offline (nightly toolchain with rustc-dev; zero cargo dependencies).
set -e
DIR="$(cd "$(dirname "$0")" && pwd)"
cd "$DIR/driver"
CARGO_NET_OFFLINE=true cargo build --release --offline
test -x "$DIR/driver/target/release/poster-facts"
mkdir -p "$DIR/.cache" "$DIR/evidence" "$DIR/reports"
echo "setup ok"
