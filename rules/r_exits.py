"""EXITS (C13, C15, C04), first-response table (C13), CONV (C13, C14), THRESH (C06, C10, C13)."""
import re
from engine import rule, Inst, AnchorLost
from ctx import match_arms, arm_of, arm_region, RXPACKET, CTXMSG, short_ty, fmt_atoms
from cond import Cond, dominating_edges, field_pred
from mir import Body, callee_name, callee_resolved, symex, sym_fold, sym_leaves, strip_generics
from pathutil import is_err_block
from r_quota import type_guards


def _residual_err_ty(term):
    args = (term.get("callee") or {}).get("args") or []
    if len(args) >= 2:
        m = re.match(r"std::result::Result<std::convert::Infallible, (.*)>$", args[1])
        if m:
            return m.group(1)
    return None


def try_operand(body, resid_term):
    """The operand of the `?` that feeds this from_residual: (operand, block of the test)."""
    o = body.origin(resid_term["ops"][0], through_calls=False)
    if o[0] == "agg" and o[2]["rv"].get("variant") in ("Err", "None") and o[2]["rv"].get("adt") in ("std::result::Result", "std::option::Option"):
        # flattened form: the residual is the literal `Err(move (x as Err).0)` built on the Err edge of a switch on x
        rv = o[2]["rv"]
        if rv["ops"] and rv["ops"][0].get("k") in ("move", "copy"):
            pl = rv["ops"][0]["pl"]
            pr = pl["p"]
            if len(pr) >= 2 and isinstance(pr[-2], dict) and pr[-2].get("dc") == "Err":
                x = {"k": "copy", "pl": {"l": pl["l"], "p": pr[:-2]}}
                tb = o[1]
                for (d, s_) in body.control_deps.get(o[1], ()):
                    si = body.switch_info(d)
                    if si and si["kind"] == "discr" and si["place"]["l"] == pl["l"]:
                        tb = d
                return x, tb
        elif not rv["ops"]:
            for (d, s_) in body.control_deps.get(o[1], ()):
                si = body.switch_info(d)
                if si and si["kind"] == "discr" and si.get("adt") == "std::option::Option":
                    return {"k": "copy", "pl": si["place"]}, d
    base = None
    if o[0] == "place":
        base = o[1]["l"]
    elif o[0] == "multi":
        base = o[1]
    if base is None:
        return None, None
    for d in body.whole_defs(base):
        if d[0] == "call" and (callee_name(d[2]) or "").endswith("Try::branch"):
            return d[2]["ops"][0], d[1]
    return None, None


def local_ty(body, op):
    if op.get("k") == "const":
        return op.get("ty")
    pl = op["pl"]
    if pl["p"]:
        last = [p for p in pl["p"] if isinstance(p, dict) and "ty" in p]
        return last[-1]["ty"] if last else None
    return body.locals[pl["l"]]["ty"]


def classify_cause(ctx, body, op, depth=0):
    """Describe what produced the Result that a `?` inspects."""
    ty = local_ty(body, op) or ""
    o = body.origin(op, through_calls=False)
    if o[0] == "call":
        t = o[2]
        nm = callee_name(t) or "?"
        res = callee_resolved(t) or nm
        if nm.endswith("Option::ok_or"):
            var = sorted(a[2] for a in body.atoms(t["ops"][1]) if a[0] == "variant")
            return {"kind": "ok_or", "err": var[0] if var else "?", "on": local_ty(body, t["ops"][0])}
        if nm.endswith("Result::map_err") and depth < 4:
            inner = classify_cause(ctx, body, t["ops"][0], depth + 1)
            inner["mapped"] = True
            return inner
        if nm.endswith("oneshot::Sender::send"):
            return {"kind": "complete-failed", "call": nm}
        if nm.endswith("UnboundedSender::unbounded_send"):
            ety = ((t.get("callee") or {}).get("args") or ["?"])[0]
            return {"kind": "deliver-failed" if ety.endswith("RxPacket") else "enqueue-failed", "call": nm}
        if nm.endswith("Option::transpose"):
            # Option<Result<T, E>> -> Result<Option<T>, E>: the error is the one carried by the transposed value
            return {"kind": "value", "ty": local_ty(body, t["ops"][0]) or ty}
        if nm.endswith("Result::and_then") or nm.endswith("Result::or_else"):
            at = body.atoms(op)
            calls = sorted({a[1] for a in at if a[0] == "call"})
            clos = [a[1] for a in at if a[0] == "closure"]
            variants = set()
            for c in clos:
                cb = ctx.world.body(c)
                if cb:
                    for i in cb.reach:
                        for st in cb.blocks[i]["stmts"]:
                            if st["k"] == "assign":
                                variants |= {a[2] for a in cb.rv_atoms(st["rv"]) if a[0] == "variant"}
            return {"kind": "expr", "calls": calls, "variants": sorted(variants)}
        return {"kind": "call", "call": res}
    base = None
    if o[0] == "place" and any(isinstance(p, dict) and "dc" in p and p["dc"] != "Ready" for p in o[1]["p"]):
        # the payload of a larger value (e.g. the Ok value of an earlier `?`, the Some of an Option of Results)
        return {"kind": "value", "ty": ty}
    if o[0] == "place":
        base = o[1]["l"]
    elif o[0] == "multi":
        base = o[1]
    if o[0] == "agg":
        base = op["pl"]["l"] if "pl" in op else None
        base = _agg_base(body, op)
    if base is not None:
        lit = _literal_result(ctx, body, base, depth)
        if lit is not None:
            return lit
        # a value that is assigned on several paths (the result of an inlined helper, of a `match` whose arms yield
        # Results ...): `Ok(..)` literals say nothing about the error; every other definition is classified on its own
        ds_ = body.whole_defs(base)
        if len(ds_) >= 2 and depth < 6:
            causes = []
            for d in ds_:
                if d[0] == "stmt":
                    rv = d[3]["rv"]
                    if rv["k"] == "agg" and rv.get("variant") == "Ok":
                        continue
                    if rv["k"] == "agg" and rv.get("variant") == "Err":
                        inner_c = _converted_inner_error(ctx, body, rv, depth)
                        if inner_c is not None:
                            causes.append(inner_c)
                            continue
                        at = body.atoms(rv["ops"][0]) if rv["ops"] else set()
                        vs = sorted(a[2] for a in at if a[0] == "variant")
                        causes.append({"kind": "ok_or", "err": vs[0] if len(vs) == 1 else "?", "on": None} if vs else {"kind": "expr", "calls": sorted(a[1] for a in at if a[0] == "call"), "variants": []})
                    elif rv["k"] == "use" and rv["op"].get("k") in ("move", "copy"):
                        causes.append(classify_cause(ctx, body, rv["op"], depth + 1))
                    else:
                        causes.append({"kind": "value", "ty": ty})
                elif d[0] == "call":
                    nm_ = callee_name(d[2]) or ""
                    if nm_.endswith("FromResidual::from_residual"):
                        op2, tb2 = try_operand(body, d[2])
                        causes.append(classify_cause(ctx, body, op2, depth + 1) if op2 is not None else {"kind": "?"})
                    else:
                        causes = None
                        break
                else:
                    causes = None
                    break
            if causes:
                flat_ = []
                for c in causes:
                    flat_ += c["parts"] if c.get("kind") == "mixed" else [c]
                uniq = []
                for c in flat_:
                    if not any(str(sorted((k, str(v)) for k, v in c.items())) == str(sorted((k, str(v)) for k, v in u.items())) for u in uniq):
                        uniq.append(c)
                if len(uniq) == 1:
                    c0 = dict(uniq[0])
                    c0["through_helper"] = True
                    return c0
                return {"kind": "mixed", "parts": uniq}
        for d in body.whole_defs(base):
            if d[0] == "call":
                nm = callee_name(d[2]) or ""
                if nm.endswith("Future::poll"):
                    c = d[2]["callee"]
                    r = strip_generics(c.get("resolved") or "") or (c.get("self_ty") or "?")
                    r = r.replace("::{closure#0}", "")
                    if not c.get("resolved"):
                        r = strip_generics(c.get("self_ty") or "?")
                    # what is awaited is named after the crate function that made the future, whether that is an `async fn`
                    # or a plain function returning `impl Future`
                    fo = body.origin(d[2]["ops"][0]) if d[2]["ops"] else ("?",)
                    if fo[0] == "call" and (fo[2].get("callee") or {}).get("krate") not in ("core", "std", "alloc", "futures", "futures_util", "futures_core", "futures_io", None):
                        made_by = strip_generics(callee_name(fo[2]) or "")
                        if made_by and not made_by.endswith(r.split("::")[-1]):
                            r = made_by
                    return {"kind": "await", "of": r}
                if nm.endswith("Try::branch"):
                    # the Ok value of an earlier `?`
                    return {"kind": "value", "ty": ty}
    return {"kind": "value", "ty": ty}


def _agg_base(body, op):
    """The local that finally holds an aggregate reached through whole copies/moves."""
    pl = op.get("pl")
    for _ in range(12):
        if pl is None or [p for p in pl["p"] if p != "deref"]:
            return None
        ds = body.whole_defs(pl["l"])
        if len(ds) == 1 and ds[0][0] == "stmt" and ds[0][3]["rv"]["k"] == "use" and ds[0][3]["rv"]["op"].get("k") in ("move", "copy"):
            pl = ds[0][3]["rv"]["op"]["pl"]
            continue
        return pl["l"]
    return None


def _converted_inner_error(ctx, body, rv, depth):
    """`Err(From::from(e))` / `Err(e)` where e is the error of an inner Result: the cause is the inner Result's."""
    if not rv["ops"] or rv["ops"][0].get("k") not in ("move", "copy") or depth > 5:
        return None
    o = body.origin(rv["ops"][0], through_calls=True)
    if o[0] != "place":
        return None
    pr = o[1]["p"]
    idx = [k for k, p in enumerate(pr) if isinstance(p, dict) and p.get("dc") == "Err"]
    if not idx:
        return None
    inner = {"k": "copy", "pl": {"l": o[1]["l"], "p": pr[:idx[-1]]}}
    c = dict(classify_cause(ctx, body, inner, depth + 1))
    if c.get("kind") != "mixed":
        c["mapped"] = True
    return c


def _literal_result(ctx, body, base, depth=0):
    """A Result-valued local all of whose definitions are `Ok(..)` / `Err(..)` literals (what `opt.ok_or(E)`,
    `match opt { Some(v) => Ok(v), None => Err(E) }`, `res.map_err(f)` ... all come down to once combinators
    are expanded): classified by what the Err literals carry and by what the decision between the two looks at."""
    ds = body.whole_defs(base)
    if len(ds) < 2 or any(d[0] != "stmt" for d in ds):
        return None
    errs, oks = [], []
    for d in ds:
        rv = d[3]["rv"]
        if rv["k"] == "agg" and rv.get("what") == "adt" and rv.get("adt") == "std::result::Result":
            (errs if rv["variant"] == "Err" else oks).append((d[1], rv))
        else:
            return None
    if not errs or not oks:
        return None
    variants = set()
    passed_on = []
    for bb, rv in errs:
        at = body.atoms(rv["ops"][0]) if rv["ops"] else set()
        variants |= {a[2] for a in at if a[0] == "variant"}
        o = rv["ops"][0] if rv["ops"] else None
        if o is not None and o.get("k") in ("move", "copy"):
            inner = [p for p in o["pl"]["p"] if isinstance(p, dict) and p.get("dc") == "Err"]
            if inner and depth < 4:
                # Err(e) => Err(f(e)) / Err(e): the error of an inner Result is passed on
                src = {"k": "copy", "pl": {"l": o["pl"]["l"], "p": o["pl"]["p"][:o["pl"]["p"].index(inner[0])]}}
                passed_on.append(classify_cause(ctx, body, src, depth + 1))
    if passed_on and not variants:
        c = dict(passed_on[0])
        c["mapped"] = True
        return c
    # what is the decision between Ok and Err about? the place whose discriminant the controlling switch reads
    on = None
    for bb, rv in errs:
        for (d, s_) in body.control_deps.get(bb, ()):
            si = body.switch_info(d)
            if si and si["kind"] == "discr":
                on = local_ty(body, {"k": "copy", "pl": si["place"]}) or si.get("adt")
                if si.get("adt") == "std::result::Result" and depth < 4:
                    # the Err branch of an inner Result is turned into another error (`map_err`, or a match doing the same)
                    c = dict(classify_cause(ctx, body, {"k": "copy", "pl": si["place"]}, depth + 1))
                    c["mapped"] = True
                    return c
    if len(variants) == 1:
        return {"kind": "ok_or", "err": sorted(variants)[0], "on": on}
    return {"kind": "expr", "calls": [], "variants": sorted(variants)}


def _passed_on_error(body, rv, lb=None):
    """rv = `Err(op)`: if op is (a From/Into conversion of) the Err payload of another Result x: (operand x, block of
    the test on x)."""
    if not rv.get("ops") or rv["ops"][0].get("k") not in ("move", "copy"):
        return None
    o = body.origin(rv["ops"][0], through_calls=True)
    if o[0] != "place":
        return None
    pr = o[1]["p"]
    idx = [k for k, p in enumerate(pr) if isinstance(p, dict) and p.get("dc") == "Err"]
    if not idx or idx[-1] != len(pr) - 2:
        return None
    x = {"k": "copy", "pl": {"l": o[1]["l"], "p": pr[:idx[-1]]}}
    # the test on x: the closest dominating switch that reads the discriminant of (a copy of) x
    tb = None
    if lb is not None:
        def sig_of(o_):
            if o_[0] == "place":
                return ("place", _place_sig(o_[1]["l"], o_[1]["p"]))
            if o_[0] in ("call", "agg", "rv"):
                return (o_[0], o_[1])
            if o_[0] == "multi":
                return ("multi", o_[1])
            return None
        want = sig_of(body.origin(x, through_calls=False))
        for (d, s_) in dominating_edges(body, lb):
            si = body.switch_info(d)
            if si and si["kind"] == "discr" and si.get("adt") in ("std::result::Result", "std::option::Option"):
                if want is not None and sig_of(body.origin({"pl": si["place"]}, through_calls=False)) == want:
                    tb = d
    return x, tb


def _place_sig(l, projs):
    return (l, tuple((p.get("dc"), p.get("f")) if isinstance(p, dict) else p for p in projs if p != "deref"))


def _err_payload_ty(body, x):
    ty = local_ty(body, x) or ""
    m = re.match(r"std::result::Result<.*, ([^,]+(?:<.*>)?)>$", ty)
    return m.group(1) if m else None


def _result_literals(body, bb, rv, line, depth=0, seen=None):
    """The return value `_0 = rv`: if rv merely passes on another local (the result of an inlined helper, a value
    built on several branches), the literals / calls that local is given, each at the block where it is given."""
    if rv["k"] != "use" or rv["op"].get("k") not in ("move", "copy") or depth > 6:
        return [(bb, rv, line)]
    pl = rv["op"]["pl"]
    projs = [p for p in pl["p"] if p != "deref"]
    lit = body._variant_literal_ops(pl["l"], projs) if projs else None
    if lit is not None and not lit[1]:
        out = []
        for o in lit[0]:
            if o.get("k") in ("move", "copy"):
                out += _result_literals(body, bb, {"k": "use", "op": o}, line, depth + 1, seen)
        return out or [(bb, rv, line)]
    if projs:
        return [(bb, rv, line)]
    seen = seen if seen is not None else set()
    if pl["l"] in seen or pl["l"] <= body.fn["arg_count"]:
        return [(bb, rv, line)]
    seen.add(pl["l"])
    ds = body.whole_defs(pl["l"])
    if not ds:
        return [(bb, rv, line)]
    out = []
    for d in ds:
        if d[0] == "stmt":
            out += _result_literals(body, d[1], d[3]["rv"], d[3]["line"], depth + 1, seen)
        elif d[0] == "call" and (callee_name(d[2]) or "").endswith("FromResidual::from_residual"):
            out.append((d[1], {"k": "call-residual", "term": d[2]}, d[2].get("line", line)))
        else:
            return [(bb, rv, line)]
    return out


def _payload_defs(body, op):
    """[(bb, rv, line)] when the operand is a local that is assigned on several branches (never partially), else None."""
    if op.get("k") not in ("move", "copy") or op["pl"]["p"] or op["pl"]["l"] <= body.fn["arg_count"]:
        return None
    l = op["pl"]["l"]
    seen = set()
    while True:
        ds = body.whole_defs(l)
        if len(ds) == 1 and ds[0][0] == "stmt" and ds[0][3]["rv"]["k"] == "use" and ds[0][3]["rv"]["op"].get("k") in ("move", "copy") \
                and not ds[0][3]["rv"]["op"]["pl"]["p"] and ds[0][3]["rv"]["op"]["pl"]["l"] > body.fn["arg_count"] and l not in seen:
            seen.add(l)
            l = ds[0][3]["rv"]["op"]["pl"]["l"]
            continue
        break
    if len(ds) < 2 or any(d[0] != "stmt" for d in ds):
        return None
    return [(d[1], d[3]["rv"], d[3]["line"]) for d in ds]


def exits(ctx, body):
    """All blocks that assign the return place on the way to `return`."""
    out = []
    for b in sorted(body.reach):
        blk = body.blocks[b]
        t = blk["term"]
        if t["k"] == "call" and t["dest"]["l"] == 0 and not t["dest"]["p"] and (callee_name(t) or "").endswith("FromResidual::from_residual"):
            op, tb = try_operand(body, t)
            cause = classify_cause(ctx, body, op) if op is not None else {"kind": "?"}
            out.append({"bb": b, "kind": "residual", "err_ty": _residual_err_ty(t), "cause": cause, "try_bb": tb, "try_op": op})
            continue
        for st in blk["stmts"]:
            if st["k"] == "assign" and st["lhs"]["l"] == 0 and not st["lhs"]["p"]:
                for (lb, rv, line) in _result_literals(body, b, st["rv"], st["line"]):
                    src = _passed_on_error(body, rv, lb) if rv["k"] == "agg" and rv.get("variant") == "Err" else None
                    if src is not None:
                        # `Err(e.into())` with e the error of an inner Result x: what `x?` does
                        x, tb = src
                        cause = classify_cause(ctx, body, x)
                        ety = rv.get("residual_of") or _err_payload_ty(body, x)
                        out.append({"bb": lb, "kind": "residual", "err_ty": ety, "cause": cause, "try_bb": tb, "try_op": x})
                        continue
                    if rv["k"] == "agg" and rv.get("what") == "adt" and rv.get("variant") == "Ok" and rv["ops"]:
                        # `Ok(flag)` with the flag given a value on several branches: one exit per value, at the branch
                        parts = _payload_defs(body, rv["ops"][0])
                        if parts:
                            for (db, drv, dline) in parts:
                                if drv["k"] == "use":
                                    e = symex(body, drv["op"])
                                    dop = drv["op"]
                                else:
                                    e = ("expr",)
                                    dop = None
                                out.append({"bb": db, "kind": "ok", "value": e, "atoms": body.rv_atoms(drv), "line": dline, "op": dop, "rv": drv, "ret_bb": b})
                            continue
                    if rv["k"] == "agg" and rv.get("what") == "adt" and rv.get("variant") in ("Ok", "Err"):
                        e = symex(body, rv["ops"][0]) if rv["ops"] else ("const", None)
                        out.append({"bb": lb, "kind": rv["variant"].lower(), "value": e, "atoms": body.atoms(rv["ops"][0]) if rv["ops"] else set(),
                                    "line": line, "op": rv["ops"][0] if rv["ops"] else None, "ret_bb": b})
                    elif rv["k"] == "call-residual":
                        t2 = rv["term"]
                        op, tb = try_operand(body, t2)
                        cause = classify_cause(ctx, body, op) if op is not None else {"kind": "?"}
                        out.append({"bb": lb, "kind": "residual", "err_ty": _residual_err_ty(t2), "cause": cause, "try_bb": tb, "try_op": op})
                    else:
                        out.append({"bb": lb, "kind": "other", "rv": rv, "line": line})
        if t["k"] == "call" and t["dest"]["l"] == 0 and not t["dest"]["p"] and not (callee_name(t) or "").endswith("from_residual"):
            out.append({"bb": b, "kind": "callret", "call": callee_resolved(t)})
    return out


ALLOWED = {
    # function role -> list of predicates over exit cause (all residual exits must match one)
    "run": [
        ("transport end -> SocketClosed", lambda c, e: c["kind"] == "ok_or" and c["err"] == "SocketClosed" and "RxPacket" in (c["on"] or "")),
        ("all handles dropped -> HandleClosed", lambda c, e: c["kind"] == "ok_or" and c["err"] == "HandleClosed" and "ContextMessage" in (c["on"] or "")),
        ("undecodable input -> CodecError", lambda c, e: c["kind"] == "value" and "Result<codec::packet::RxPacket, core::error::CodecError>" in (c["ty"] or "")),
        ("propagates helper", lambda c, e: c["kind"] == "await" and re.search(r"Context::(handle_packet|handle_message)$", c["of"])),
        ("replay write failed", lambda c, e: c["kind"] == "await" and c["of"].endswith("TxPacketStream::write")),
    ],
    "handle_packet": [
        ("acknowledgement write failed", lambda c, e: c["kind"] == "await" and c["of"].endswith("Context::ack")),
    ],
    "handle_message": [
        ("write failed", lambda c, e: c["kind"] == "await" and c["of"].endswith("TxPacketStream::write")),
    ],
    "ack": [("write failed", lambda c, e: c["kind"] == "await" and c["of"].endswith("TxPacketStream::write"))],
}


def _role_bodies(ctx):
    return {
        "run": ctx.run_body(),
        "handle_packet": ctx.inbound_handler(),
        "handle_message": ctx.outbound_handler(),
        "ack": ctx.coroutine(r"client::context::Context::<[^>]*>::ack"),
    }


def _arm_label(ctx, role, body, bb):
    try:
        if role == "handle_packet":
            sw, arms, otherwise, other_vs, _ = match_arms(body, RXPACKET)
            return arm_of(body, arms, otherwise, bb)
        if role == "handle_message":
            sw, arms, otherwise, other_vs, _ = match_arms(body, CTXMSG)
            return arm_of(body, arms, otherwise, bb)
    except AnchorLost:
        pass
    return "-"


@rule("EXITS", floor=10)
def exits_rule(ctx):
    """The complete table of ways Context::run can return an error (recursively through its helpers):
    each `?` exit is classified by what produced the error; only transport end/error, undecodable
    input, all handles dropped and a server DISCONNECT != 0 are allowed causes. In particular no exit
    is caused by a failed completion or delivery (the receiving side was dropped, C15)."""
    out = []
    counters = {}
    for role, body in _role_bodies(ctx).items():
        for e in exits(ctx, body):
            if e["kind"] == "err":
                # an explicit `return Err(..)`: not a `?`, but if it is taken because a completion / delivery / enqueue
                # failed it is exactly the exit that must not exist (`send(..).map_err(|_| E)?` comes down to this)
                for (d, s_) in reversed(dominating_edges(body, e["bb"])):
                    si = body.switch_info(d)
                    if not si or si["kind"] != "discr" or si.get("adt") != "std::result::Result" or body.edge_value(d, s_) != [1]:
                        continue
                    c = classify_cause(ctx, body, {"k": "copy", "pl": si["place"]})
                    if c.get("kind") in ("complete-failed", "deliver-failed", "enqueue-failed"):
                        arm = _arm_label(ctx, role, body, e["bb"])
                        desc = c["kind"] + ":" + (c.get("call") or "")
                        k = (role, arm, desc)
                        counters[k] = counters.get(k, 0) + 1
                        out.append(Inst("EXITS", "%s:%s:%s#%d" % (role, arm, short_ty(desc), counters[k]), False, body.site(e["bb"]),
                                        "explicit error return taken when %s fails" % short_ty(c.get("call") or c["kind"]),
                                        "allowed causes for %s: %s" % (role, [n for n, _ in ALLOWED.get(role, [])])))
                    break
                continue
            if e["kind"] != "residual":
                continue
            c = e["cause"]
            def _label(c1):
                for name, pred in ALLOWED.get(role, []):
                    try:
                        if pred(c1, e):
                            return name
                    except Exception:
                        pass
                return None
            if c.get("kind") == "mixed":
                labels = [_label(c1) for c1 in c["parts"]]
                label = "+".join(labels) if all(labels) else None
            else:
                label = _label(c)
            arm = _arm_label(ctx, role, body, e["bb"])
            cd = c if c.get("kind") != "mixed" else ([c1 for c1 in c["parts"] if _label(c1) is None] or c["parts"])[0]
            desc = cd["kind"] + (":" + (cd.get("err") or cd.get("of") or cd.get("call") or cd.get("ty") or "")).rstrip(":")
            k = (role, arm, desc)
            counters[k] = counters.get(k, 0) + 1
            key = "%s:%s:%s#%d" % (role, arm, short_ty(desc), counters[k])
            out.append(Inst("EXITS", key, label is not None, body.site(e["bb"]),
                            "`?` exit with error type %s caused by %s" % (short_ty(e["err_ty"] or "?"), c),
                            "allowed causes for %s: %s" % (role, [n for n, _ in ALLOWED.get(role, [])]),
                            {"classified_as": label}))
    return out


@rule("EXITS-END", floor=2)
def exits_end(ctx):
    """run() ends at once when the request queue ends (every handle dropped -> HandleClosed) and when the packet stream
    ends (-> SocketClosed): from the None edge of the value yielded by either stream every path returns, without
    another suspension point and without serving anything else first."""
    run = ctx.run_body()
    out = []
    seen = {}
    for b in sorted(run.reach):
        si = run.switch_info(b)
        if not si or si["kind"] != "discr" or si.get("adt") != "std::option::Option" or si.get("place") is None:
            continue
        ty = local_ty(run, {"k": "copy", "pl": si["place"]}) or ""
        m = re.match(r"std::option::Option<(.*)>$", ty)
        if not m:
            continue
        inner = m.group(1)
        if inner.endswith("message::ContextMessage"):
            what, want = "request-queue", "HandleClosed"
        elif inner.startswith("std::result::Result<codec::packet::RxPacket"):
            what, want = "packet-stream", "SocketClosed"
        else:
            continue
        t = run.term(b)
        none_succ = next((x for v, x in t["targets"] if si["variants"].get(v) == "None"), None)
        if none_succ is None and t["otherwise"] is not None and all(si["variants"].get(v) == "Some" for v, _ in t["targets"]):
            none_succ = t["otherwise"]
        if none_succ is None or run.term(none_succ)["k"] == "unreachable":
            continue
        reg = run.reachable_from(none_succ)
        susp = sorted(x for x in reg if run.term(x)["k"] == "yield")
        served = sorted(x for x in reg if run.term(x)["k"] == "call" and re.search(r"Context::(handle_packet|handle_message)$", callee_name(run.term(x)) or ""))
        vs = set()
        for x in reg:
            for st in run.blocks[x]["stmts"]:
                if st["k"] == "assign":
                    for a in run.rv_atoms(st["rv"]):
                        if a[0] == "variant":
                            vs.add(a[2])
        ok = not susp and not served and want in vs
        n = seen[what] = seen.get(what, 0) + 1
        out.append(Inst("EXITS-END", "run:%s-ended#%d" % (what, n), ok, run.site(b),
                        "when the %s yields None: %s" % (what.replace("-", " "), "run() returns %s without waiting for anything else" % want if ok else
                                                        "run() can go on (suspension points %s, handler calls %s, error built: %s)" % ([run.site(x) for x in susp][:3], [run.site(x) for x in served][:3], want in vs)),
                        "%s, at once, in every session state" % want))
    for what in ("request-queue", "packet-stream"):
        if what not in seen:
            out.append(Inst("EXITS-END", "run:%s-ended:not-found" % what, False, run.site(0), "no test of the end of the %s found in run()" % what.replace("-", " "), "the end of the stream ends run()"))
    return out


@rule("EXITS-EXPLICIT", floor=3)
def exits_explicit(ctx):
    """Explicit returns of the inbound/outbound handlers: Err only as `Err(disconnect.into())` in the
    DISCONNECT arm on the reason != Success edge (carrying the whole packet); everything else Ok."""
    out = []
    hp = ctx.inbound_handler()
    sw, arms, otherwise, other_vs, _ = match_arms(hp, RXPACKET)
    n_err = 0
    for e in exits(ctx, hp):
        if e["kind"] == "err":
            n_err += 1
            arm = arm_of(hp, arms, otherwise, e["bb"])
            at = e["atoms"]
            whole = any(a[0] == "downcast" and a[1] == "Disconnect" for a in at) and any(a[0] == "call" and ("Into" in a[1] or "From" in a[1]) for a in at)
            # reason != Success edge
            succ_edge = _disconnect_success_edge(ctx, hp, e["bb"])
            ok = arm == "Disconnect" and whole and succ_edge is False
            out.append(Inst("EXITS-EXPLICIT", "handle_packet:Err@%s" % arm, ok, hp.site(e["bb"]),
                            "explicit Err in arm %s built from the whole packet=%s on the edge reason==Success is %s" % (arm, whole, succ_edge),
                            "Disconnected carrying the server's packet, only for reason != 0"))
        elif e["kind"] == "other":
            out.append(Inst("EXITS-EXPLICIT", "handle_packet:unrecognised-return", False, hp.site(e["bb"]), "return value %s" % (e.get("rv", {}).get("k")), "Ok(..)/Err(..)"))
    if n_err == 0:
        out.append(Inst("EXITS-EXPLICIT", "handle_packet:no-disconnect-error", False, hp.site(arms.get("Disconnect", sw)),
                        "no explicit Err exit for a server DISCONNECT", "Disconnected for every non-zero reason"))
    for role in ("handle_message", "ack"):
        body = _role_bodies(ctx)[role]
        for e in exits(ctx, body):
            if e["kind"] == "err":
                out.append(Inst("EXITS-EXPLICIT", "%s:Err" % role, False, body.site(e["bb"]), "explicit Err return in %s" % role, "no error return other than a failed write"))
        out.append(Inst("EXITS-EXPLICIT", "%s:explicit-returns" % role, True, body.site(0),
                        "%d explicit returns, none is Err" % len([e for e in exits(ctx, body) if e["kind"] in ("ok", "err")]), "Ok only"))
    return out


def _disconnect_success_edge(ctx, body, bb):
    """True if bb lies on the edge where disconnect.reason == Success, False on the != edge, None if undetermined."""
    r = _disconnect_success_edge1(ctx, body, bb, dominating_edges(body, bb))
    if r is not None or not body.fn.get("flat"):
        return r
    # the test does not dominate the block (the arm left a note -- `Followup::Exit` -- that is acted upon after the arms
    # joined): for a DISCONNECT, from which side of the test can the block run?
    try:
        from spec import variant_specs
        sw = match_arms(body, RXPACKET)[0]
        sp = variant_specs(ctx, body, RXPACKET, sw).get("Disconnect")
    except AnchorLost:
        sp = None
    if sp is None or bb not in sp.reach:
        return None
    verdicts = set()
    for d in sorted(sp.reach):
        if len(set(body.succ(d))) < 2:
            continue
        sides = {}
        for s_ in set(body.succ(d)):
            v = _disconnect_success_edge1(ctx, body, None, [(d, s_)])
            if v is not None:
                sides[s_] = v
        if len(sides) < 2:
            continue
        for s_, v in sides.items():
            if bb in sp.reach_from(d, s_):
                verdicts.add(v)
    if verdicts == {True}:
        return True
    if False in verdicts:
        return False
    return None


def _disconnect_success_edge1(ctx, body, bb, edges):
    for (d, s_) in edges:
        c = Cond(body, d)
        if c.kind == "call" and c.callee == "eq":
            at = set()
            for a in c.args:
                at |= body.atoms(a)
            if any(a[0] == "field" and a[2] == "reason" for a in at) and any(a[0] == "variant" and a[2] == "Success" and a[1].endswith("DisconnectReason") for a in at):
                truth = c.holds_on(s_)
                if truth is None:
                    return None
                return truth ^ c.neg
        if c.kind == "discr" and c.si.get("adt", "").endswith("DisconnectReason"):
            vals = body.edge_value(d, s_)
            names = [c.si["variants"].get(v) for v in vals if v != "otherwise"]
            if names == ["Success"]:
                return True
            if "otherwise" in vals and "Success" in [c.si["variants"].get(v) for v, _ in c.si["targets"]]:
                return False
        if c.kind == "cmp":
            n = c.cmp_norm(field_pred(body, "reason"))
            if n and body.fold(n[1]) == 0 and n[0] in ("Eq", "Ne"):
                truth = c.holds_on(s_)
                if truth is not None:
                    return truth if n[0] == "Eq" else (not truth)
    return None


def _payload_type_test(ctx, body, op, rv=None):
    """If the operand is the value of `packet[0] >> 4 == <T as PacketID>::PACKET_ID` (or !=): (type name, value of the
    expression when the packet is of that type)."""
    if rv is None:
        o = body.origin(op, through_calls=False)
        if o[0] != "rv":
            return None
        rv = o[2]["rv"]
    if rv["k"] != "bin" or rv["op"] not in ("Eq", "Ne"):
        return None
    types = {v: k for k, v in ctx.spec("packets")["types"].items()}
    for x, y in ((rv["a"], rv["b"]), (rv["b"], rv["a"])):
        if x.get("k") == "const" and x.get("uneval") and x["uneval"]["name"] == "PACKET_ID" and isinstance(x["uneval"]["eval"], int):
            if any(a[0] == "field" and a[2] == "packet" for a in body.atoms(y)):
                return (types.get(x["uneval"]["eval"], str(x["uneval"]["eval"])), rv["op"] == "Eq")
    return None


def _signal_of(e):
    """Value carried by an explicit Ok(..) exit: ('unit',) | ('bool', v) | ('variant', name) | ('expr',)"""
    v = e.get("value")
    if v is None:
        return ("unit",)
    if v[0] == "const":
        if v[1] is None:
            return ("unit",)
        if isinstance(v[1], bool):
            return ("bool", v[1])
        return ("const", v[1])
    if v[0] == "agg":
        if v[1] == "tuple" and not v[2]:
            return ("unit",)
        return ("variant", v[1])
    return ("expr",)


@rule("EXITS-OK", floor=1)
def exits_ok(ctx):
    """run() returns Ok(()) exactly for (a) the user's DISCONNECT having been written, with nothing
    written after it, and (b) a server DISCONNECT with reason 0: there must be an Ok exit of `run`
    controlled by a stop signal that the outbound handler raises only after the write of a packet whose
    type is DISCONNECT, and the inbound handler only on the reason == Success edge of its DISCONNECT arm."""
    run = ctx.run_body()
    out = []
    oks = [e for e in exits(ctx, run) if e["kind"] == "ok"]
    if not oks:
        out.append(Inst("EXITS-OK", "run:no-ok-exit", False, run.site(0), "Context::run has no Ok(()) exit at all: it cannot return after a graceful disconnection",
                        "Ok(()) once the user's DISCONNECT is written or a server DISCONNECT with reason 0 arrives"))
        return out
    helpers = {"handle_packet": ctx.inbound_handler(), "handle_message": ctx.outbound_handler()}
    seen_causes = set()
    for e in oks:
        # which helper result decides this exit?
        decided = None
        for (d, s_) in sorted(run.control_deps.get(e["bb"], set())):
            t = run.term(d)
            if t["k"] != "switch":
                continue
            si = run.switch_info(d)
            src = si["place"] if si["kind"] == "discr" else t["op"]
            at = run.atoms(src)
            polled = [a[1] for a in at if a[0] == "call" and re.search(r"Context::(handle_packet|handle_message)::\{closure#0\}$", a[1])]
            if not polled:
                continue
            # skip the Poll / ControlFlow plumbing switches
            if si["kind"] == "discr" and si.get("adt") in ("std::task::Poll", "std::ops::ControlFlow", "std::result::Result") and not _is_signal_switch(run, si):
                continue
            vals = run.edge_value(d, s_)
            helper = "handle_packet" if "handle_packet" in polled[0] else "handle_message"
            if si["kind"] == "discr":
                sig = ("variant", [si["variants"].get(v, "otherwise") for v in vals])
            else:
                c = Cond(run, d)
                truth = c.holds_on(s_)
                sig = ("bool", truth)
            decided = (helper, sig, d)
        if decided is None:
            out.append(Inst("EXITS-OK", "run:ok-exit-uncontrolled", False, run.site(e["bb"]), "an Ok(()) exit of run is not controlled by a handler's stop signal", "stop only on graceful disconnection"))
            continue
        helper, sig, d = decided
        hb = helpers[helper]
        # the stop value is the result of exactly one handler call, and no other handler runs between that call
        # and the decision (nothing may be written after the user's DISCONNECT)
        t_d = run.term(d)
        si_d = run.switch_info(d)
        src_d = {"pl": si_d["place"]} if si_d["kind"] == "discr" else t_d["op"]
        deep = run.atoms(src_d if "pl" not in src_d or "k" in src_d else src_d["pl"])
        polled_all = sorted({a[1] for a in deep if a[0] == "call" and re.search(r"Context::(handle_packet|handle_message|ack)::\{closure#0\}$", a[1])})
        handler_calls = [(i, t) for i, t in run.calls(r"Context::(handle_packet|handle_message|ack)$")]
        feeding = [i for i, t in handler_calls if run.completion_of(i) and run.dominates(run.completion_of(i)["ready_bb"], d)]
        between = []
        loop_heads = {b for b in run.reach if any(run.dominates(b, p) for p in run.pred(b))}
        feeding = [i for i in feeding if any(a[1].startswith(strip_generics(run.term(i)["callee"]["def"])) for a in deep if a[0] == "call")] or feeding
        for i in feeding:
            rb = run.completion_of(i)["ready_bb"]
            outer = {h for h in loop_heads if run.dominates(h, rb)}     # enclosing loops of the deciding call
            reach = run.reachable_from(rb, avoid=outer)
            for j, t in handler_calls:
                if j != i and j in reach and d in run.reachable_from(j, avoid=outer):
                    between.append(run.site(j))
        single = len(polled_all) == 1 and len(feeding) >= 1 and not between
        out.append(Inst("EXITS-OK", "run:stop-from-single-handler-call:%s" % helper, single, run.site(d),
                        "stop decision derives from %s; handler calls between the deciding call and the decision: %s" % ([short_ty(x.replace("::{closure#0}", "")) for x in polled_all], sorted(set(between)) or "none"),
                        "the handler that reports the graceful end is the last thing run() executes"))
        stop_exits = []
        cont_exits = []
        for x in exits(ctx, hb):
            if x["kind"] != "ok":
                continue
            s_ = _signal_of(x)
            is_stop = (sig[0] == "bool" and s_ == ("bool", sig[1])) or (sig[0] == "variant" and s_[0] == "variant" and s_[1] in sig[1])
            if s_ == ("expr",) and sig[0] == "bool" and helper == "handle_message" and (x.get("op") is not None or x.get("rv") is not None):
                # `Ok(packet_type == DISCONNECT)`: the exit is a stop exit exactly when the packet is a DISCONNECT
                ty_ = _payload_type_test(ctx, hb, x.get("op"), x.get("rv"))
                if ty_ is not None:
                    x = dict(x)
                    x["payload_test"] = ty_
                    is_stop = (ty_[0] == "DISCONNECT" and ty_[1] == sig[1])
            (stop_exits if is_stop else cont_exits).append(x)
        if not stop_exits:
            out.append(Inst("EXITS-OK", "%s:no-stop-exit" % helper, False, hb.site(0), "%s never returns the value %s on which run() stops" % (helper, sig), "a stop signal for graceful disconnection"))
            continue
        for x in stop_exits:
            if helper == "handle_packet":
                sw, arms, otherwise, other_vs, _ = match_arms(hb, RXPACKET)
                arm = arm_of(hb, arms, otherwise, x["bb"])
                edge = _disconnect_success_edge(ctx, hb, x["bb"])
                ok = arm == "Disconnect" and edge is True
                seen_causes.add("server-disconnect-0") if ok else None
                out.append(Inst("EXITS-OK", "handle_packet:stop@%s" % arm, ok, hb.site(x["bb"]),
                                "stop signal raised in arm %s on edge reason==Success: %s" % (arm, edge), "only a server DISCONNECT with reason 0"))
            else:
                guards = type_guards(ctx, hb)
                g = guards.get("DISCONNECT")
                in_reg = (g is not None and hb.dominates(g[1], x["bb"])) or (x.get("payload_test") is not None and x["payload_test"][0] == "DISCONNECT")
                effs = [f for f in ctx.effects(hb) if f.kind == "TxWrite"]
                # the DISCONNECT write completed before the stop exit, and no write can follow it
                w_before = [f for f in effs if hb.completion_of(f.inner_bb) and hb.dominates(hb.completion_of(f.inner_bb)["ready_bb"], x["bb"])]
                after = []
                for f in w_before:
                    rb = hb.completion_of(f.inner_bb)["ready_bb"]
                    reach = hb.reachable_from(rb)
                    after += [g2 for g2 in effs if g2.inner_bb in reach and g2 is not f and x["bb"] in hb.reachable_from(g2.inner_bb)]
                ok = in_reg and len(w_before) >= 1 and not after
                seen_causes.add("user-disconnect") if ok else None
                out.append(Inst("EXITS-OK", "handle_message:stop", ok, hb.site(x["bb"]),
                                "stop signal raised under the DISCONNECT type guard=%s after %d completed write(s), writes after it: %d" % (in_reg, len(w_before), len(after)),
                                "only once the user's DISCONNECT has been written, nothing written after it"))
        if helper == "handle_message":
            # every way out of the fire-and-forget arm after its write goes through the DISCONNECT test
            guards = type_guards(ctx, hb)
            g = guards.get("DISCONNECT")
            sw_, arms_, oth_, _, _ = match_arms(hb, CTXMSG)
            reg_ = arm_region(hb, arms_["FireAndForget"]) if "FireAndForget" in arms_ else set()
            effs_ = [f for f in ctx.effects(hb) if f.kind == "TxWrite" and f.bb in reg_]
            if g is not None and effs_ and hb.completion_of(effs_[0].inner_bb):
                rb_ = hb.completion_of(effs_[0].inner_bb)["ready_bb"]
                reach_ = hb.reachable_from(rb_, avoid=[g[0]])
                skips = [b_ for b_ in reach_ if b_ in reg_ and any(
                    st["k"] == "assign" and st["lhs"]["l"] == 0 and not st["lhs"]["p"] and st["rv"]["k"] == "agg" and st["rv"].get("variant") == "Ok" for st in hb.blocks[b_]["stmts"])]
                # leaving the arm towards the function's common `Ok(..)` tail without the test
                tail = [b_ for b_ in reach_ if b_ not in reg_ and any(
                    st["k"] == "assign" and st["lhs"]["l"] == 0 and not st["lhs"]["p"] and st["rv"]["k"] == "agg" and st["rv"].get("variant") == "Ok" for st in hb.blocks[b_]["stmts"])]
                skips += tail
                out.append(Inst("EXITS-OK", "handle_message:disconnect-test-after-every-write", not skips, hb.site(g[0]),
                                "Ok exits of the fire-and-forget arm reachable after the write without passing the DISCONNECT test: %s" % ([hb.site(b_) for b_ in skips] or "none"),
                                "whenever the user's DISCONNECT has been written, run() is told to stop"))
            if g is not None and stop_exits:
                # ... and the DISCONNECT test alone decides: once the packet type is DISCONNECT no continue-exit is reachable
                # (the stop must not additionally depend on whether the caller still listens)
                reach_t = hb.reachable_from(g[1])
                leak = [x for x in cont_exits if x["bb"] in reach_t]
                out.append(Inst("EXITS-OK", "handle_message:disconnect-alone-decides", not leak, hb.site(g[0]),
                                "continue-exits reachable after the packet type test has identified a DISCONNECT: %s" % ([hb.site(x["bb"]) for x in leak] or "none"),
                                "a written DISCONNECT always stops run(), whatever else is true"))
        # between the stop edge and run's return nothing is written
        reach = run.reachable_from(e["bb"])
        out.append(Inst("EXITS-OK", "run:ok-exit-via-%s" % helper, True, run.site(e["bb"]), "Ok(()) exit of run controlled by the stop signal %s of %s" % (sig, helper), ""))
    for need in ("server-disconnect-0", "user-disconnect"):
        if need not in seen_causes:
            out.append(Inst("EXITS-OK", "run:missing-cause:%s" % need, False, run.site(0), "run() has no Ok(()) exit for cause '%s'" % need,
                            "Ok(()) for the user's DISCONNECT written and for a server DISCONNECT with reason 0"))
    return out


def _is_signal_switch(body, si):
    return False


# ------------------------------------------------------------------------------------ first response

@rule("FIRST-RESPONSE", floor=8)
def first_response(ctx):
    """connect()/authorize(): the first packet is mapped Connack -> handle_connack + ConnectRsp::try_from,
    Auth -> AuthRsp::try_from, end of stream -> SocketClosed; any other packet type is an error return,
    never a panic."""
    out = []
    for name in ("connect", "authorize"):
        # flattened: a helper shared by connect() and authorize() for the reply handling is looked at in place
        b = ctx.flat(ctx.coroutine(r"client::context::Context::<[^>]*>::" + name), keep=r"client::(rsp|error|opts)::")
        sw, arms, otherwise, other_vs, si = match_arms(b, RXPACKET)
        for v, want in (("Connack", "ConnectRsp"), ("Auth", "AuthRsp")):
            if v not in arms:
                out.append(Inst("FIRST-RESPONSE", "%s:%s:arm-missing" % (name, v), False, b.site(sw), "no arm for %s" % v, "mapped to %s" % want))
                continue
            reg = arm_region(b, arms[v])
            tf = [(i, t) for i, t in b.calls(r"TryFrom::try_from$") if i in reg]
            ok = any(((t["callee"].get("self_ty") or "").endswith(want)) for i, t in tf)
            out.append(Inst("FIRST-RESPONSE", "%s:%s:maps-to" % (name, v), ok, b.site(arms[v]),
                            "arm %s converts with %s" % (v, [short_ty(t["callee"].get("self_ty")) for i, t in tf]), "%s::try_from" % want))
            if v == "Connack":
                hc = [(i, t) for i, t in b.calls(r"Context::handle_connack$") if i in reg]
                okh = len(hc) == 1 and all(b.dominates(hc[0][0], i) for i, t in tf)
                out.append(Inst("FIRST-RESPONSE", "%s:Connack:handle_connack-first" % name, okh, b.site(arms[v]),
                                "%d handle_connack call(s) before the conversion" % len(hc), "limits (Receive Maximum, Maximum Packet Size) are taken from every CONNACK"))
        # other packet types
        if otherwise is not None:
            reach = b.reachable_from(otherwise)
            panics = [x for x in reach if b.is_panic_block(x) and not b.blocks[x]["cleanup"]]
            unreachable_default = b.term(otherwise)["k"] == "unreachable"
            if unreachable_default:
                pass
            else:
                only_panics = all(not b.is_exit(x) for x in reach) or (panics and not any(is_err_block(b, x) for x in reach))
                out.append(Inst("FIRST-RESPONSE", "%s:other-types:%s" % (name, "panic" if only_panics else "error"), not only_panics, b.site(otherwise),
                                "for the %d other packet types %s the default arm %s" % (len(other_vs), other_vs, "panics (unreachable!)" if only_panics else "returns an error"),
                                "an error return, never a panic (every packet type at every phase)"))
        # stream end
        res = [e for e in exits(ctx, b) if e["kind"] == "residual"]
        def _sock(c):
            return (c["kind"] == "expr" and "SocketClosed" in c.get("variants", [])) or (c["kind"] == "ok_or" and c.get("err") == "SocketClosed")
        def _parts(c):
            return c["parts"] if c.get("kind") == "mixed" else [c]
        sc = [e for e in res if any(_sock(c1) for c1 in _parts(e["cause"]))]
        if not sc:
            # written out: `None => return Err(SocketClosed.into())` on the None edge of the awaited next()
            for e in exits(ctx, b):
                if e["kind"] != "err" or not any(a[0] == "variant" and a[2] == "SocketClosed" or (a[0] == "agg" and "SocketClosed" in str(a)) for a in e.get("atoms", ())):
                    continue
                for (d, s_) in dominating_edges(b, e["bb"]):
                    si_ = b.switch_info(d)
                    if si_ and si_["kind"] == "discr" and si_["variants"].get(next((v for v, x in b.term(d)["targets"] if x == s_), None)) == "None" \
                            and "RxPacket" in (local_ty(b, {"k": "copy", "pl": si_["place"]}) or ""):
                        sc.append(e)
                        break
        out.append(Inst("FIRST-RESPONSE", "%s:stream-end" % name, len(sc) == 1, b.site(sc[0]["bb"]) if sc else b.site(0),
                        "end of stream before the first response -> %s" % ("SocketClosed" if sc else "not mapped"), "SocketClosed"))
        # every other `?` exit classified
        for e in res:
          for c in _parts(e["cause"]):
            ok = (c["kind"] == "call" and (c["call"].endswith("Opts::build") or c["call"].endswith("::try_from") or "as std::convert::TryFrom" in c["call"])) or \
                 (c["kind"] == "await" and c["of"].endswith("TxPacketStream::write")) or _sock(c) or \
                 (c["kind"] == "value" and "Result<codec::packet::RxPacket, core::error::CodecError>" in (c.get("ty") or ""))
            out.append(Inst("FIRST-RESPONSE", "%s:exit:%s" % (name, short_ty(c.get("call") or c.get("of") or c["kind"])), ok, b.site(e["bb"]),
                            "`?` exit caused by %s" % c, "build refusal, write failure, stream end / undecodable, or the response conversion"))
    return out


# ------------------------------------------------------------------------------------ THRESH

def _thresh_units(ctx):
    """The client code in which reason codes are judged, each piece once and in flattened form (a shared helper such as
    `accept_ack(packet)` or a trait method `reason.is_failure()` is looked at inside its caller, where the reason is a
    field of a known packet)."""
    cache = ctx.__dict__.get("_thresh_units")
    if cache is not None:
        return cache
    flats = {}
    for role, body in ctx.client_units():
        if body.fn["file"].endswith("error.rs"):
            continue
        if body.fn.get("flat"):
            flats[body.path] = body
            continue
        try:
            flats[body.path] = ctx.flat(body)
        except AnchorLost:
            flats[body.path] = body
    covered = set()
    for p_, b_ in flats.items():
        covered |= (set(b_.fn.get("inlined", [])) - {p_})
    units = [b_ for p_, b_ in sorted(flats.items()) if p_ not in covered]
    ctx.__dict__["_thresh_units"] = units
    return units


def thresh_sites(ctx):
    """Comparisons of a `reason` with a constant inside client::rsp TryFrom impls and ContextHandle closures."""
    sites = []
    for body in _thresh_units(ctx):
        for b in sorted(body.reach):
            c = Cond(body, b)
            if c.kind != "cmp":
                continue
            n = c.cmp_norm(field_pred(body, "reason"))
            if not n:
                continue
            k = body.fold(n[1])
            if k is None:
                continue
            sites.append((body, b, c, n[0], k))
    return sites


@rule("THRESH", floor=8)
def thresh(ctx):
    """Every `reason >= 0x80 => error` site uses exactly the standard's threshold, errors on the >= side
    and builds the error type that matches the packet."""
    thr = ctx.spec("reasons")["failure_threshold"]
    out = []
    for body, b, c, op, k in thresh_sites(ctx):
        ctx.note(body)
        # which side produces Err?
        stops = {a_["poll_bb"] for a_ in body.awaits()} | {x for x in body.reach if body.term(x)["k"] == "yield"}

        def side_has_err(s_):
            # what the decision leads to directly: the first Ok(..) / Err(..) built on each path from this side, up to the
            # next suspension point (what follows -- later `?`s of the caller an inlined conversion sits in, the PUBCOMP
            # check after a good PUBREC -- are decisions of their own)
            vs = set()
            seen_, work_ = set(), [s_]
            other_ = [x for x in body.succ(b) if x != s_]
            while work_:
                x = work_.pop()
                if x in seen_ or x in stops or x in other_ or x not in body.reach:
                    continue
                seen_.add(x)
                built = False
                for st in body.blocks[x]["stmts"]:
                    if st["k"] == "assign" and st["rv"]["k"] == "agg" and st["rv"].get("variant") in ("Ok", "Err") and "Result" in (st["rv"].get("adt") or ""):
                        vs.add(st["rv"]["variant"])
                        built = True
                t = body.term(x)
                if t["k"] == "call":
                    nm = callee_resolved(t) or ""
                    m = re.search(r"(\w+Error) as std::convert::From<", nm) or re.search(r"<client::error::(\w+Error)", nm)
                    if m:
                        vs.add("errtype:" + m.group(1))
                if not built and not (t["k"] == "switch" and len(set(body.succ(x))) > 1):
                    # ... and up to the next decision: what a later test (a builder that may refuse, the next `?`) leads to is
                    # that test's outcome, not this one's
                    work_.extend(body.succ(x))
            return vs
        ts, fs = side_has_err(c.true_succ), side_has_err(c.false_succ)
        # normalise to "fail side is reason >= thr"
        norm_ok = (op == "Ge" and k == thr) or (op == "Gt" and k == thr - 1) or (op == "Lt" and k == thr) or (op == "Le" and k == thr - 1)
        fail_side_true = op in ("Ge", "Gt")
        fail = ts if fail_side_true else fs
        good = fs if fail_side_true else ts
        err_on_fail = "Err" in fail and "Err" not in good
        et = sorted(x.split(":")[1] for x in fail if x.startswith("errtype:"))
        where = body.path.replace("client::", "")
        key = re.sub(r"std::convert::|codec::\w+::|rsp::|handle::", "", where)
        # expected error type from the function: TryFrom<XRx> for YRsp / closures in publish
        rty = None
        for a in body.atoms(c.a) | body.atoms(c.b):
            if a[0] == "field" and a[2] == "reason":
                rty = a[1]
        out.append(Inst("THRESH", "%s:threshold" % key, norm_ok, body.site(b), "reason %s 0x%02x" % (op, k), "failure iff reason >= 0x%02x" % thr))
        if "send_quota" not in str(body.fn["path"]) and (ts or fs) and ("Err" in ts or "Err" in fs):
            out.append(Inst("THRESH", "%s:err-side" % key, err_on_fail, body.site(b), "Err on the %s side (error types %s)" % ("failing" if err_on_fail else "wrong", et), "Err exactly when reason >= 0x80"))
    # an error that reports a reason code is built only where the reason is known to be a failure: the construction is
    # dominated by the failing edge of a threshold test (`reason >= 0x80 || other` reaches it from a second edge)
    for body in _thresh_units(ctx):
        for x in sorted(body.reach):
            for st in body.blocks[x]["stmts"]:
                if st["k"] != "assign" or st["rv"]["k"] != "agg" or not re.match(r"client::error::\w+Error$", st["rv"].get("adt") or ""):
                    continue
                ea = ctx.facts.adt(st["rv"]["adt"])
                def _has_reason(a_):
                    return a_ is not None and a_["kind"] == "struct" and any(f_["name"] == "reason" for f_ in a_["variants"][0]["fields"])
                if ea is None or ea["kind"] != "struct" or not (_has_reason(ea) or any(_has_reason(ctx.facts.adt(re.sub(r"<.*$", "", f_["ty"]))) for f_ in ea["variants"][0]["fields"])):
                    continue
                how = None
                for (d, s_) in dominating_edges(body, x):
                    c_ = Cond(body, d)
                    if c_.kind == "cmp":
                        n_ = c_.cmp_norm(field_pred(body, "reason"))
                        k_ = body.fold(n_[1]) if n_ else None
                        truth = c_.holds_on(s_)
                        if n_ and k_ is not None and truth is not None:
                            eff = n_[0] if truth else {"Eq": "Ne", "Ne": "Eq", "Lt": "Ge", "Ge": "Lt", "Gt": "Le", "Le": "Gt"}[n_[0]]
                            if (eff == "Ge" and k_ >= thr) or (eff == "Gt" and k_ >= thr - 1) or (eff == "Eq" and k_ >= thr):
                                how = "reason %s 0x%02x at %s" % (eff, k_, body.site(d))
                    si_ = body.switch_info(d)
                    if how is None and si_ and si_["kind"] == "discr" and re.search(r"Reason$", si_.get("adt") or "") and any(a[0] == "field" and a[2] == "reason" for a in body.atoms({"k": "copy", "pl": si_["place"]})):
                        vals = body.edge_value(d, s_)
                        listed = [v for v, _ in si_["targets"]]
                        ra = ctx.facts.adt(si_["adt"])
                        poss = [v for v in vals if v != "otherwise"] + ([v_["discr"] for v_ in ra["variants"] if v_["discr"] not in listed] if ("otherwise" in vals and ra) else [])
                        if poss and all(isinstance(v, int) and v >= thr for v in poss):
                            how = "match arm of failing reasons at %s" % body.site(d)
                key = re.sub(r"std::convert::|codec::\w+::|rsp::|handle::", "", body.path.replace("client::", ""))
                out.append(Inst("THRESH", "%s:error-only-when-failed:%s" % (key, st["rv"]["adt"].split("::")[-1]), how is not None, "%s:%d" % (body.fn["file"], st["line"]),
                                "%s is built %s" % (st["rv"]["adt"].split("::")[-1], "under " + how if how else "on a path where the reason may be below 0x%02x" % thr),
                                "an error reporting a reason code exists only for reason >= 0x%02x" % thr))
    # the same decision written as a `match` on the reason enum: per variant, Err exactly for the discriminants >= 0x80
    for body in _thresh_units(ctx):
        for b in sorted(body.reach):
            si = body.switch_info(b)
            if not si or si["kind"] != "discr" or not re.search(r"::(Puback|Pubrec|Pubrel|Pubcomp|Suback|Unsuback|Connect|Auth)Reason$", si.get("adt") or ""):
                continue
            if not any(a[0] == "field" and a[2] == "reason" for a in body.atoms({"k": "copy", "pl": si["place"]})):
                continue
            adt = ctx.facts.adt(si["adt"])
            stops = {a_["poll_bb"] for a_ in body.awaits()} | {x for x in body.reach if body.term(x)["k"] == "yield"}
            succs = body.succ(b)
            t = body.term(b)
            listed = {v for v, _ in t["targets"]}
            wrong = []
            n_dec = 0
            for v in adt["variants"]:
                d = v["discr"]
                tgt = next((x for val, x in t["targets"] if val == d), t["otherwise"])
                if tgt is None:
                    continue
                # the first Ok(..) / Err(..) built on the way from this arm, up to the next decision or suspension point
                vs = set()
                seen_, work_ = set(), [tgt]
                while work_:
                    x = work_.pop()
                    if x in seen_ or x in stops or (x in succs and x != tgt) or x not in body.reach:
                        continue
                    seen_.add(x)
                    built = False
                    for st in body.blocks[x]["stmts"]:
                        if st["k"] == "assign" and st["rv"]["k"] == "agg" and st["rv"].get("variant") in ("Ok", "Err") and "Result" in (st["rv"].get("adt") or ""):
                            vs.add(st["rv"]["variant"])
                            built = True
                    tx_ = body.term(x)
                    if not built and not (tx_["k"] == "switch" and len(set(body.succ(x))) > 1):
                        work_.extend(body.succ(x))
                if not vs:
                    continue
                n_dec += 1
                is_err = "Err" in vs and "Ok" not in vs
                is_ok = "Ok" in vs and "Err" not in vs
                if (d >= thr and not is_err) or (d < thr and not is_ok):
                    wrong.append("%s(0x%02x)->%s" % (v["name"], d, "/".join(sorted(vs))))
            if n_dec == 0:
                continue
            ctx.note(body)
            key = re.sub(r"std::convert::|codec::\w+::|rsp::|handle::", "", body.path.replace("client::", ""))
            out.append(Inst("THRESH", "%s:match-on-%s" % (key, si["adt"].split("::")[-1]), not wrong, body.site(b),
                            "match on the reason: %s" % ("every variant >= 0x%02x is an error, every smaller one a success" % thr if not wrong else "wrong outcome for %s" % wrong[:6]),
                            "failure iff reason >= 0x%02x" % thr))
    return out


# ------------------------------------------------------------------------------------ CONV

CONV_TABLE = {
    # (source type suffix, target type suffix) -> expected variant / constructed type
    ("futures::futures_channel::oneshot::Canceled", "MqttError"): "ContextExited",
    ("TrySendError<T>", "MqttError"): "ContextExited",
    ("std::io::Error", "MqttError"): "SocketClosed",
    ("SocketClosed", "MqttError"): "SocketClosed",
    ("HandleClosed", "MqttError"): "HandleClosed",
    ("ContextExited", "MqttError"): "ContextExited",
    ("CodecError", "MqttError"): "CodecError",
    ("InternalError", "MqttError"): "InternalError",
    ("QuotaExceeded", "MqttError"): "QuotaExceeded",
    ("MaximumPacketSizeExceeded", "MqttError"): "MaximumPacketSizeExceeded",
    ("Disconnected", "MqttError"): "Disconnected",
    ("DisconnectRx", "MqttError"): "Disconnected",
    ("ConnectError", "MqttError"): "ConnectError",
    ("AuthError", "MqttError"): "AuthError",
    ("AckError<codec::puback::PubackReason>", "MqttError"): "PubackError",
    ("AckError<codec::pubrec::PubrecReason>", "MqttError"): "PubrecError",
    ("AckError<codec::pubcomp::PubcompReason>", "MqttError"): "PubcompError",
}


@rule("CONV", floor=10)
def conv(ctx):
    """Each `From<X> for MqttError` produces the documented variant (Canceled / TrySendError ->
    ContextExited, io::Error -> SocketClosed, ...)."""
    out = []
    for im in ctx.facts.impls:
        tr = im.get("trait")
        if not tr or tr["path"] != "std::convert::From":
            continue
        if not im["self_ty"].endswith("client::error::MqttError"):
            continue
        m = re.match(r"std::convert::From<(.*)>$", tr["full"])
        src = m.group(1) if m else "?"
        fn = [it for it in im["items"] if it["kind"] == "fn" and it["name"] == "from"]
        if not fn:
            continue
        body = ctx.world.body(fn[0]["def"])
        if body is None:
            continue
        ctx.note(body)
        variants = set()
        for i in body.reach:
            for st in body.blocks[i]["stmts"]:
                if st["k"] == "assign" and st["rv"]["k"] == "agg" and st["rv"].get("adt", "").endswith("MqttError"):
                    variants.add(st["rv"]["variant"])
        want = None
        for (s_, t_), v in CONV_TABLE.items():
            if src.endswith(s_) or strip_generics(src).endswith(s_) or re.sub(r"<.*>", "<T>", src).endswith(s_):
                want = v
        key = short_ty(re.sub(r"<.*>", "", src)) + ("<%s>" % short_ty(re.search(r"<(.*)>", src).group(1)) if "AckError<" in src else "")
        if want is None:
            out.append(Inst("CONV", "%s:unlisted" % key, True, body.site(0), "From<%s> -> %s (not in the documented table)" % (src, sorted(variants)), "-"))
        else:
            out.append(Inst("CONV", "%s" % key, variants == {want}, body.site(0), "From<%s> for MqttError builds %s" % (short_ty(src), sorted(variants)), "MqttError::%s" % want))
    return out
