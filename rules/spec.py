"""Specialisation of a body to one variant of the value it dispatches on.

`handle_packet` may dispatch on the received packet in one `match` with an arm per kind, or in stages: a catch-all arm
that asks a private table (`AckEffects::of(&packet)`, a second `match` on the same packet) which bookkeeping the kind
of packet needs, and then tests the flags of the answer. What the rules want to know is the same in both writings:
*which blocks can run when the packet is a PUBACK*. This module answers that by a forward constant propagation over
the (flattened) body under the assumption "the dispatched value is variant V":

  - abstract values: a variant name, a constant, a reference to a place, a literal of a struct / tuple with abstract
    fields; anything else is unknown;
  - a `match` on a place whose variant is known follows the one edge of that variant; an edge of a `match` on a place
    of unknown variant teaches the variant on that edge; a switch on a known constant follows one edge;
  - values meet at joins (equal or unknown), so the result over-approximates the blocks that can run: a block outside
    the result cannot run for a packet of that kind.

`Spec.reach` is that set of blocks; `Spec.pins` lists, for locals with several definitions, the definitions that lie
inside it (to be used with Body._pin so that origin()/atoms() follow the definitions that matter for this variant)."""
import contextlib

UNK = None


def _key(pl):
    out = []
    for p in pl["p"]:
        if p == "deref":
            out.append("deref")
        elif isinstance(p, dict) and "f" in p:
            out.append(("f", p["f"]))
        elif isinstance(p, dict) and "dc" in p:
            out.append(("dc", p.get("vi")))
        else:
            out.append(("x", str(p)))
    return (pl["l"], tuple(out))


def _plain(v):
    return v is not UNK


def _mkset(vals):
    """The abstract value 'one of these' (at most six alternatives; anything unknown makes the whole unknown)."""
    mem = []
    for v in vals:
        if v is UNK:
            return UNK
        for m in (v[1] if v[0] == "set" else [v]):
            if m not in mem:
                mem.append(m)
    if not mem:
        return UNK
    if len(mem) == 1:
        return mem[0]
    if len(mem) > 6:
        return UNK
    try:
        return ("set", frozenset(mem))
    except TypeError:
        return UNK


class Spec:
    def __init__(self, body, root_bb=None, variant=None, adt=None, run=True):
        self.body = body
        self.root = root_bb
        self.variant = variant
        self.adt = adt
        self.env_in = {}
        self.reach = set()
        self.edges = set()
        self.pins = {}
        if run:
            self._run()
            self.pins = self._pins()

    def path_feasible(self, path):
        """False when the path takes an edge that the values established earlier on the same path exclude (a literal
        given to a local, a variant learnt on an earlier edge, a constant flag), however deeply the value is nested."""
        env = {}
        for a, s_ in zip(path, path[1:]):
            outs = self._block(a, env)
            if s_ not in outs:
                return False
            env = outs[s_]
        return True

    def path_value(self, path, local=0):
        """Abstract value of a local at the end of the path (None: unknown, or the path is infeasible)."""
        env = {}
        for a, s_ in zip(path, path[1:]):
            outs = self._block(a, env)
            if s_ not in outs:
                return None
            env = outs[s_]
        env = dict(env)
        for st in self.body.blocks[path[-1]]["stmts"]:
            if st["k"] == "assign":
                self._write(env, st["lhs"], self._rv(env, st["rv"]))
        return self._read(env, (local, ()))

    # ------------------------------------------------------------------ abstract store
    def _read(self, env, key):
        l, proj = key
        # longest prefix present in the store, then apply the remaining projections to the abstract value
        for n in range(len(proj), -1, -1):
            k = (l, proj[:n])
            if k in env:
                return self._project(env, env[k], proj[n:], 0)
        return UNK

    def _project(self, env, val, rest, depth):
        if depth > 12:
            return UNK
        for i, p in enumerate(rest):
            if val is UNK:
                return UNK
            if val[0] == "set":
                outs = [self._project(env, m, rest[i:], depth + 1) for m in val[1]]
                return _mkset(outs)
            if p == "deref":
                if val[0] == "ref":
                    return self._project(env, self._read(env, val[1]), rest[i + 1:], depth + 1)
                return UNK
            if p[0] == "f":
                if val[0] == "bundle":
                    val = dict(val[1]).get(p[1], UNK)
                    continue
                if val[0] == "var":
                    val = dict(val[3]).get(p[1], UNK) if len(val) > 3 else UNK
                    continue
                return UNK
            if p[0] == "dc":
                continue            # a downcast keeps the value (its variant is what we know)
            return UNK
        return val

    @staticmethod
    def _kill(env, key):
        l, proj = key
        for k in [k for k in env if k[0] == l and (k[1][:len(proj)] == proj or proj[:len(k[1])] == k[1])]:
            del env[k]
        # references to the killed place stay references (they name the place, not its value)

    def _write(self, env, pl, val):
        key = _key(pl)
        if "deref" in key[1]:
            # a write through a pointer: resolve the pointer when it is known, otherwise forget what it may alias
            i = key[1].index("deref")
            base = self._read(env, (key[0], key[1][:i]))
            if base is not UNK and base[0] == "ref":
                tgt = (base[1][0], base[1][1] + key[1][i + 1:])
                self._kill(env, tgt)
                if val is not UNK:
                    env[tgt] = val
                return
            if key[0] != 1:
                # unknown pointer (not the coroutine's own state): be conservative
                for k in [k for k in env if k[0] != key[0]]:
                    if env[k] is not UNK and env[k][0] in ("var", "bundle", "const"):
                        pass
            self._kill(env, key)
            if val is not UNK:
                env[key] = val
            return
        self._kill(env, key)
        if val is not UNK:
            env[key] = val

    def _op(self, env, op):
        if op.get("k") == "const":
            v = op.get("val")
            if isinstance(v, (bool, int)) and not op.get("uneval"):
                return ("const", v)
            return UNK
        if op.get("k") in ("move", "copy"):
            return self._read(env, _key(op["pl"]))
        return UNK

    def _variant_discr(self, adt, name):
        a = self.body.facts.adt(adt) if self.body.facts else None
        if a is None:
            from mir import KNOWN_ENUMS
            for d_, n_ in (KNOWN_ENUMS.get(adt) or {}).items():
                if n_ == name:
                    return d_
            return None
        for v in a["variants"]:
            if v["name"] == name:
                return v["discr"]
        return None

    def _rv(self, env, rv):
        k = rv["k"]
        if k == "use":
            return self._op(env, rv["op"])
        if k == "cast":
            v = self._op(env, rv["op"])
            if v is not UNK and v[0] == "const" and isinstance(v[1], (int, bool)):
                return ("const", int(v[1])) if rv.get("kind") == "IntToInt" and "bool" not in (rv.get("ty") or "") else UNK
            return UNK
        if k == "ref":
            if rv.get("fake"):
                return UNK
            key = _key(rv["pl"])
            # `&*r` is r
            if key[1] and key[1][-1] == "deref":
                inner = self._read(env, (key[0], key[1][:-1]))
                if inner is not UNK and inner[0] == "ref":
                    return inner
            return ("ref", key)
        if k == "discr":
            v = self._read(env, _key(rv["pl"]))
            if v is not UNK and v[0] == "var":
                d = self._variant_discr(v[2], v[1])
                if d is not None:
                    return ("const", d)
            if v is not UNK and v[0] == "set" and all(m[0] == "var" for m in v[1]):
                ds = [self._variant_discr(m[2], m[1]) for m in v[1]]
                if all(d is not None for d in ds):
                    return _mkset([("const", d) for d in ds])
            return UNK
        if k == "agg":
            if rv.get("what") == "adt":
                a = self.body.facts.adt(rv.get("adt")) if self.body.facts else None
                from mir import KNOWN_ENUMS
                if (a is not None and a["kind"] == "enum") or rv.get("adt") in KNOWN_ENUMS:
                    return ("var", rv.get("variant"), rv.get("adt"), tuple(sorted((i, self._op(env, o)) for i, o in enumerate(rv["ops"]) if _plain(self._op(env, o)))))
                if a is not None and a["kind"] == "struct":
                    return ("bundle", tuple(sorted((i, self._op(env, o)) for i, o in enumerate(rv["ops"]) if _plain(self._op(env, o)))))
                return UNK
            if rv.get("what") == "tuple":
                return ("bundle", tuple(sorted((i, self._op(env, o)) for i, o in enumerate(rv["ops"]) if _plain(self._op(env, o)))))
            return UNK
        if k == "bin":
            a, b = self._op(env, rv["a"]), self._op(env, rv["b"])
            if a is not UNK and b is not UNK and a[0] == "const" and b[0] == "const" and not rv.get("checked"):
                x, y = a[1], b[1]
                try:
                    r = {"Eq": lambda: x == y, "Ne": lambda: x != y, "Lt": lambda: x < y, "Le": lambda: x <= y, "Gt": lambda: x > y,
                         "Ge": lambda: x >= y, "BitAnd": lambda: (x & y), "BitOr": lambda: (x | y), "BitXor": lambda: (x ^ y)}.get(rv["op"])
                    if r is not None:
                        return ("const", r())
                except TypeError:
                    return UNK
            return UNK
        if k == "un":
            a = self._op(env, rv["a"])
            if rv.get("op") == "Not" and a is not UNK and a[0] == "const" and isinstance(a[1], bool):
                return ("const", not a[1])
            return UNK
        return UNK

    # ------------------------------------------------------------------ transfer
    def _block(self, bb, env):
        """Environment at the terminator of bb, then {succ: env on that edge}."""
        body = self.body
        env = dict(env)
        for st in body.blocks[bb]["stmts"]:
            if st["k"] != "assign":
                continue
            rv = st["rv"]
            if rv["k"] == "ref" and rv.get("mut") and not rv.get("fake"):
                # the place may change through the new reference: forget its value (not its identity)
                val = self._rv(env, rv)
                tgt = val[1] if (val is not UNK and val[0] == "ref") else _key(rv["pl"])
                self._kill(env, tgt)
                self._write(env, st["lhs"], val)
                continue
            self._write(env, st["lhs"], self._rv(env, rv))
        t = body.term(bb)
        out = {}
        k = t["k"]
        if k == "switch":
            si = body.switch_info(bb)
            val = self._op(env, t["op"])
            listed = [v for v, _ in t["targets"]]
            chosen = None
            if bb == self.root and self.variant is not None:
                d = self._variant_discr(self.adt, self.variant)
                chosen = [d]
            elif val is not UNK and val[0] == "const":
                chosen = [int(val[1]) if isinstance(val[1], bool) else val[1]]
            elif val is not UNK and val[0] == "set" and all(m[0] == "const" for m in val[1]):
                chosen = [int(m[1]) if isinstance(m[1], bool) else m[1] for m in val[1]]
            elif si and si.get("kind") == "discr":
                pv = self._read(env, _key(si["place"]))
                if pv is not UNK and pv[0] == "var":
                    d = self._variant_discr(pv[2], pv[1])
                    chosen = [d] if d is not None else None
                elif pv is not UNK and pv[0] == "set" and all(m[0] == "var" for m in pv[1]):
                    ds = [self._variant_discr(m[2], m[1]) for m in pv[1]]
                    chosen = ds if all(d is not None for d in ds) else None
            if chosen is not None:
                succs = []
                for c_ in chosen:
                    tgt = None
                    for v, s_ in t["targets"]:
                        if v == c_:
                            tgt = s_
                    if tgt is None:
                        tgt = t["otherwise"]
                    if tgt is not None and tgt not in succs:
                        succs.append(tgt)
            else:
                succs = list(dict.fromkeys([s_ for _, s_ in t["targets"]] + ([t["otherwise"]] if t["otherwise"] is not None else [])))
            for s_ in succs:
                e2 = dict(env)
                if si and si.get("kind") == "discr" and si.get("adt"):
                    name = None
                    if bb == self.root and self.variant is not None:
                        name = self.variant
                    else:
                        vals = body.edge_value(bb, s_)
                        if vals and len(vals) == 1 and vals[0] != "otherwise":
                            name = si["variants"].get(vals[0])
                        elif vals == ["otherwise"]:
                            rest = [n for v, n in si["variants"].items() if v not in listed]
                            if len(rest) == 1:
                                name = rest[0]
                    if name is not None:
                        key = _key(si["place"])
                        # through a reference: name the place referred to
                        if "deref" in key[1]:
                            i = key[1].index("deref")
                            base = self._read(e2, (key[0], key[1][:i]))
                            if base is not UNK and base[0] == "ref":
                                key = (base[1][0], base[1][1] + key[1][i + 1:])
                        cur = self._read(e2, key)
                        if cur is UNK:
                            e2[key] = ("var", name, si["adt"], ())
                        elif cur[0] == "set":
                            keep = [m for m in cur[1] if m[0] == "var" and m[1] == name]
                            if keep:
                                self._kill(e2, key)
                                e2[key] = _mkset(keep)
                    elif si["place"] is not None:
                        key = _key(si["place"])
                        cur = self._read(e2, key)
                        vals = body.edge_value(bb, s_)
                        if cur is not UNK and cur[0] == "set" and all(m[0] == "var" for m in cur[1]) and "deref" not in key[1]:
                            def _on_edge(m):
                                d_ = self._variant_discr(m[2], m[1])
                                return (d_ in vals) or ("otherwise" in vals and d_ not in listed)
                            keep = [m for m in cur[1] if _on_edge(m)]
                            if keep and len(keep) < len(cur[1]):
                                self._kill(e2, key)
                                e2[key] = _mkset(keep)
                out[s_] = e2
            return out
        if k == "call":
            for o in t["ops"]:
                v = self._op(env, o)
                if v is not UNK and v[0] == "ref":
                    # handed to a callee by reference: a `&mut` may change it. Shared references to the packet and to
                    # literals are what the tables take; only forget when the reference was made with `&mut`.
                    if self._is_mut_ref(o):
                        self._kill(env, v[1])
            self._write(env, t["dest"], UNK)
        elif k == "drop":
            self._kill(env, _key(t["pl"]))
        elif k == "yield":
            if t.get("resume_arg"):
                self._write(env, t["resume_arg"], UNK)
        for s_ in body.succ(bb):
            out[s_] = env
        return out

    def _is_mut_ref(self, op):
        if op.get("k") not in ("move", "copy"):
            return False
        ty = self.body.locals[op["pl"]["l"]]["ty"] if not op["pl"]["p"] else ""
        return "&mut" in ty or "&'" in ty and " mut " in ty

    @staticmethod
    def _join(a, b):
        out = {}
        for k, v in a.items():
            if k in b:
                j = v if b[k] == v else _mkset([v, b[k]])
                if j is not UNK:
                    out[k] = j
        return out

    def _run(self):
        body = self.body
        self.env_in = {0: {}}
        work = [0]
        n = 0
        while work and n < 200000:
            n += 1
            bb = work.pop()
            self.reach.add(bb)
            for s_, e2 in self._block(bb, self.env_in[bb]).items():
                self.edges.add((bb, s_))
                if s_ not in self.env_in:
                    self.env_in[s_] = e2
                    work.append(s_)
                else:
                    j = self._join(self.env_in[s_], e2)
                    if j != self.env_in[s_]:
                        self.env_in[s_] = j
                        work.append(s_)
        # the fixpoint's reach: recompute with the final environments (an early visit may have followed an edge that the
        # joined environment no longer singles out -- that only adds blocks, which is the safe direction)

    def reach_from(self, bb, succ):
        """Blocks that can run after taking the edge bb -> succ, with what is known at bb under this specialisation."""
        if bb not in self.env_in:
            return set()
        outs = self._block(bb, self.env_in[bb])
        if succ not in outs:
            return set()
        env_in = {succ: outs[succ]}
        work = [succ]
        seen = set()
        n = 0
        while work and n < 100000:
            n += 1
            x = work.pop()
            seen.add(x)
            for s_, e2 in self._block(x, env_in[x]).items():
                if s_ not in env_in:
                    env_in[s_] = e2
                    work.append(s_)
                else:
                    j = self._join(env_in[s_], e2)
                    if j != env_in[s_]:
                        env_in[s_] = j
                        work.append(s_)
        return seen

    def _pins(self):
        pins = {}
        body = self.body
        for l in range(len(body.locals)):
            ds = body._whole_defs_raw(l)
            if len(ds) < 2:
                continue
            inside = [d for d in ds if d[0] in ("stmt", "call") and d[1] in self.reach]
            if 1 <= len(inside) < len(ds) and all(d[0] in ("stmt", "call") for d in ds):
                pins[l] = inside
        return pins

    @contextlib.contextmanager
    def pinned(self):
        body = self.body
        old = body.__dict__.get("_pin")
        new = dict(old or {})
        new.update(self.pins)
        body._pin = new
        caches = {k: body.__dict__.pop(k) for k in ("_wd_cache", "_atoms_cache", "_origin_cache", "_canon_cache", "_sym_cache") if k in body.__dict__}
        try:
            yield self
        finally:
            body._pin = old
            for k in ("_wd_cache", "_atoms_cache", "_origin_cache", "_canon_cache", "_sym_cache"):
                body.__dict__.pop(k, None)
            body.__dict__.update(caches)


def variant_specs(ctx, body, adt, root_bb):
    """{variant: Spec} for every variant of the enum the body dispatches on at root_bb (cached on the body)."""
    cache = body.__dict__.setdefault("_variant_specs", {})
    if (adt, root_bb) in cache:
        return cache[(adt, root_bb)]
    a = ctx.facts.adts.get(adt)
    out = {}
    if a is not None:
        for v in a["variants"]:
            out[v["name"]] = Spec(body, root_bb, v["name"], adt)
    cache[(adt, root_bb)] = out
    return out


def variants_reaching(ctx, body, adt, root_bb, bb):
    """Variants of the dispatched value for which block bb can run."""
    return sorted(v for v, s in variant_specs(ctx, body, adt, root_bb).items() if bb in s.reach)


@contextlib.contextmanager
def pinned_to_path(body, path):
    """While active, origin()/atoms()/symex() on `body` follow, for a local defined on several paths, the definition that
    lies on `path` (when exactly one does)."""
    on = set(path)
    pins = {}
    for l in range(len(body.locals)):
        ds = body._whole_defs_raw(l)
        if len(ds) < 2 or not all(d[0] in ("stmt", "call") for d in ds):
            continue
        inside = [d for d in ds if d[1] in on]
        if len(inside) == 1:
            pins[l] = inside
    old = body.__dict__.get("_pin")
    new = dict(old or {})
    new.update(pins)
    body._pin = new
    try:
        yield pins
    finally:
        body._pin = old
