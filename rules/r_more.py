"""Rules added after the fifth round of seeded changes: the encoder of the variable byte integer (VARINT-ENC) and the
value conversions of the option builders (OPTS-LOSSLESS)."""
import re
from engine import rule, Inst, AnchorLost
from mir import callee_name, callee_resolved, strip_generics

VSI_STATE = "core::base_types::VarSizeIntState"


# ------------------------------------------------------------------------------------ VARINT-ENC

def _norm(e):
    """(shift, mask, or_bits) of a byte expression over the root value, or None: byte = ((val >> shift) & mask) | or."""
    if e is None:
        return None
    if e == ("val",):
        return (0, None, 0)
    if e[0] == "cast":
        n = _norm(e[1])
        if n is None:
            return None
        sh, mask, orb = n
        w = {"u8": 0xFF, "u16": 0xFFFF, "u32": 0xFFFFFFFF, "u64": (1 << 64) - 1, "usize": (1 << 64) - 1}.get(e[2])
        if w is None:
            return None
        return (sh, w if mask is None else (mask & w), orb & w)
    if e[0] == "bin":
        op, a, k = e[1], e[2], e[3]
        n = _norm(a)
        if n is None or not isinstance(k, int):
            return None
        sh, mask, orb = n
        if op == "Shr":
            if orb:
                return None
            return (sh + k, None if mask is None else (mask >> k), 0)
        if op == "Div":
            if orb or k <= 0 or (k & (k - 1)):
                return None
            s_ = k.bit_length() - 1
            return (sh + s_, None if mask is None else (mask >> s_), 0)
        if op == "Rem":
            if orb or k <= 0 or (k & (k - 1)):
                return None
            m = k - 1
            return (sh, m if mask is None else (mask & m), 0)
        if op == "BitAnd":
            return (sh, k if mask is None else (mask & k), orb & k)
        if op == "BitOr":
            return (sh, mask, orb | k)
    return None


def _arm_bytes(body, entry, root_place_ok):
    """Walk the straight-line code of one arm: [byte expressions] handed to the buffer, or None."""
    env = {}
    arrays = []
    single = []
    bb = entry
    seen = set()

    def op_expr(o):
        if o.get("k") == "const":
            v = o.get("val")
            if isinstance(v, bool):
                return ("kb", v)
            return ("k", v) if isinstance(v, int) else None
        pl = o["pl"]
        fs = [p for p in pl["p"] if p != "deref"]
        if root_place_ok(pl):
            return ("val",)
        base = env.get(pl["l"])
        if base is None:
            return None
        if not fs:
            return base
        if base[0] == "tuple" and isinstance(fs[0], dict) and "f" in fs[0] and len(fs) == 1:
            return base[1][fs[0]["f"]] if fs[0]["f"] < len(base[1]) else None
        return None
    for _ in range(400):
        if bb in seen:
            return None
        seen.add(bb)
        for st in body.blocks[bb]["stmts"]:
            if st["k"] != "assign" or st["lhs"]["p"]:
                continue
            rv = st["rv"]
            l = st["lhs"]["l"]
            e = None
            if rv["k"] == "use":
                e = op_expr(rv["op"])
            elif rv["k"] == "cast" and rv.get("kind") == "IntToInt":
                a = op_expr(rv["op"])
                e = ("cast", a, rv["ty"]) if a is not None and a[0] not in ("k", "kb") else a
            elif rv["k"] == "bin":
                a, b_ = op_expr(rv["a"]), op_expr(rv["b"])
                if a is not None and b_ is not None and b_[0] == "k" and a[0] not in ("k", "kb"):
                    e = ("bin", rv["op"], a, b_[1])
                    if rv.get("checked"):
                        e = ("tuple", [e, ("k", 0)])
                elif a is not None and b_ is not None and a[0] == "k" and b_[0] == "k":
                    e = None
            elif rv["k"] == "agg" and rv.get("what") == "array":
                xs = [op_expr(o) for o in rv["ops"]]
                arrays.append(xs)
                e = ("array", xs)
            elif rv["k"] == "agg" and rv.get("what") == "tuple":
                e = ("tuple", [op_expr(o) for o in rv["ops"]])
            elif rv["k"] == "ref":
                e = env.get(rv["pl"]["l"]) if not [p for p in rv["pl"]["p"] if p != "deref"] else None
            if e is not None:
                env[l] = e
            else:
                env.pop(l, None)
        t = body.term(bb)
        if t["k"] in ("goto", "falseedge", "drop"):
            bb = t["t"]
            continue
        if t["k"] == "assert":
            bb = t["t"]
            continue
        if t["k"] == "switch":
            # a debug assertion on the value (`debug_assert!(val >> 21 == 0)`): follow the side that goes on
            cv = op_expr(t["op"])
            if cv is not None and cv[0] == "kb":
                want = 1 if cv[1] else 0
                nxt = next((s_ for v_, s_ in t["targets"] if v_ == want), t["otherwise"])
                if nxt is None:
                    return None
                bb = nxt
                continue
            outs = [s_ for s_ in body.succ(bb) if not _diverges(body, s_)]
            if len(outs) != 1:
                return None
            bb = outs[0]
            continue
        if t["k"] == "call":
            nm = callee_name(t) or ""
            if re.search(r"BufMut::put_u8$", nm) and len(t["ops"]) == 2:
                single.append(op_expr(t["ops"][1]))
            if t.get("t") is None:
                return None
            bb = t["t"]
            continue
        if t["k"] == "return":
            break
        return None
    if arrays:
        return arrays[-1] if len(arrays) == 1 else None
    return single or None


def _diverges(body, bb):
    seen = set()
    work = [bb]
    while work:
        x = work.pop()
        if x in seen:
            continue
        seen.add(x)
        t = body.term(x)
        if t["k"] == "return":
            return False
        if t["k"] == "call" and t.get("t") is None:
            continue
        if t["k"] in ("unreachable", "resume", "abort"):
            continue
        work.extend(body.succ(x))
        if len(seen) > 40:
            return False
    return True


@rule("VARINT-ENC", floor=4)
def varint_enc(ctx):
    """The encoder of the variable byte integer writes, for a value stored in its n-byte form, byte j as bits 7j..7j+6 of
    the value, with the continuation bit on every byte but the last (MQTT 5, 1.5.5): decided by normalising the expression
    each written byte is computed with (`% 0x80`, `/ 0x80`, shifts, masks, `| 0x80` in whatever mix) to
    ((value >> s) & m) | c and comparing s, m, c with the standard's layout. A way of writing the bytes this rule cannot
    read is reported as not decided, not as a violation."""
    f = None
    for im in ctx.facts.impls:
        tr = im.get("trait")
        if tr and tr["path"] == "core::utils::Encode" and (im.get("self_adt") or "") == "core::base_types::VarSizeInt":
            f = [it for it in im["items"] if it["kind"] == "fn" and it["name"] == "encode"]
    if not f:
        raise AnchorLost("impl Encode for VarSizeInt")
    body = ctx.flat(ctx.world.body(f[0]["def"]))
    ctx.note(body)
    adt = ctx.facts.adt(VSI_STATE)
    out = []
    sw = None
    for i in sorted(body.reach):
        si = body.switch_info(i)
        if si and si["kind"] == "discr" and si.get("adt") == VSI_STATE:
            sw = (i, si)
            break
    if sw is None or adt is None:
        out.append(Inst("VARINT-ENC", "layout", True, body.site(0), "NOT DECIDED: the encoder does not dispatch on the stored form of the value (VarSizeIntState)", "", {"undecided": True}))
        for k in range(3):
            out.append(Inst("VARINT-ENC", "layout#%d" % k, True, body.site(0), "NOT DECIDED", "", {"undecided": True}))
        return out
    i0, si = sw
    place0 = si["place"]

    def root_ok(pl):
        # `(self.0 as Variant).0`: the payload of the matched state
        fs = [p for p in pl["p"] if p != "deref"]
        if pl["l"] != place0["l"]:
            return False
        base = [p for p in place0["p"] if p != "deref"]
        rest = fs[len(base):]
        return fs[:len(base)] == base and len(rest) == 2 and isinstance(rest[0], dict) and "dc" in rest[0] and isinstance(rest[1], dict) and rest[1].get("f") == 0
    listed = {v: t for v, t in si["targets"]}
    for vi, v in enumerate(adt["variants"]):
        nbytes = vi + 1
        tgt = listed.get(v["discr"], si["otherwise"] if len([x for x in adt["variants"] if x["discr"] not in listed]) == 1 else None)
        if tgt is None:
            out.append(Inst("VARINT-ENC", "form=%s" % v["name"], True, body.site(i0), "NOT DECIDED: no arm of its own for %s" % v["name"], "", {"undecided": True}))
            continue
        bs = _arm_bytes(body, tgt, root_ok)
        if not bs or any(b_ is None for b_ in bs):
            out.append(Inst("VARINT-ENC", "form=%s" % v["name"], True, body.site(tgt), "NOT DECIDED: the bytes written for %s are not computed by expressions this rule can read" % v["name"], "", {"undecided": True}))
            continue
        wrong = []
        if len(bs) != nbytes:
            wrong.append("%d byte(s) written, %d expected" % (len(bs), nbytes))
        for j, e in enumerate(bs[:nbytes]):
            n = _norm(e if e[0] != "array" else None)
            if n is None:
                wrong = None
                break
            sh, mask, orb = n
            last = j == nbytes - 1
            mask = 0xFF if mask is None else (mask & 0xFF)
            low_ok = (mask & 0x7F) == 0x7F
            # bit 7: forced to 1 on every byte but the last; on the last byte it is 0 by the mask or by the form's bound
            if last:
                ok_b = sh == 7 * j and low_ok and orb == 0 and mask in (0x7F, 0xFF)
            else:
                ok_b = sh == 7 * j and low_ok and orb == 0x80 and mask in (0x7F, 0xFF)
            if not ok_b:
                wrong.append("byte %d = ((value >> %d) & 0x%02x) | 0x%02x" % (j, sh, mask, orb))
        if wrong is None:
            out.append(Inst("VARINT-ENC", "form=%s" % v["name"], True, body.site(tgt), "NOT DECIDED: an expression for a byte of %s does not normalise to ((value >> s) & m) | c" % v["name"], "", {"undecided": True}))
            continue
        out.append(Inst("VARINT-ENC", "form=%s" % v["name"], not wrong, body.site(tgt),
                        "%s: %s" % (v["name"], "byte j carries bits 7j..7j+6, continuation bit on all but the last" if not wrong else "; ".join(wrong)),
                        "byte j = ((value >> 7j) & 0x7f) | (0x80 unless last)"))
    return out


# ------------------------------------------------------------------------------------ OPTS-LOSSLESS

W = {"u8": 8, "i8": 8, "u16": 16, "i16": 16, "u32": 32, "i32": 32, "u64": 64, "i64": 64, "usize": 64, "isize": 64, "u128": 128, "i128": 128}


@rule("OPTS-LOSSLESS", floor=10)
def opts_lossless(ctx):
    """The option builders hand the caller's values to the packet builders unchanged or refuse them: in every setter of
    client::opts the value goes through moves, widening / checked conversions and constructors only. No floating point
    takes part (a value that went through an f32 keeps 24 bits), no narrowing `as`, no arithmetic (wrapping, saturating,
    modulo, shifts) on the caller's value -- a necessary condition for "the bytes written carry what the caller supplied"."""
    out = []
    n = 0
    for f in ctx.facts.fns:
        p = f["path"]
        if not p.startswith("client::opts::") or f["kind"] != "fn" or "::test" in p:
            continue
        if (f.get("arg_count") or 0) < 2:
            continue
        body = ctx.flat(ctx.world.body(p))
        # only setters: a builder method of the codec is called
        if not any(True for _ in body.calls(r"codec::\w+::\w+Builder::\w+$")):
            continue
        n += 1
        bad = []
        for l in body.locals:
            if l["ty"] in ("f32", "f64"):
                bad.append("a value of type %s" % l["ty"])
                break
        for i in sorted(body.reach):
            for st in body.blocks[i]["stmts"]:
                if st["k"] != "assign":
                    continue
                rv = st["rv"]
                if rv["k"] == "cast":
                    kind = rv.get("kind") or ""
                    if "Float" in kind:
                        bad.append("%s cast at line %d" % (kind, st["line"]))
                    elif kind == "IntToInt":
                        o = rv["op"]
                        src = o.get("ty") if o["k"] == "const" else (body.locals[o["pl"]["l"]]["ty"] if not o["pl"]["p"] else None)
                        if o["k"] != "const" and W.get(src) and W.get(rv["ty"]) and W[rv["ty"]] < W[src]:
                            bad.append("narrowing `%s as %s` at line %d" % (src, rv["ty"], st["line"]))
                elif rv["k"] == "bin" and rv["op"] in ("Add", "Sub", "Mul", "Div", "Rem", "Shl", "Shr", "BitAnd", "BitOr", "BitXor"):
                    ats = set()
                    for x in (rv["a"], rv["b"]):
                        if x.get("k") != "const":
                            ats |= body.atoms(x)
                    if any(a[0] == "param" and a[1] >= 2 for a in ats):
                        bad.append("arithmetic `%s` on the caller's value at line %d" % (rv["op"], st["line"]))
            t = body.term(i)
            if t["k"] == "call":
                nm = callee_name(t) or ""
                if re.search(r"(as_secs_f32|as_secs_f64|as_millis|as_micros|as_nanos|subsec_\w+|wrapping_\w+|saturating_\w+|overflowing_\w+|rem_euclid|checked_rem|min|max|clamp)$", nm) \
                        and any(a[0] == "param" and a[1] >= 2 for o in t["ops"] if o.get("k") != "const" for a in body.atoms(o)):
                    bad.append("%s() on the caller's value" % nm.split("::")[-1])
        nm_ = strip_generics(p).replace("client::opts::", "")
        out.append(Inst("OPTS-LOSSLESS", nm_, not bad, "%s:%d" % (f["file"], f["line"]),
                        "%s: %s" % (nm_, "the value reaches the packet builder through moves and checked / widening conversions only" if not bad else "; ".join(sorted(set(bad)))),
                        "the caller's value is carried unchanged or refused"))
    if n == 0:
        raise AnchorLost("setters in client::opts that call a codec builder")
    return out


# ------------------------------------------------------------------------------------ SEI-ORDER

@rule("SEI-ORDER", floor=1)
def sei_order(ctx):
    """The session expiry interval in force is the one the CONNACK grants when it carries one, the requested one
    otherwise: in connect() / authorize() the requested value is stored before the first response is handled, never
    after `handle_connack` (which would overwrite what the broker granted)."""
    from mir import place_fields
    from effects import CONNECTION
    out = []
    n = 0
    for nm in ("connect", "authorize"):
        try:
            b = ctx.flat(ctx.coroutine(r"client::context::Context::<[^>]*>::" + nm))
        except AnchorLost:
            continue
        hcs = [i for i, t in b.calls(r"::handle_connack$")]
        for i in sorted(b.reach):
            for st in b.blocks[i]["stmts"]:
                if st["k"] != "assign" or not place_fields(st["lhs"]) or place_fields(st["lhs"])[-1] != (CONNECTION, "session_expiry_interval"):
                    continue
                n += 1
                at = b.rv_atoms(st["rv"])
                from_connack = any(a[0] == "field" and str(a[1]).endswith("ConnackRx") for a in at)
                after = [h for h in hcs if i in b.reachable_from(h) and i != h]
                ok = from_connack or not after
                out.append(Inst("SEI-ORDER", "%s:write@%d" % (nm, n), ok, "%s:%d" % (b.fn["file"], st["line"]),
                                "session_expiry_interval := a value %s, %s" % ("of the CONNACK" if from_connack else "of the request", "after handle_connack (%s)" % [b.site(h) for h in after] if after else "before any response is handled"),
                                "the requested interval is stored before the CONNACK is looked at; what the CONNACK grants is not overwritten"))
        # ... and on every way to the CONNACK: a store that is skipped when the request carries no interval leaves the
        # interval of an earlier connection in force (absent means 0)
        wr = [i for i in sorted(b.reach) for st in b.blocks[i]["stmts"]
              if st["k"] == "assign" and place_fields(st["lhs"]) and place_fields(st["lhs"])[-1] == (CONNECTION, "session_expiry_interval")
              and not any(a[0] == "field" and str(a[1]).endswith("ConnackRx") for a in b.rv_atoms(st["rv"]))]
        if wr and hcs:
            rs = b.reachable_from(0, avoid=wr)
            skipped = [h for h in hcs if h in rs]
            out.append(Inst("SEI-ORDER", "%s:stored-on-every-path" % nm, not skipped, b.site(wr[0]),
                            "the CONNACK is handled %s" % ("only after the requested interval (or 0) has been stored" if not skipped else "on a path that stores no interval (%s)" % [b.site(h) for h in skipped]),
                            "the interval in force is the requested one, 0 when the request carries none; never the one of an earlier connection"))
    if n == 0:
        raise AnchorLost("a write of Connection.session_expiry_interval in connect()")
    return out


# ------------------------------------------------------------------------------------ RESUME-QUOTA

@rule("RESUME-QUOTA", floor=1)
def resume_quota(ctx):
    """The packets re-sent when a session is resumed are QoS>0 PUBLISH / PUBREL packets still in flight; connect() has
    just set the send quota to the new Receive Maximum. On the pinned tree the disconnection is never recorded
    (`Connection.disconnection_timestamp` is only ever cleared), so the replay cannot run and the question does not
    arise; as soon as some code records it, the replay must account for the slots of what it re-sends (otherwise R + k
    PUBLISH packets are in flight). Decided: who gives the field a value, and whether the replay touches the quota."""
    from mir import place_fields
    from effects import CONNECTION
    import r_quota
    out = []
    setters = []
    for _, ub in ctx.client_units():
        for i in sorted(ub.reach):
            for st in ub.blocks[i]["stmts"]:
                if st["k"] != "assign" or not place_fields(st["lhs"]) or place_fields(st["lhs"])[-1] != (CONNECTION, "disconnection_timestamp"):
                    continue
                rv = st["rv"]
                is_none = rv["k"] == "agg" and rv.get("variant") == "None"
                if not is_none and rv["k"] == "use" and rv["op"].get("k") in ("move", "copy"):
                    o = ub.origin(rv["op"], through_calls=False)
                    is_none = o[0] == "agg" and o[2]["rv"].get("variant") == "None"
                if not is_none:
                    setters.append("%s:%d" % (ub.fn["file"], st["line"]))
    run = ctx.run_body()
    replay_dec = [w for w in r_quota.quota_writes(ctx) if w.kind == "dec" and (w.top.path == run.path)]
    ok = not setters or bool(replay_dec)
    out.append(Inst("RESUME-QUOTA", "replay-accounts-for-slots", ok, setters[0] if setters else run.site(0),
                    "Connection.disconnection_timestamp is %s; the replay %s the send quota" % ("given a value at %s" % setters if setters else "never given a value (the resume path cannot run)", "decrements" if replay_dec else "does not touch"),
                    "re-sent QoS>0 packets occupy slots of the new connection's Receive Maximum"))
    return out
