"""P-PATHS helpers: paths with effect traces, exit classification."""
from mir import callee_name


def by_block(effs):
    m = {}
    for e in effs:
        m.setdefault(e.bb, []).append(e)
    return m


def traced_paths(ctx, body, start, effs, stop=None, cap=20000):
    m = by_block(effs)
    for path in body.paths(start, stop=stop, cap=cap):
        if not body.feasible(path):
            continue
        tr = []
        for b in path:
            tr.extend(m.get(b, ()))
        yield path, tr


def is_err_block(body, b):
    blk = body.blocks[b]
    for st in blk["stmts"]:
        if st["k"] == "assign" and st["lhs"]["l"] == 0 and not st["lhs"]["p"]:
            rv = st["rv"]
            if rv["k"] == "agg" and rv.get("what") == "adt" and rv.get("variant") == "Err":
                return True
    t = blk["term"]
    if t["k"] == "call" and t["dest"]["l"] == 0 and (callee_name(t) or "").endswith("FromResidual::from_residual"):
        return True
    return False


def exit_kind(body, path):
    """'ok' | 'err' | 'panic' | 'open' (path ended at a stop block or dead end)."""
    last = path[-1]
    t = body.term(last)
    if t["k"] == "call" and t["t"] is None:
        return "panic"
    if t["k"] == "unreachable":
        return "panic"
    if t["k"] == "return":
        for b in path:
            if is_err_block(body, b):
                return "err"
        return "ok"
    return "open"
