"""Loader and pretty-printer for the fact base written by driver/ (see DESIGN Appendix D)."""
import json
import re


class Facts:
    def __init__(self, path=None, data=None):
        import roles
        d = data if data is not None else roles.load_canonical(path)
        self.raw = d
        self.roles = d.get("_roles", {})
        self.crate = d["crate"]
        self.config = d["config"]
        self.fns = d["fns"]
        self.adts = {a["path"]: a for a in d["adts"]}
        self.impls = d["impls"]
        self.consts = d["consts"]
        self.by_path = {}
        for f in self.fns:
            self.by_path[f["path"]] = f
        self.children = {}
        for f in self.fns:
            p = f.get("parent")
            if p:
                self.children.setdefault(p, []).append(f["path"])

    # ---------------------------------------------------------------- lookup helpers
    def fn(self, path):
        return self.by_path.get(path)

    def find(self, regex):
        r = re.compile(regex)
        return [f for f in self.fns if r.search(f["path"])]

    def one(self, regex):
        m = self.find(regex)
        if len(m) != 1:
            raise KeyError("expected exactly one body matching %r, found %d: %s"
                           % (regex, len(m), [f["path"] for f in m][:6]))
        return m[0]

    def coroutine_of(self, fn_regex):
        """The coroutine body `f::{closure#0}` of an `async fn f`."""
        f = self.one(fn_regex + r"$")
        c = self.by_path.get(f["path"] + "::{closure#0}")
        if c is None or c["kind"] != "coroutine":
            raise KeyError("no coroutine body for %s" % f["path"])
        return c

    def adt(self, path):
        return self.adts.get(path)

    def variant_by_discr(self, adt_path, val):
        a = self.adts.get(adt_path)
        if not a:
            return None
        for v in a["variants"]:
            if v["discr"] == val:
                return v["name"]
        return None

    def const_val(self, name, self_ty_regex):
        r = re.compile(self_ty_regex)
        out = [c for c in self.consts if c["name"] == name and c["self_ty"] and r.search(c["self_ty"])]
        return out


# -------------------------------------------------------------------- pretty printing

def pplace(pl, fn=None):
    s = "_%d" % pl["l"]
    for p in pl["p"]:
        if p == "deref":
            s = "(*%s)" % s
        elif isinstance(p, dict):
            if "f" in p:
                s = "%s.%s" % (s, p["n"] if p["n"] is not None else p["f"])
            elif "dc" in p:
                s = "(%s as %s)" % (s, p["dc"])
            elif "idx" in p:
                s = "%s[_%d]" % (s, p["idx"])
            elif "cidx" in p:
                s = "%s[%s%d]" % (s, "-" if p.get("from_end") else "", p["cidx"])
            elif "sub" in p:
                s = "%s[%d..%d]" % (s, p["sub"], p["to"])
        else:
            s = "%s.%s" % (s, p)
    return s


def short(path):
    return re.sub(r"<[^<>]*>", "", path) if path else path


def pop(op):
    if op is None:
        return "?"
    k = op["k"]
    if k in ("copy", "move"):
        return ("move " if k == "move" else "") + pplace(op["pl"])
    if k == "const":
        if op.get("fn"):
            return "fn " + op["fn"]["def"]
        if op.get("uneval"):
            u = op["uneval"]
            return "const %s(=%s)" % (u["def"], u["eval"])
        return "const %r:%s" % (op["val"], op["ty"])
    return k


def prv(rv):
    k = rv["k"]
    if k == "use":
        return pop(rv["op"])
    if k == "ref":
        return ("&mut " if rv["mut"] else "&") + pplace(rv["pl"])
    if k == "rawptr":
        return "&raw " + pplace(rv["pl"])
    if k == "bin":
        return "%s%s(%s, %s)" % (rv["op"], "!" if rv["checked"] else "", pop(rv["a"]), pop(rv["b"]))
    if k == "un":
        return "%s(%s)" % (rv["op"], pop(rv["a"]))
    if k == "cast":
        return "%s as %s [%s]" % (pop(rv["op"]), rv["ty"], rv["kind"])
    if k == "discr":
        return "discr(%s)" % pplace(rv["pl"])
    if k == "agg":
        w = rv["what"]
        ops = ", ".join(pop(o) for o in rv["ops"])
        if w == "adt":
            return "%s::%s{%s}" % (rv["adt"], rv["variant"], ops)
        if w in ("closure", "coroutine", "coroutine_closure"):
            return "%s %s[%s]" % (w, rv["def"], ops)
        return "%s(%s)" % (w, ops)
    if k == "repeat":
        return "[%s; n]" % pop(rv["op"])
    return k


def pterm(t):
    k = t["k"]
    if k == "goto":
        return "goto bb%d" % t["t"]
    if k == "switch":
        return "switch %s [%s, otherwise bb%s]" % (
            pop(t["op"]), ", ".join("%s→bb%d" % (v, b) for v, b in t["targets"]), t["otherwise"])
    if k == "call":
        c = t["callee"]
        name = c["def"] if c else pop(t["fn_op"])
        if c and c.get("resolved"):
            name += " ⇒ " + c["resolved"]
        return "%s = %s(%s) → bb%s" % (pplace(t["dest"]), name, ", ".join(pop(o) for o in t["ops"]), t["t"])
    if k == "assert":
        return "assert(%s == %s, %s) → bb%d" % (pop(t["cond"]), t["expected"], t["msg"], t["t"])
    if k == "drop":
        return "drop(%s) → bb%d" % (pplace(t["pl"]), t["t"])
    if k == "yield":
        return "yield(%s) → bb%d" % (pop(t["value"]), t["t"])
    if k in ("falseedge", "falseunwind"):
        return "%s → bb%d" % (k, t["t"])
    return k


def dump_fn(f, out=None):
    import sys
    out = out or sys.stdout
    out.write("== %s [%s] %s:%d args=%d ret=%s\n" % (f["path"], f["kind"], f["file"], f["line"], f["arg_count"], f["ret_ty"]))
    names = {}
    for d in f["debug"]:
        names.setdefault(pplace(d["pl"]), d["name"])
    for i, l in enumerate(f["locals"]):
        out.write("   _%d: %s%s\n" % (i, l["ty"], ("  // " + names["_%d" % i]) if ("_%d" % i) in names else ""))
    for k, v in names.items():
        if not re.fullmatch(r"_\d+", k):
            out.write("   debug %s => %s\n" % (v, k))
    for i, b in enumerate(f["blocks"]):
        out.write(" bb%d%s:\n" % (i, " (cleanup)" if b["cleanup"] else ""))
        for st in b["stmts"]:
            if st["k"] == "assign":
                out.write("    %s = %s   // L%d\n" % (pplace(st["lhs"]), prv(st["rv"]), st["line"]))
            else:
                out.write("    setdiscr %s = %d\n" % (pplace(st["lhs"]), st["vi"]))
        out.write("    %s   // L%d\n" % (pterm(b["term"]), b["term"]["line"]))


if __name__ == "__main__":
    import sys
    fx = Facts(sys.argv[1])
    for f in fx.find(sys.argv[2]):
        dump_fn(f)
