"""Extraction of encoder / length-helper / decoder facts for the codec rules (LM, ORDER, BITS, LEGAL ...)."""
import re
from mir import Body, callee_name, callee_resolved, strip_generics, symex, sym_fold, sym_leaves, sym_or_terms, place_fields
from engine import AnchorLost

ENCODE_TRAIT = "core::utils::Encode"
EMIT_CALLS = re.compile(r"(core::utils::Encoder::encode|core::utils::Encode::encode|bytes::(buf::)?BufMut::put\w*)$")


def tx_types(ctx):
    """{name: {'adt':path, 'encode':Body, 'helpers':{name:Body}, 'builder':adt_path}} for every *Tx struct."""
    out = {}
    for im in ctx.facts.impls:
        tr = im.get("trait")
        if not tr or tr["path"] != ENCODE_TRAIT:
            continue
        adt = im.get("self_adt")
        if not adt or not re.match(r"codec::\w+::\w+Tx$", adt):
            continue
        enc = [it for it in im["items"] if it["kind"] == "fn" and it["name"] == "encode"]
        if not enc:
            continue
        name = adt.split("::")[-1]
        helpers = {}
        for f in ctx.facts.fns:
            if f["kind"] != "fn":
                continue
            sp = strip_generics(f["path"])
            if sp.startswith(adt + "::") and sp.count("::") == adt.count("::") + 1:
                helpers[sp.split("::")[-1]] = ctx.world.body(f["path"])
        # SizedPacket::packet_len
        for im2 in ctx.facts.impls:
            if im2.get("self_adt") == adt and im2.get("trait") and im2["trait"]["path"] == "core::utils::SizedPacket":
                for it in im2["items"]:
                    if it["kind"] == "fn":
                        helpers[it["name"]] = ctx.world.body(it["def"])
            # a private trait of the codec through which the length helpers are reached (`trait Framed { fn remaining_len }`
            # with one blanket `impl<T: Framed> SizedPacket for T`): its methods on X are X's helpers
            if im2.get("self_adt") == adt and im2.get("trait") and im2["trait"]["path"].startswith("codec::"):
                for it in im2["items"]:
                    if it["kind"] == "fn" and it["name"] not in helpers:
                        helpers[it["name"]] = ctx.world.body(it["def"])
        if "packet_len" not in helpers:
            for f_ in ctx.facts.fns:
                if f_["kind"] == "fn" and f_["name"] == "packet_len" and (f_.get("impl_trait") or "").startswith("core::utils::SizedPacket") and re.fullmatch(r"[A-Z]\w*", f_.get("impl_self") or ""):
                    helpers["packet_len"] = ctx.world.body(f_["path"])      # the blanket impl
        # Private plumbing (a free function of the module such as `opt_len(&self.field)`, an inherent method that is
        # neither a length-prefix helper nor the flags byte nor a predicate, e.g. `encode_reason_and_properties`) is
        # looked at in place: encode() and every role helper are flattened with exactly that plumbing inlined.
        module = adt.rsplit("::", 1)[0] + "::"
        roles_ = set(ROLE_HELPERS)
        inherent = {strip_generics(b_.path): h_ for h_, b_ in helpers.items()}

        def kept(p_, module=module, adt=adt, inherent=inherent, roles_=roles_):
            sp = strip_generics(p_.replace("::{closure#0}", ""))
            if sp in inherent:
                h_ = inherent[sp]
                f_ = ctx.facts.fn(p_)
                pred = f_ is not None and f_.get("sig_out") in ("bool", "u8") and len(f_.get("sig_in") or []) == 1
                return h_ in roles_ or pred
            f_ = ctx.facts.fn(p_)
            if f_ is not None and f_["kind"] == "fn" and sp.startswith(module) and sp.count("::") == module.count("::") and not f_.get("impl_self"):
                return False            # free function of the same module
            if f_ is not None and f_["kind"] == "fn" and sp.startswith("codec::") and not f_.get("impl_self") and f_.get("vis") != "pub":
                return False            # private free function of the codec shared between modules (`codec::pack_flags`)
            if f_ is not None and f_["kind"] == "closure":
                return False
            if f_ is not None and f_["kind"] == "fn" and (f_.get("impl_trait") or "").startswith("codec::") and "core::utils::Encoder" in (f_.get("impl_self") or ""):
                return False            # a private extension trait of the codec on the Encoder (`encode_opt`, `encode_all`): plumbing
            return True
        # a role helper that is a thin wrapper `fn remaining_len(&self) { self.remaining_len_with(self.property_len()) }` around
        # private plumbing that encode() calls directly (to compute a length once): the plumbing, called on the results of
        # the same role helpers, *is* the role helper. It stays a call in encode() and is read as the role it implements.
        alias = {}
        for h_, b_ in helpers.items():
            if h_ not in roles_:
                continue
            inner = [(i_, t_) for i_, t_ in b_.calls() if strip_generics(callee_resolved(t_) or "") in inherent and inherent[strip_generics(callee_resolved(t_) or "")] not in roles_]
            if len(inner) != 1:
                continue
            i_, t_ = inner[0]
            if not any(d_[0] == "call" and d_[1] == i_ for d_ in b_.whole_defs(0)) and not (b_.origin({"l": 0, "p": []}, through_calls=False)[:2] == ("call", i_)):
                continue
            args_ok = True
            for o_ in t_["ops"][1:]:
                oo = b_.origin(o_, through_calls=False)
                if not (oo[0] == "call" and strip_generics(callee_resolved(oo[2]) or "") in inherent and inherent[strip_generics(callee_resolved(oo[2]) or "")] in roles_):
                    args_ok = False
            if args_ok and len(t_["ops"]) >= 2:
                alias[inherent[strip_generics(callee_resolved(t_) or "")]] = h_

        def kept_enc(p_, kept=kept, alias=alias, inherent=inherent):
            sp = strip_generics(p_.replace("::{closure#0}", ""))
            if sp in inherent and inherent[sp] in alias:
                return True
            return kept(p_)
        fenc = ctx.flat_with(ctx.world.body(enc[0]["def"]), kept_enc, "tx:" + adt)
        fhelpers = {}
        for h_, b_ in helpers.items():
            if h_ in roles_ or (b_.fn.get("sig_out") in ("bool", "u8") and len(b_.fn.get("sig_in") or []) == 1):
                fhelpers[h_] = ctx.flat_with(b_, kept, "tx:" + adt)
        out[name] = {"adt": adt, "encode": fenc, "helpers": fhelpers, "all_methods": helpers, "alias": alias}
    return out


ROLE_HELPERS = ("remaining_len", "property_len", "will_property_len", "payload_len", "packet_len", "payload_flags", "fixed_hdr")


def self_fields(body, atoms, adt):
    return {a[2] for a in atoms if a[0] == "field" and a[1] == adt and isinstance(a[2], str)}


_ALIAS = {}


def helper_calls(atoms, adt):
    out = set()
    for a in atoms:
        if a[0] == "call" and (a[1].startswith(adt + "::") or _trait_method_of(a[1], adt)):
            nm = a[1].split("::")[-1]
            out.add(_ALIAS.get(adt, {}).get(nm, nm))
    return out


def _trait_method_of(path, adt):
    """`<X<'a> as codec::SomeTrait>::m`: a method X implements for a private trait of the codec."""
    m = re.match(r"<([\w:]+)(<[^>]*>)? as (codec::[\w:]+)>::\w+$", path or "")
    return bool(m) and m.group(1) == adt


def emissions(ctx, info):
    """Ordered emission sites of X::encode: dicts(bb, ty, item, fields, helpers, const, line, operand)."""
    body = info["encode"]
    adt = info["adt"]
    _ALIAS[adt] = info.get("alias") or {}
    out = []
    for i in sorted(body.reach):
        t = body.term(i)
        if t["k"] != "call":
            continue
        nm = callee_name(t) or ""
        if not EMIT_CALLS.search(nm):
            continue
        c = t["callee"]
        val = t["ops"][1] if len(t["ops"]) > 1 else t["ops"][0]
        if nm.endswith("Encode::encode") and not nm.endswith("Encoder::encode"):
            val = t["ops"][0]
            ty = c.get("self_ty") or "?"
        elif nm.endswith("Encoder::encode"):
            ty = (c.get("args") or ["?"])[-1]
        else:
            ty = (c.get("args") or ["?"])[-1] if c.get("args") else nm.split("::")[-1]
        at = body.atoms(val)
        fields = self_fields(body, at, adt)
        helpers = helper_calls(at, adt)
        const = None
        if val.get("k") == "const" and val.get("uneval"):
            const = val["uneval"]["name"]
        else:
            for a in at:
                if a[0] == "uneval" and not fields and not helpers:
                    const = a[1].split("::")[-1]
        # direct helper: the operand *is* the helper's result
        o = body.origin(val, through_calls=False)
        direct_helper = None
        if o[0] == "call":
            rn = callee_resolved(o[2]) or ""
            if rn.startswith(adt + "::") or _trait_method_of(rn, adt):
                direct_helper = rn.split("::")[-1]
                direct_helper = (info.get("alias") or {}).get(direct_helper, direct_helper)
        item = ("const", const) if const else ("helper", direct_helper) if direct_helper else ("field", tuple(sorted(fields))) if fields else ("helperexpr", tuple(sorted(helpers))) if helpers else ("?", None)
        out.append({"bb": i, "ty": ty, "item": item, "fields": fields, "helpers": helpers, "const": const, "line": body.line_of(i), "op": val, "via": nm.split("::")[-1]})
    return out


def len_fields(ctx, info, helper, _seen=None):
    """Fields of X that reach the return value of a length helper, transitively through helper calls on self.
    Returns (fields, called_helpers)"""
    _seen = _seen or set()
    b = info["helpers"].get(helper)
    if b is None or helper in _seen:
        return set(), set()
    _seen.add(helper)
    at = b.atoms({"l": 0, "p": []})
    fields = self_fields(b, at, info["adt"])
    called = helper_calls(at, info["adt"])
    allc = set(called)
    for h in called:
        f2, c2 = len_fields(ctx, info, h, _seen)
        fields |= f2
        allc |= c2
    return fields, allc


def own_len_fields(ctx, info, helper):
    b = info["helpers"].get(helper)
    if b is None:
        return set(), set()
    at = b.atoms({"l": 0, "p": []})
    return self_fields(b, at, info["adt"]), helper_calls(at, info["adt"])


def field_types(ctx, adt):
    a = ctx.facts.adt(adt)
    return {f["name"]: f["ty"] for f in a["variants"][0]["fields"]} if a else {}


def property_newtypes(ctx):
    """{type path (no generics): PROPERTY_ID} from the evaluated associated constants."""
    out = {}
    for c in ctx.facts.consts:
        if c["name"] == "PROPERTY_ID" and c["self_ty"]:
            out[re.sub(r"<.*>", "", c["self_ty"])] = c["val"]
    return out


def inner_type(ty):
    """Option<T> / Vec<T> -> T (without generics)."""
    m = re.match(r"(?:std::option::Option|std::vec::Vec|core::collections::UserProperties)<(.*)>$", ty)
    t = m.group(1) if m else ty
    return re.sub(r"<.*>", "", t)
