"""Analysis primitives over one MIR body of the fact base (DESIGN §1.3).

P-CFG   normalised CFG, dominators, post-dominators, control dependence, await recognition
P-PROV  flow-insensitive provenance ("derives from") of places / operands
P-CONST folding of integer expressions
P-PATHS bounded enumeration of acyclic paths (await loops collapsed)
"""
import re
from functools import lru_cache

GEN = re.compile(r"::<(?!impl )[^<>]*(?:<[^<>]*(?:<[^<>]*(?:<[^<>]*>[^<>]*)*>[^<>]*)*>[^<>]*)*>")


def strip_generics(path):
    """`a::B::<T, U>::c` -> `a::B::c` (turbofish groups only; `<impl X for Y>` segments are kept)."""
    if path is None:
        return None
    prev = None
    while prev != path:
        prev = path
        path = GEN.sub("", path)
    return path


def callee_name(term):
    c = term.get("callee")
    if not c:
        return None
    return strip_generics(c["def"])


def callee_resolved(term):
    c = term.get("callee")
    if not c:
        return None
    return strip_generics(c["resolved"]) if c.get("resolved") else strip_generics(c["def"])


def place_fields(pl):
    """List of (adt, field_name) along the projection, outermost last."""
    out = []
    for p in pl["p"]:
        if isinstance(p, dict) and "f" in p:
            out.append((p.get("adt"), p.get("n") if p.get("n") is not None else p["f"]))
    return out


def place_has_field(pl, adt_suffix, name):
    for a, n in place_fields(pl):
        if n == name and a and a.endswith(adt_suffix):
            return True
    return False


class Body:
    def __init__(self, fn, facts=None):
        self.fn = fn
        self.facts = facts
        self.path = fn["path"]
        self.blocks = fn["blocks"]
        self.n = len(self.blocks)
        self.locals = fn["locals"]
        # `unreachable` terminators (the impossible third arm of a two-variant switch, ...) are not exits
        self._dead = {i for i, b in enumerate(self.blocks) if b["term"]["k"] == "unreachable" and not b["stmts"]}
        self._succ = [[x for x in self._succ_of(i) if x not in self._dead] for i in range(self.n)]
        self._pred = [[] for _ in range(self.n)]
        for i, ss in enumerate(self._succ):
            for s_ in ss:
                self._pred[s_].append(i)
        self.reach = self._reach(0)
        self._dom = None
        self._pdom = None
        self._cd = None
        self._defs = None
        self.names = {}
        for d in fn["debug"]:
            if not d["pl"]["p"]:
                self.names.setdefault(d["pl"]["l"], d["name"])
        self.upvar_names = {}
        for d in fn["debug"]:
            if d["pl"]["p"]:
                self.upvar_names[_place_key(d["pl"])] = d["name"]

    # ------------------------------------------------------------------ CFG
    def _succ_of(self, i):
        b = self.blocks[i]
        if b["cleanup"]:
            return []
        t = b["term"]
        k = t["k"]
        if k in ("goto", "drop", "falseedge", "falseunwind", "yield", "assert"):
            return [t["t"]]
        if k == "switch":
            out = []
            for _, bb in t["targets"]:
                if bb not in out:
                    out.append(bb)
            if t["otherwise"] is not None and t["otherwise"] not in out:
                out.append(t["otherwise"])
            return out
        if k == "call":
            return [t["t"]] if t["t"] is not None else []
        return []

    def succ(self, i):
        return self._succ[i]

    def pred(self, i):
        return self._pred[i]

    def _reach(self, start, avoid=()):
        seen = set()
        st = [start]
        while st:
            x = st.pop()
            if x in seen or x in avoid:
                continue
            seen.add(x)
            st.extend(self._succ[x])
        return seen

    def reachable_from(self, start, avoid=()):
        return self._reach(start, set(avoid))

    def term(self, i):
        return self.blocks[i]["term"]

    def is_exit(self, i):
        return self.term(i)["k"] == "return"

    def is_panic_block(self, i):
        """Block ends in a diverging call (panic) or `unreachable` terminator reached by real code."""
        t = self.term(i)
        return t["k"] == "call" and t["t"] is None

    # ------------------------------------------------------------------ dominators
    def _compute_dom(self, succ, pred, root, nodes):
        order = []
        seen = set()

        def dfs(r):
            st = [(r, iter(succ(r)))]
            seen.add(r)
            while st:
                x, it = st[-1]
                adv = False
                for y in it:
                    if y not in seen and y in nodes:
                        seen.add(y)
                        st.append((y, iter(succ(y))))
                        adv = True
                        break
                if not adv:
                    order.append(x)
                    st.pop()
        dfs(root)
        rpo = list(reversed(order))
        idx = {b: i for i, b in enumerate(rpo)}
        idom = {root: root}
        changed = True
        while changed:
            changed = False
            for b in rpo[1:]:
                ps = [p for p in pred(b) if p in idom]
                if not ps:
                    continue
                new = ps[0]
                for p in ps[1:]:
                    a, c = p, new
                    while a != c:
                        while idx[a] > idx[c]:
                            a = idom[a]
                        while idx[c] > idx[a]:
                            c = idom[c]
                    new = a
                if idom.get(b) != new:
                    idom[b] = new
                    changed = True
        return idom

    @property
    def idom(self):
        if self._dom is None:
            self._dom = self._compute_dom(self.succ, self.pred, 0, self.reach)
        return self._dom

    def dominates(self, a, b):
        """a dominates b (reflexive)."""
        idom = self.idom
        if b not in idom or a not in idom:
            return False
        x = b
        while True:
            if x == a:
                return True
            nx = idom[x]
            if nx == x:
                return False
            x = nx

    def dominators(self, b):
        out = []
        idom = self.idom
        if b not in idom:
            return out
        x = b
        while True:
            out.append(x)
            nx = idom[x]
            if nx == x:
                break
            x = nx
        return out

    EXIT = -1

    @property
    def ipdom(self):
        if self._pdom is None:
            # virtual exit: all blocks with no successors among reachable
            exits = [b for b in self.reach if not self._succ[b]]

            def succ(x):
                if x == self.EXIT:
                    return exits
                return self._pred[x]

            def pred(x):
                if x in exits_set:
                    return list(self._succ[x]) + [self.EXIT]
                return self._succ[x]
            exits_set = set(exits)
            nodes = set(self.reach) | {self.EXIT}
            self._pdom = self._compute_dom(succ, pred, self.EXIT, nodes)
        return self._pdom

    def postdominates(self, a, b):
        ip = self.ipdom
        if b not in ip:
            return False
        x = b
        while True:
            if x == a:
                return True
            nx = ip[x]
            if nx == x:
                return False
            x = nx

    @property
    def control_deps(self):
        """cd[b] = set of (branch_block, successor_taken) b is directly control dependent on."""
        if self._cd is None:
            cd = {b: set() for b in self.reach}
            ip = self.ipdom
            for a in self.reach:
                ss = self._succ[a]
                if len(ss) < 2:
                    continue
                for s_ in ss:
                    # walk from s_ up the post-dominator tree until ipdom(a)
                    stop = ip.get(a)
                    x = s_
                    guard = 0
                    while x is not None and x != stop and x != self.EXIT and guard < 10000:
                        cd[x].add((a, s_))
                        nx = ip.get(x)
                        if nx == x:
                            break
                        x = nx
                        guard += 1
            self._cd = cd
        return self._cd

    def control_dep_closure(self, b):
        """All (branch_block, successor) pairs b is transitively control dependent on."""
        out = set()
        work = [b]
        seen = set()
        while work:
            x = work.pop()
            if x in seen:
                continue
            seen.add(x)
            for (a, s_) in self.control_deps.get(x, ()):
                if (a, s_) not in out:
                    out.add((a, s_))
                    work.append(a)
        return out

    # ------------------------------------------------------------------ definitions
    @property
    def defs(self):
        """local -> list of ('stmt', bb, idx, stmt) | ('call', bb, term) | ('yield', bb, term)"""
        if self._defs is None:
            d = {}
            for i, b in enumerate(self.blocks):
                if b["cleanup"] or i not in self.reach:
                    continue            # (flattening leaves the replaced call chains behind as dead blocks)
                for j, st in enumerate(b["stmts"]):
                    if st["k"] == "assign":
                        d.setdefault(st["lhs"]["l"], []).append(("stmt", i, j, st))
                t = b["term"]
                if t["k"] == "call":
                    d.setdefault(t["dest"]["l"], []).append(("call", i, t))
                elif t["k"] == "yield":
                    d.setdefault(t["resume_arg"]["l"], []).append(("yield", i, t))
            self._defs = d
        return self._defs

    def whole_defs(self, local, dedupe=True):
        """Definitions that assign the whole local (no projection on the lhs). Jump threading (flat.py) duplicates
        blocks: textually identical assignments of the same rvalue count once."""
        pin = self.__dict__.get("_pin")
        if pin and local in pin:
            return pin[local]           # one definition singled out (an analysis looks at the paths through it only)
        key = (local, dedupe)
        cache = self.__dict__.setdefault("_wd_cache", {})
        if key in cache:
            return cache[key]
        out = self._whole_defs_raw(local)
        if dedupe and len(out) > 1 and self.fn.get("flat"):
            uniq, sigs = [], set()
            for d in out:
                if d[0] == "stmt":
                    rv = d[3]["rv"]
                    sig = ("stmt", _rv_sig(rv))
                    if rv["k"] in ("use", "ref", "cast", "discr") and sig in sigs:
                        continue
                    sigs.add(sig)
                uniq.append(d)
            out = uniq
        cache[key] = out
        return out

    def _whole_defs_raw(self, local):
        out = []
        for d in self.defs.get(local, []):
            if d[0] == "stmt":
                if not d[3]["lhs"]["p"]:
                    out.append(d)
            elif d[0] == "call":
                if not d[2]["dest"]["p"]:
                    out.append(d)
            else:
                out.append(d)
        return out

    PASS_THROUGH = (
        "std::future::IntoFuture::into_future", "std::pin::Pin::new_unchecked", "std::pin::Pin::new",
        "std::convert::AsRef::as_ref", "std::convert::AsMut::as_mut", "std::ops::Deref::deref",
        "std::ops::DerefMut::deref_mut", "std::borrow::Borrow::borrow", "std::convert::Into::into",
        "std::convert::From::from", "std::option::Option::as_ref", "std::option::Option::as_mut",
        "std::pin::Pin::as_mut", "std::pin::Pin::get_mut", "std::clone::Clone::clone",
        "futures::FutureExt::fuse", "futures::StreamExt::next", "std::option::Option::take",
        "futures::StreamExt::poll_next_unpin", "std::ops::Try::branch",
        "bytes::BytesMut::freeze", "std::option::Option::copied", "std::option::Option::cloned",
    )

    def origin(self, op_or_place, through_calls=True, _depth=0):
        """Follow single whole-assignments backwards: returns ('place', place) | ('const', op) |
        ('call', bb, term) | ('agg', bb, stmt) | ('rv', bb, stmt) | ('multi', local)."""
        if "k" in op_or_place and op_or_place["k"] == "const":
            return ("const", op_or_place)
        pl = op_or_place["pl"] if "pl" in op_or_place else op_or_place
        if _depth > 40:
            return ("place", pl)
        # strip trailing derefs for the purpose of following
        proj = list(pl["p"])
        base = pl["l"]
        np_ = [p for p in proj if p != "deref"]
        if np_ and isinstance(np_[0], dict) and "f" in np_[0]:
            # a component of a tuple literal (or of a struct literal that merely bundles values): `(a, b).1` is b
            ds0 = self.whole_defs(base)
            if len(ds0) == 1 and ds0[0][0] == "stmt" and _bundle_literal(self, ds0[0][3]["rv"], np_[0]) \
                    and self._only_whole_defs(base) and np_[0]["f"] < len(ds0[0][3]["rv"]["ops"]):
                o = ds0[0][3]["rv"]["ops"][np_[0]["f"]]
                if o.get("k") == "const":
                    return ("const", o) if len(np_) == 1 else ("place", pl)
                return self.origin({"l": o["pl"]["l"], "p": list(o["pl"]["p"]) + np_[1:]}, through_calls, _depth + 1)
        lit = self._variant_literal_ops(base, [p for p in proj if p != "deref"])
        if lit is not None and len(lit[0]) == 1:
            o = lit[0][0]
            if o.get("k") == "const":
                return ("const", o) if not lit[1] else ("place", pl)
            return self.origin({"l": o["pl"]["l"], "p": list(o["pl"]["p"]) + lit[1]}, through_calls, _depth + 1)
        ds = self.whole_defs(base)
        if len(ds) != 1:
            if not ds:
                return ("place", pl)
            return ("multi", base) if not [p for p in proj if p != "deref"] else ("place", pl)
        d = ds[0]
        rest = [p for p in proj if p != "deref"]
        if d[0] == "stmt":
            rv = d[3]["rv"]
            if rv["k"] == "use":
                op = rv["op"]
                if op["k"] == "const":
                    return ("const", op) if not rest else ("place", pl)
                np = {"l": op["pl"]["l"], "p": list(op["pl"]["p"]) + rest}
                return self.origin(np, through_calls, _depth + 1)
            if rv["k"] in ("ref", "rawptr"):
                np = {"l": rv["pl"]["l"], "p": list(rv["pl"]["p"]) + rest}
                return self.origin(np, through_calls, _depth + 1)
            if rv["k"] == "cast" and not rest:
                o = rv["op"]
                if o["k"] == "const":
                    return ("const", o)
                return self.origin(o, through_calls, _depth + 1)
            if rv["k"] == "agg" and not rest:
                return ("agg", d[1], d[3])
            if not rest:
                return ("rv", d[1], d[3])
            return ("place", pl)
        if d[0] == "call":
            t = d[2]
            nm = callee_name(t)
            if through_calls and nm in self.PASS_THROUGH and t["ops"] and not rest:
                o = t["ops"][0]
                if o["k"] != "const":
                    return self.origin(o, through_calls, _depth + 1)
            if not rest:
                return ("call", d[1], t)
            return ("place", pl)
        return ("place", pl)

    def origin_at(self, op, bb, through_calls=True):
        """origin() of an operand as used in block bb: where a local has several definitions of which exactly one can
        reach bb (the others lie on paths that jump threading led elsewhere), that definition is the one followed."""
        pins = {}
        cur, cur_bb = op, bb
        for _ in range(12):
            if cur.get("k") not in ("move", "copy") or [p for p in cur["pl"]["p"] if p != "deref"]:
                break
            l = cur["pl"]["l"]
            ds = self.whole_defs(l)
            if len(ds) > 1:
                def reaches(d, cur_bb=cur_bb):
                    if d[1] == cur_bb:
                        return d[0] == "stmt" or self._in_cycle(cur_bb)
                    return cur_bb in self.reachable_from(d[1])
                r = [d for d in ds if d[0] in ("stmt", "call") and reaches(d)]
                if len(r) != 1:
                    break
                if any(d[0] not in ("stmt", "call") for d in ds):
                    break
                pins[l] = r
                d = r[0]
            elif len(ds) == 1:
                d = ds[0]
            else:
                break
            if d[0] == "stmt" and d[3]["rv"]["k"] == "use" and d[3]["rv"]["op"].get("k") in ("move", "copy"):
                cur, cur_bb = d[3]["rv"]["op"], d[1]
                continue
            break
        if not pins:
            return self.origin(op, through_calls)
        old = self.__dict__.get("_pin")
        self._pin = dict(old or {})
        self._pin.update(pins)
        try:
            return self.origin(op, through_calls)
        finally:
            self._pin = old

    def _defs_of(self, l):
        """All definitions of a local; when an analysis has singled out some of its whole definitions (`_pin`: the ones that
        matter for the kind of packet / the path looked at), those in place of all whole definitions."""
        ds = self.defs.get(l, [])
        pin = self.__dict__.get("_pin")
        if pin and l in pin:
            whole = {id(d) for d in self._whole_defs_raw(l)}
            ds = [d for d in ds if id(d) not in whole] + list(pin[l])
        return ds

    def _only_whole_defs(self, l):
        """The local is defined once, as a whole (or, when an analysis has singled out one of its definitions, is only
        ever defined as a whole): no field of it is written separately."""
        n = len(self.defs.get(l, []))
        return n == 1 or (l in (self.__dict__.get("_pin") or {}) and n == len(self._whole_defs_raw(l)))

    def _in_cycle(self, bb):
        return any(bb in self.reachable_from(s) for s in self.succ(bb))

    # ------------------------------------------------------------------ awaits
    def awaits(self):
        """List of dicts: {poll_bb, ready_bb, pending_bb, origin: origin() of the polled future}."""
        out = []
        for i in self.reach:
            t = self.term(i)
            if t["k"] != "call":
                continue
            c = t.get("callee")
            if not c or c["name"] != "poll" or not (c.get("trait") or "").endswith("Future"):
                continue
            # The switch on the Poll discriminant follows
            nb = t["t"]
            if nb is None:
                continue
            sw = self.term(nb)
            if sw["k"] != "switch":
                continue
            ready = pending = None
            for v, bb in sw["targets"]:
                if v == 0:
                    ready = self._skip_false(bb)
                elif v == 1:
                    pending = self._skip_false(bb)
            org = self.origin(t["ops"][0])
            out.append({"poll_bb": i, "switch_bb": nb, "ready_bb": ready, "pending_bb": pending,
                        "origin": org})
        return out

    def _skip_false(self, bb):
        g = 0
        while self.term(bb)["k"] in ("falseedge",) and not self.blocks[bb]["stmts"] and g < 10:
            bb = self.term(bb)["t"]
            g += 1
        return bb

    def completion_of(self, call_bb):
        """ready_bb of the await whose future was produced by the call terminating call_bb."""
        for a in self.awaits():
            o = a["origin"]
            if o[0] == "call" and o[1] == call_bb:
                return a
        return None

    def pending_edges(self):
        """Set of (switch_bb, pending_target) edges to cut when collapsing await loops."""
        out = set()
        for a in self.awaits():
            sw = self.term(a["switch_bb"])
            for v, bb in sw["targets"]:
                if v == 1:
                    out.add((a["switch_bb"], bb))
        return out

    def base_local(self, op):
        """Local at the root of the place an operand refers to, following refs / moves / pass-through calls."""
        o = self.origin(op)
        if o[0] == "place":
            return o[1]["l"]
        if o[0] == "multi":
            return o[1]
        if o[0] in ("agg", "rv"):
            return o[2]["lhs"]["l"]
        if o[0] == "call":
            return o[2]["dest"]["l"]
        return None

    def calls_with_mut_ref_to(self, local):
        """Call sites that receive `&mut local` (or a reborrow of it): [(bb, term, operand index)]"""
        out = []
        for i in sorted(self.reach):
            t = self.term(i)
            if t["k"] != "call":
                continue
            for k, o in enumerate(t["ops"]):
                if o["k"] == "const":
                    continue
                ty = self.locals[o["pl"]["l"]]["ty"] if not o["pl"]["p"] else ""
                if not ty.startswith("&mut"):
                    continue
                if self.base_local(o) == local:
                    out.append((i, t, k))
        return out

    # ------------------------------------------------------------------ calls
    def calls(self, name_regex=None):
        r = re.compile(name_regex) if name_regex else None
        for i in sorted(self.reach):
            t = self.term(i)
            if t["k"] != "call":
                continue
            nm = callee_name(t)
            if r is None or (nm and r.search(nm)) or (r and callee_resolved(t) and r.search(callee_resolved(t))):
                yield i, t

    # ------------------------------------------------------------------ provenance
    def atoms(self, x, depth=0, _seen=None, interproc=None):
        """Set of provenance atoms an operand/place may derive from.
        Atoms: ('field', adt, name) ('const', value) ('uneval', def, eval) ('call', callee)
               ('local', n) (parameter / unresolved) ('closure', def) ('variant', adt, variant)"""
        if _seen is None:
            _seen = set()
        out = set()
        if x is None:
            return out
        if x.get("k") == "const":
            if x.get("uneval"):
                out.add(("uneval", x["uneval"]["def"], x["uneval"]["eval"]))
            elif x.get("fn"):
                out.add(("fnitem", strip_generics(x["fn"]["def"])))
            else:
                out.add(("const", x["val"] if not isinstance(x["val"], list) else tuple(x["val"])))
            return out
        pl = x["pl"] if "pl" in x else x
        # field-sensitive step through tuple aggregates: `(a, b).1` derives from b only
        projs = [p for p in pl["p"] if p != "deref"]
        if projs and isinstance(projs[0], dict) and "f" in projs[0]:
            base_l = pl["l"]
            for _ in range(6):
                # `let limits = BrokerLimits::from(..)` inlined: the literal sits behind whole moves
                dsm = self.whole_defs(base_l)
                if len(dsm) == 1 and dsm[0][0] == "stmt" and dsm[0][3]["rv"]["k"] == "use" and dsm[0][3]["rv"]["op"].get("k") in ("move", "copy") \
                        and not dsm[0][3]["rv"]["op"]["pl"]["p"] and self._only_whole_defs(base_l):
                    base_l = dsm[0][3]["rv"]["op"]["pl"]["l"]
                    continue
                break
            ds0 = self.whole_defs(base_l)
            if len(ds0) == 1 and ds0[0][0] == "stmt" and _bundle_literal(self, ds0[0][3]["rv"], projs[0]) \
                    and self._only_whole_defs(base_l):
                k = projs[0]["f"]
                ops = ds0[0][3]["rv"]["ops"]
                if k < len(ops):
                    o = ops[k]
                    if o.get("k") == "const":
                        return self.atoms(o, depth, _seen, interproc)
                    rest = projs[1:]
                    for p in rest:
                        if isinstance(p, dict) and "dc" in p:
                            out.add(("downcast", p["dc"]))
                    for (adt, nm) in place_fields({"l": 0, "p": rest}):
                        if adt:
                            out.add(("field", adt, nm))
                    return out | self.atoms({"l": o["pl"]["l"], "p": list(o["pl"]["p"])}, depth, _seen, interproc)
        # variant-sensitive step through enum literals: `(x as Some).0` where every definition of x is a literal
        # `Some(v)` / `None` derives from the v of the matching literals only (the shape left by flat.py's expansion of
        # map / ok_or / `?`, and by hand-written matches that build a Result or Option on each branch)
        lit = self._variant_literal_ops(pl["l"], projs)
        if lit is not None:
            ops_, rest = lit
            out.add(("downcast", projs[0]["dc"]))
            for (adt, nm) in place_fields({"l": 0, "p": rest}):
                if adt:
                    out.add(("field", adt, nm))
            for p in rest:
                if isinstance(p, dict) and "dc" in p:
                    out.add(("downcast", p["dc"]))
            if pl["l"] in _seen:
                return out
            for o in ops_:
                if o.get("k") == "const":
                    out |= self.atoms(o, depth, _seen, interproc)
                else:
                    out |= self.atoms({"l": o["pl"]["l"], "p": list(o["pl"]["p"]) + rest}, depth, _seen, interproc)
            return out
        for (adt, nm) in place_fields(pl):
            if adt:
                out.add(("field", adt, nm))
        for p in pl["p"]:
            if isinstance(p, dict) and "dc" in p:
                out.add(("downcast", p["dc"]))
            if isinstance(p, dict) and "idx" in p:
                out |= self.atoms({"l": p["idx"], "p": []}, depth, _seen, interproc)
        key = _place_key(pl)
        if key in self.upvar_names:
            out.add(("upvar", self.upvar_names[key]))
        l = pl["l"]
        if l in _seen:
            return out
        _seen.add(l)
        ds = self._defs_of(l)
        if not ds:
            out.add(("local", l, self.names.get(l)))
        if l <= self.fn["arg_count"] and l >= 1:
            out.add(("param", l, self.names.get(l)))
        for d in ds:
            if d[0] == "stmt":
                out |= self.rv_atoms(d[3]["rv"], depth, _seen, interproc)
            elif d[0] == "call":
                t = d[2]
                nm = callee_resolved(t) or "?"
                out.add(("call", nm))
                c = t.get("callee")
                if c:
                    for a in c.get("args") or []:
                        out.add(("targ", a))
                for o in t["ops"]:
                    out |= self.atoms(o, depth, _seen, interproc)
                fo = t.get("fn_op")
                if fo and fo.get("k") != "const":
                    out |= self.atoms(fo, depth, _seen, interproc)
                if interproc:
                    out |= interproc(t, depth)
        return out

    def reaching_literals(self, local, bb, path=(), upto=None, within=None):
        """Like reaching_variants, but returns the reaching enum-literal rvalues themselves [(block, rvalue)], or None.
        within: only definitions on paths that stay inside this set of blocks are followed (e.g. everything reachable
        from one edge of a test)."""
        acc = []
        r = self.reaching_variants(local, bb, path, upto=upto, collect=acc, within=within)
        return None if r is None else acc

    def reaching_variants(self, local, bb, path=(), depth=0, budget=None, upto=None, collect=None, within=None):
        """Variant names of the enum literals that can be the value of `local` (projected through `path` =
        ((variant, field), ...)) when control reaches block bb: the definitions that actually reach bb are followed
        backwards (through whole moves and payload projections of literals). None if some reaching definition is not a
        literal. Precise on flattened bodies, where every path has been given its own copy of the merge blocks."""
        budget = budget if budget is not None else [400]
        out = set()
        seen = set()
        work = [(bb, True)]
        while work:
            x, start = work.pop()
            if (x, start) in seen:
                continue
            seen.add((x, start))
            budget[0] -= 1
            if budget[0] < 0 or depth > 12:
                return None
            found = None
            if not start or True:
                blk = self.blocks[x]
                t = blk["term"]
                stmts = blk["stmts"]
                if not start and t["k"] == "call" and t["dest"]["l"] == local and not t["dest"]["p"]:
                    return None
                if start and upto is not None:
                    stmts = stmts[:upto]        # only what precedes the use inside the start block
                for st in reversed(stmts):      # (otherwise the use is the terminator of the start block, or lies later)
                    if st["lhs"]["l"] == local:
                        found = st
                        break
            if found is None:
                ps = [p for p in self.pred(x) if p in self.reach and (within is None or p in within)]
                if not ps:
                    return None
                for p in ps:
                    work.append((p, False))
                continue
            if found["k"] != "assign" or found["lhs"]["p"]:
                return None
            rv = found["rv"]
            if rv["k"] == "agg" and rv.get("what") == "adt" and "variant" in rv:
                if not path:
                    out.add(rv["variant"])
                    if collect is not None:
                        collect.append((x, rv))
                    continue
                (v, f), rest = path[0], path[1:]
                if rv["variant"] != v or f >= len(rv["ops"]):
                    continue            # this literal has no such payload: the projection is not reached with it
                o = rv["ops"][f]
                if o.get("k") in ("move", "copy") and not [p for p in o["pl"]["p"] if p != "deref"]:
                    sub = self.reaching_variants(o["pl"]["l"], x, rest, depth + 1, budget, upto=self.blocks[x]["stmts"].index(found), collect=collect, within=within)
                    if sub is None:
                        return None
                    out |= sub
                    continue
                return None
            if rv["k"] == "use" and rv["op"].get("k") in ("move", "copy"):
                pr = [p for p in rv["op"]["pl"]["p"] if p != "deref"]
                npath = path
                if pr:
                    if len(pr) == 2 and isinstance(pr[0], dict) and "dc" in pr[0] and isinstance(pr[1], dict) and "f" in pr[1]:
                        npath = ((pr[0]["dc"], pr[1]["f"]),) + path
                    else:
                        return None
                sub = self.reaching_variants(rv["op"]["pl"]["l"], x, npath, depth + 1, budget, upto=self.blocks[x]["stmts"].index(found), collect=collect, within=within)
                if sub is None:
                    return None
                out |= sub
                continue
            return None
        return out

    def _literal_defs(self, local, depth=0, seen=None):
        """What the local may hold, following whole moves (`x = move y`): list of enum-literal aggregate rvalues and of
        ('opaque', local) entries for values that are not literals (a call result, a parameter, a projection);
        None when nothing is known."""
        seen = seen if seen is not None else set()
        if local in seen:
            return []           # already counted (jump threading duplicates `x = move y`)
        if depth > 8:
            return None
        seen.add(local)
        ds = self._defs_of(local) if local > self.fn["arg_count"] else []
        if not ds:
            return [("opaque", local)]
        out = []
        for d in ds:
            if d[0] == "call" and not d[2]["dest"]["p"] and (callee_name(d[2]) or "").endswith("FromResidual::from_residual"):
                out.append(("residual", local))     # the error arm of a `?`: an Err / None, never the success variant
                continue
            if d[0] != "stmt" or d[3]["lhs"]["p"]:
                return [("opaque", local)]
            rv = d[3]["rv"]
            if rv["k"] == "agg" and rv.get("what") == "adt" and "variant" in rv:
                out.append(rv)
            elif rv["k"] == "use" and rv["op"].get("k") in ("move", "copy") and not [p for p in rv["op"]["pl"]["p"] if p != "deref"]:
                sub = self._literal_defs(rv["op"]["pl"]["l"], depth + 1, seen)
                if sub is None:
                    return None
                out += sub
            else:
                return [("opaque", local)]
        return out

    def _variant_literal_ops(self, local, projs):
        """projs = [downcast V, field i, rest...]: if at least one definition of `local` (followed through whole moves)
        is an enum literal, the operands the projection can denote: operand i of every literal of variant V, and the
        projection itself applied to every non-literal value that flows in. Returns (operands, rest) or None."""
        if len(projs) < 2 or not (isinstance(projs[0], dict) and "dc" in projs[0] and isinstance(projs[1], dict) and "f" in projs[1]):
            return None
        lits = self._literal_defs(local)
        if not lits or not any(isinstance(x, dict) for x in lits):
            return None
        ops_ = []
        for rv in lits:
            if isinstance(rv, tuple) and rv[0] == "residual":
                if projs[0]["dc"] in ("Ok", "Some", "Continue"):
                    continue
                return None
            if isinstance(rv, tuple):
                if rv[1] == local:
                    return None
                o = {"k": "copy", "pl": {"l": rv[1], "p": [projs[0], projs[1]]}}
            elif rv["variant"] == projs[0]["dc"] and projs[1]["f"] < len(rv["ops"]):
                o = rv["ops"][projs[1]["f"]]
            else:
                continue
            # jump threading duplicates blocks: the same literal operand counted once
            if not any(_same_operand(o, x) for x in ops_):
                ops_.append(o)
        return ops_, projs[2:]

    def rv_atoms(self, rv, depth=0, _seen=None, interproc=None):
        out = set()
        k = rv["k"]
        if k in ("use", "cast", "repeat"):
            out |= self.atoms(rv["op"], depth, _seen, interproc)
        elif k in ("ref", "rawptr", "discr"):
            out |= self.atoms(rv["pl"], depth, _seen, interproc)
            if k == "discr":
                out.add(("discr", rv.get("adt")))
        elif k == "bin":
            out |= self.atoms(rv["a"], depth, _seen, interproc)
            out |= self.atoms(rv["b"], depth, _seen, interproc)
            out.add(("op", rv["op"]))
        elif k == "un":
            out |= self.atoms(rv["a"], depth, _seen, interproc)
            out.add(("op", rv["op"]))
        elif k == "agg":
            if rv["what"] == "adt":
                out.add(("variant", rv["adt"], rv["variant"]))
            if rv["what"] in ("closure", "coroutine"):
                out.add(("closure", rv["def"]))
                if interproc:
                    out |= interproc({"closure": rv["def"]}, depth)
            for o in rv["ops"]:
                out |= self.atoms(o, depth, _seen, interproc)
        return out

    def atoms_deep(self, x, depth=2, _seen=None):
        """atoms(x) plus, for every local feeding x that is assigned on several branches (e.g. a flag set to
        true / false in different arms), the atoms of the decisions those assignments are control dependent on."""
        out = set(self.atoms(x))
        if depth <= 0 or x is None or x.get("k") == "const":
            return out
        _seen = _seen if _seen is not None else set()
        work = [x["pl"]["l"] if "pl" in x else x["l"]]
        visited = set()
        while work:
            l = work.pop()
            if l in visited:
                continue
            visited.add(l)
            ds = self._defs_of(l)
            blocks = {d[1] for d in ds}
            if len(ds) >= 2 and l not in _seen and l > self.fn["arg_count"]:
                _seen.add(l)
                for b in blocks:
                    for (cb, succ) in self.control_deps.get(b, ()):
                        t = self.term(cb)
                        if t["k"] != "switch":
                            continue
                        si = self.switch_info(cb)
                        src = {"pl": si["place"]} if si and si["kind"] == "discr" else t["op"]
                        if src.get("k") == "const":
                            continue
                        out |= self.atoms_deep(src if "pl" in src else {"pl": src}, depth - 1, _seen)
            for d in ds:
                if d[0] == "stmt":
                    rv = d[3]["rv"]
                    for key in ("op", "a", "b"):
                        o = rv.get(key)
                        if isinstance(o, dict) and o.get("k") in ("copy", "move"):
                            work.append(o["pl"]["l"])
                    if "pl" in rv:
                        work.append(rv["pl"]["l"])
                    for o in rv.get("ops", []):
                        if o.get("k") in ("copy", "move"):
                            work.append(o["pl"]["l"])
                elif d[0] == "call":
                    for o in d[2]["ops"]:
                        if o.get("k") in ("copy", "move"):
                            work.append(o["pl"]["l"])
        return out

    def fields_of(self, x, **kw):
        return {(a[1], a[2]) for a in self.atoms(x, **kw) if a[0] == "field"}

    # ------------------------------------------------------------------ constant folding
    def fold(self, x, depth=0):
        """Integer value of an operand if it folds to a constant, else None."""
        if depth > 30 or x is None:
            return None
        if x.get("k") == "const":
            if x.get("uneval"):
                return x["uneval"]["eval"] if isinstance(x["uneval"]["eval"], int) else None
            v = x["val"]
            if isinstance(v, bool):
                return int(v)
            if isinstance(v, int):
                return v
            if isinstance(v, str) and v.isdigit():
                return int(v)
            return None
        pl = x["pl"] if "pl" in x else x
        proj = [p for p in pl["p"] if p != "deref"]
        ds = self.whole_defs(pl["l"])
        if len(ds) == 1 and ds[0][0] == "call" and not proj:
            t = ds[0][2]
            nm = callee_name(t) or ""
            if re.search(r"mem::size_of$", nm):
                a = (t["callee"].get("args") or [None])[0]
                return SIZES.get(a)
            return None
        if len(ds) != 1 or ds[0][0] != "stmt":
            return None
        rv = ds[0][3]["rv"]
        if proj:
            # (_x.0) of a checked binop tuple
            if len(proj) == 1 and isinstance(proj[0], dict) and proj[0].get("f") == 0 and rv["k"] == "bin" and rv["checked"]:
                return self._fold_bin(rv, depth)
            return None
        if rv["k"] == "use":
            return self.fold(rv["op"], depth + 1)
        if rv["k"] == "ref" and not [p for p in rv["pl"]["p"] if p != "deref"]:
            return self.fold({"pl": rv["pl"]}, depth + 1)
        if rv["k"] == "cast":
            v = self.fold(rv["op"], depth + 1)
            if v is None:
                return None
            m = re.fullmatch(r"[ui](\d+|size)", rv["ty"])
            if m and rv["ty"][0] == "u":
                bits = 64 if m.group(1) == "size" else int(m.group(1))
                return v & ((1 << bits) - 1)
            return v
        if rv["k"] == "bin":
            return self._fold_bin(rv, depth)
        return None

    def _fold_bin(self, rv, depth):
        a = self.fold(rv["a"], depth + 1)
        b = self.fold(rv["b"], depth + 1)
        if a is None or b is None:
            return None
        op = rv["op"]
        try:
            return {"Add": a + b, "Sub": a - b, "Mul": a * b, "Shl": a << b, "Shr": a >> b,
                    "BitOr": a | b, "BitAnd": a & b, "BitXor": a ^ b,
                    "Div": a // b if b else None, "Rem": a % b if b else None,
                    "Lt": int(a < b), "Le": int(a <= b), "Gt": int(a > b), "Ge": int(a >= b), "Eq": int(a == b), "Ne": int(a != b)}.get(op)
        except Exception:
            return None

    # ------------------------------------------------------------------ switch helpers
    def switch_info(self, bb):
        """For a switch terminator: describe what is being tested.
        Returns dict(kind='discr', place, adt, variants{val:name}) | dict(kind='bool', cond=origin) | dict(kind='int')"""
        t = self.term(bb)
        if t["k"] != "switch":
            return None
        op = t["op"]
        info = {"bb": bb, "targets": t["targets"], "otherwise": t["otherwise"], "ty": t["ty"], "op": op}
        if op["k"] == "const":
            info["kind"] = "const"
            return info
        o = self.origin(op, through_calls=False)
        if o[0] == "rv" and o[2]["rv"]["k"] == "discr":
            rv = o[2]["rv"]
            info["kind"] = "discr"
            info["place"] = rv["pl"]
            info["adt"] = rv.get("adt")
            vmap = {}
            if self.facts and rv.get("adt") and self.facts.adt(rv["adt"]):
                for v in self.facts.adt(rv["adt"])["variants"]:
                    vmap[v["discr"]] = v["name"]
            elif rv.get("adt") in KNOWN_ENUMS:
                vmap = dict(KNOWN_ENUMS[rv["adt"]])
            info["variants"] = vmap
            return info
        if t["ty"] == "bool":
            info["kind"] = "bool"
            info["cond"] = o
            return info
        info["kind"] = "int"
        info["cond"] = o
        return info

    def edge_value(self, bb, succ):
        """Values of the switch at bb that lead to succ: list of ints, or 'otherwise'."""
        t = self.term(bb)
        if t["k"] != "switch":
            return None
        vals = [v for v, b in t["targets"] if b == succ]
        if t["otherwise"] == succ:
            vals.append("otherwise")
        return vals

    # ------------------------------------------------------------------ paths
    def paths(self, start, stop=None, cut_edges=None, cap=20000, max_len=4000):
        """Enumerate acyclic paths from block `start` until a block in `stop` (inclusive), a return,
        a diverging block or a dead end. Edges in cut_edges (pending edges of awaits by default) are
        not followed. Yields lists of block ids. Raises OverflowError beyond `cap` paths."""
        if cut_edges is None:
            cut_edges = self.pending_edges()
        stop = set(stop or ())
        count = 0
        stack = [(start, [start], {start})]
        while stack:
            b, path, seen = stack.pop()
            if b in stop and len(path) > 1 or (b in stop and b != start):
                count += 1
                if count > cap:
                    raise OverflowError("path cap exceeded")
                yield path
                continue
            ss = [s_ for s_ in self._succ[b] if (b, s_) not in cut_edges]
            ss = [s_ for s_ in ss if s_ not in seen]
            if not ss:
                count += 1
                if count > cap:
                    raise OverflowError("path cap exceeded")
                yield path
                continue
            for s_ in ss:
                stack.append((s_, path + [s_], seen | {s_}))

    def canon(self, pl, depth=0):
        """Canonical root of a place: follows whole copies / moves / refs and fields of tuple aggregates, so that
        `(qos, flag, id).2` and `id` are recognised as the same value. Returns a hashable key."""
        if depth > 12:
            return _place_key(pl)
        proj = [p for p in pl["p"] if p != "deref"]
        ds = self.whole_defs(pl["l"])
        if len(ds) == 1 and ds[0][0] == "stmt":
            rv = ds[0][3]["rv"]
            if rv["k"] in ("use", "ref") :
                src = rv["op"] if rv["k"] == "use" else {"pl": rv["pl"]}
                if src.get("k") != "const":
                    sp = src["pl"]
                    return self.canon({"l": sp["l"], "p": list(sp["p"]) + proj}, depth + 1)
            if proj and isinstance(proj[0], dict) and "f" in proj[0] and _bundle_literal(self, rv, proj[0]):
                k = proj[0]["f"]
                if k < len(rv["ops"]) and rv["ops"][k].get("k") != "const":
                    sp = rv["ops"][k]["pl"]
                    return self.canon({"l": sp["l"], "p": list(sp["p"]) + proj[1:]}, depth + 1)
        return _place_key({"l": pl["l"], "p": proj})

    def feasible(self, path):
        """Cheap infeasibility filter: a path may not take contradictory edges on two discriminant tests of the
        same (canonical, never reassigned) place."""
        if not self._feasible0(path):
            return False
        if self.fn.get("flat"):
            # values carried in nested literals (`Poll::Ready(ReadOutcome::Closed)` tested two matches later)
            import spec
            sp = self.__dict__.get("_pathspec")
            if sp is None:
                sp = self.__dict__["_pathspec"] = spec.Spec(self, run=False)
            try:
                return sp.path_feasible(path)
            except (KeyError, IndexError, TypeError):
                return True
        return True

    def _feasible0(self, path):
        known = {}
        flags = {}      # local -> constant it holds at this point of the path (`matches!(..)` leaves such a flag)
        lits = {}       # local -> discriminant value of the enum literal it was last given on this path
        for a, b in zip(path, path[1:]):
            for st in self.blocks[a]["stmts"]:
                if st["k"] == "assign" and not st["lhs"]["p"]:
                    rv0 = st["rv"]
                    if rv0["k"] == "agg" and rv0.get("what") == "adt" and isinstance(rv0.get("vi"), int) and not self._addr_taken(st["lhs"]["l"]):
                        lits[st["lhs"]["l"]] = rv0["vi"]
                    elif rv0["k"] == "use" and rv0["op"].get("k") in ("move", "copy") and not rv0["op"]["pl"]["p"] and rv0["op"]["pl"]["l"] in lits:
                        lits[st["lhs"]["l"]] = lits[rv0["op"]["pl"]["l"]]
                    else:
                        lits.pop(st["lhs"]["l"], None)
                elif st["k"] == "assign":
                    lits.pop(st["lhs"]["l"], None)
                if st["k"] == "assign" and not st["lhs"]["p"]:
                    rv = st["rv"]
                    if rv["k"] == "use" and rv["op"].get("k") == "const" and isinstance(rv["op"].get("val"), bool):
                        flags[st["lhs"]["l"]] = rv["op"]["val"]
                    elif rv["k"] == "use" and rv["op"].get("k") in ("move", "copy") and not rv["op"]["pl"]["p"] and rv["op"]["pl"]["l"] in flags:
                        flags[st["lhs"]["l"]] = flags[rv["op"]["pl"]["l"]]
                    elif rv["k"] == "un" and rv["op"] == "Not" and rv["a"].get("k") in ("move", "copy") and not rv["a"]["pl"]["p"] and rv["a"]["pl"]["l"] in flags:
                        flags[st["lhs"]["l"]] = not flags[rv["a"]["pl"]["l"]]
                    else:
                        flags.pop(st["lhs"]["l"], None)
                elif st["k"] == "assign":
                    flags.pop(st["lhs"]["l"], None)
            t = self.term(a)
            if t["k"] == "call" and t.get("dest"):
                flags.pop(t["dest"]["l"], None)
                lits.pop(t["dest"]["l"], None)
                if not t["dest"]["p"] and (callee_name(t) or "").endswith("FromResidual::from_residual"):
                    st_ = ((t.get("callee") or {}).get("self_ty") or "") or (((t.get("callee") or {}).get("args") or [""])[0])
                    if st_.startswith("std::result::Result<"):
                        lits[t["dest"]["l"]] = 1
                    elif st_.startswith("std::option::Option<"):
                        lits[t["dest"]["l"]] = 0
            if t["k"] != "switch":
                continue
            if t["op"].get("k") in ("move", "copy") and not t["op"]["pl"]["p"]:
                # `d = discr(x); switch d`: x was given a literal on this path
                dd = self.whole_defs(t["op"]["pl"]["l"])
                if len(dd) >= 1 and all(d_[0] == "stmt" and d_[3]["rv"]["k"] == "discr" for d_ in dd):
                    here = [st for st in self.blocks[a]["stmts"] if st["k"] == "assign" and st["lhs"]["l"] == t["op"]["pl"]["l"] and st["rv"]["k"] == "discr"]
                    src = here[-1]["rv"]["pl"] if here else (dd[0][3]["rv"]["pl"] if len(dd) == 1 else None)
                    if src is not None and not [p for p in src["p"] if p != "deref"] and src["l"] in lits:
                        want = lits[src["l"]]
                        tg = [x for v, x in t["targets"] if v == want]
                        nxt = tg[0] if tg else t["otherwise"]
                        if nxt is not None and b != nxt:
                            return False
                        continue
            if t.get("ty") == "bool" and t["op"].get("k") in ("move", "copy") and not t["op"]["pl"]["p"] and t["op"]["pl"]["l"] in flags \
                    and not self._addr_taken(t["op"]["pl"]["l"]):
                want = int(flags[t["op"]["pl"]["l"]])
                tg = [x for v, x in t["targets"] if v == want]
                nxt = tg[0] if tg else t["otherwise"]
                if nxt is not None and b != nxt:
                    return False
                continue
            si = self.switch_info(a)
            if not si or si["kind"] != "discr":
                continue
            key = self.canon(si["place"])
            root = int(key.split(".")[0])
            if len(self.whole_defs(root)) > 1 or any(d[0] == "stmt" and d[3]["lhs"]["p"] for d in self.defs.get(root, [])):
                continue
            vals = self.edge_value(a, b)
            allowed = set()
            for v in vals:
                if v == "otherwise":
                    listed = {x for x, _ in si["targets"]}
                    allowed |= {d for d in si["variants"] if d not in listed} if si["variants"] else {"other"}
                else:
                    allowed.add(v)
            if key in known:
                inter = known[key] & allowed
                if not inter:
                    return False
                known[key] = inter
            else:
                known[key] = allowed
        return True

    def _addr_taken(self, l):
        c = self.__dict__.setdefault("_addr_cache", {})
        if l not in c:
            c[l] = any(st["k"] == "assign" and st["rv"]["k"] in ("ref", "addr") and st["rv"]["pl"]["l"] == l and (st["rv"]["k"] == "addr" or st["rv"].get("mut"))
                       for i in self.reach for st in self.blocks[i]["stmts"])
        return c[l]

    def line_of(self, bb):
        return self.term(bb).get("cline") or self.term(bb).get("line")

    def site(self, bb):
        src = self.blocks[bb].get("src")
        return "%s:%s" % (src["file"] if src else self.fn["file"], self.line_of(bb))


def _bundle_literal(body, rv, fproj):
    """rv is a literal that merely bundles its operands and fproj projects one of them out again: a tuple literal, or a
    literal of a private struct of the crate (`RxParts { buf, size, .. }` in place of a tuple of borrows)."""
    if rv.get("k") != "agg":
        return False
    if rv.get("what") == "tuple":
        return not fproj.get("adt")
    if rv.get("what") == "adt" and fproj.get("adt") and rv.get("adt") == fproj.get("adt") and body.facts is not None:
        a = body.facts.adt(rv["adt"])
        return bool(a) and a["kind"] == "struct" and not a.get("pub") and re.match(r"(client|io|codec|core)::", rv["adt"]) is not None \
            and not re.search(r"::(Session|Connection)$", rv["adt"])
    return False


def _rv_sig(rv):
    def osig(o):
        if o is None:
            return None
        if o.get("k") == "const":
            u = o.get("uneval") or {}
            return ("c", str(o.get("val")), str(u.get("def")), str(u.get("self_ty")), str(u.get("eval")))
        return ("p", _place_key(o["pl"]))
    k = rv["k"]
    if k in ("use", "cast"):
        return (k, rv.get("ty"), osig(rv["op"]))
    if k in ("ref", "discr"):
        return (k, _place_key(rv["pl"]))
    return (k, id(rv))


def _same_operand(a, b):
    if a.get("k") == "const" or b.get("k") == "const":
        return a.get("k") == b.get("k") and a.get("val") == b.get("val") and a.get("uneval") == b.get("uneval")
    return _place_key(a["pl"]) == _place_key(b["pl"])


SIZES = {"u8": 1, "i8": 1, "bool": 1, "u16": 2, "i16": 2, "u32": 4, "i32": 4, "u64": 8, "i64": 8, "usize": 8, "isize": 8}

KNOWN_ENUMS = {
    "std::option::Option": {0: "None", 1: "Some"},
    "std::result::Result": {0: "Ok", 1: "Err"},
    "std::task::Poll": {0: "Ready", 1: "Pending"},
    "std::ops::ControlFlow": {0: "Continue", 1: "Break"},
    "either::Either": {0: "Left", 1: "Right"},
}


def _place_key(pl):
    parts = [str(pl["l"])]
    for p in pl["p"]:
        if p == "deref":
            parts.append("*")
        elif isinstance(p, dict) and "f" in p:
            parts.append("f%d" % p["f"])
        elif isinstance(p, dict) and "dc" in p:
            parts.append("dc" + str(p["dc"]))
        else:
            parts.append("?")
    return ".".join(parts)


_INTS = {"u8", "u16", "u32", "u64", "u128", "usize", "i8", "i16", "i32", "i64", "i128", "isize"}


def int_widening(t):
    """Target type if the call terminator is `<T as From<U>>::from` (or `<U as Into<T>>::into`) between primitive integers
    (the standard library only provides the lossless ones), else None."""
    c = t.get("callee") or {}
    if c.get("krate") != "core" or len(t.get("ops") or []) != 1:
        return None
    a = c.get("args") or []
    if c.get("def") == "std::convert::From::from" and len(a) == 2 and a[0] in _INTS and a[1] in _INTS:
        return a[0]
    if c.get("def") == "std::convert::Into::into" and len(a) == 2 and a[0] in _INTS and a[1] in _INTS:
        return a[1]
    return None


def symex(body, x, depth=0):
    """Small symbolic expression of an operand / place by following single whole-definitions:
    ('const', v) ('uneval', def, self_ty, eval) ('bin', op, a, b) ('un', op, a) ('cast', ty, a)
    ('call', name, [args]) ('place', pretty, fields, downcasts) ('agg', variant, [ops]) ('?',)"""
    if depth > 60 or x is None:
        return ("?",)
    if x.get("k") == "const":
        if x.get("uneval"):
            u = x["uneval"]
            return ("uneval", u["def"], u.get("self_ty"), u["eval"])
        return ("const", x["val"])
    pl = x["pl"] if "pl" in x else x
    proj = [p for p in pl["p"] if p != "deref"]
    ds = body.whole_defs(pl["l"])
    if len(ds) == 1 and ds[0][0] == "stmt":
        rv = ds[0][3]["rv"]
        if not proj:
            return _symex_rv(body, rv, depth)
        if len(proj) == 1 and isinstance(proj[0], dict) and proj[0].get("f") == 0 and rv["k"] == "bin" and rv["checked"]:
            return _symex_rv(body, rv, depth)
        if rv["k"] in ("use", "ref"):
            src = rv["op"] if rv["k"] == "use" else rv
            if src.get("k") != "const":
                sp = src["pl"]
                return symex(body, {"l": sp["l"], "p": list(sp["p"]) + proj}, depth + 1)
        if isinstance(proj[0], dict) and "f" in proj[0] and _bundle_literal(body, rv, proj[0]) and proj[0]["f"] < len(rv["ops"]) \
                and body._only_whole_defs(pl["l"]):
            # a component of a tuple literal
            o = rv["ops"][proj[0]["f"]]
            if o.get("k") == "const":
                return symex(body, o, depth + 1) if len(proj) == 1 else ("?",)
            return symex(body, {"l": o["pl"]["l"], "p": list(o["pl"]["p"]) + proj[1:]}, depth + 1)
    if len(ds) == 1 and ds[0][0] == "call" and (not proj or (callee_name(ds[0][2]) or "").endswith("Try::branch")):
        t = ds[0][2]
        nm = callee_name(t) or ""
        if nm.endswith("Try::branch") and t["ops"] and t["ops"][0].get("k") in ("move", "copy") and len(proj) >= 2 \
                and isinstance(proj[0], dict) and proj[0].get("dc") == "Continue" and isinstance(proj[1], dict) and proj[1].get("f") == 0:
            # the Continue payload of `x?` is the Ok / Some payload of x
            src = t["ops"][0]["pl"]
            xt = (t["callee"].get("self_ty") or "") + (t["callee"].get("resolved") or "")
            v = "Some" if "option::Option" in xt and "result::Result" not in xt.split("option::Option")[0] else "Ok"
            return symex(body, {"l": src["l"], "p": list(src["p"]) + [{"dc": v, "vi": 0 if v == "Ok" else 1}, {"f": 0, "n": "0", "adt": None}] + proj[2:]}, depth + 1)
        # unwrap / expect of an Option / Result all of whose definitions are literals: the payload of the Some / Ok ones
        if re.search(r"(Option|Result)::(unwrap|expect|unwrap_unchecked)$", nm) and t["ops"] and t["ops"][0].get("k") in ("move", "copy") and not t["ops"][0]["pl"]["p"]:
            want = "Some" if "Option" in nm else "Ok"
            lit = body._variant_literal_ops(t["ops"][0]["pl"]["l"], [{"dc": want}, {"f": 0}])
            if lit is not None and len(lit[0]) == 1:
                return symex(body, lit[0][0], depth + 1)
        if not proj and int_widening(t) is not None:
            # `usize::from(x)` between primitive integers is the lossless `x as usize`
            return ("cast", int_widening(t), symex(body, t["ops"][0], depth + 1))
        if not proj:
            return ("call", callee_resolved(t) or "?", [symex(body, o, depth + 1) for o in t["ops"]])
    # a value chosen between constants by the variant of some place (`x.map(|_| 1).unwrap_or(0)` expanded, a hand-written
    # `if x.is_some() { 1 } else { 0 }`): it derives from that place
    if not proj and len(ds) >= 2 and all(d[0] == "stmt" for d in ds):
        sel = _selected_by(body, ds)
        if sel is not None:
            return ("call", "select", [symex(body, sel, depth + 1)] + [symex(body, d[3]["rv"]["op"], depth + 1) if d[3]["rv"]["k"] == "use" else ("?",) for d in ds][:4])
    # payload of an enum all of whose definitions are literals (what flat.py's expansion of map / and_then leaves)
    lit = body._variant_literal_ops(pl["l"], proj)
    if lit is not None and len(lit[0]) == 1 and lit[0][0].get("k") in ("move", "copy"):
        o = lit[0][0]
        return symex(body, {"l": o["pl"]["l"], "p": list(o["pl"]["p"]) + lit[1]}, depth + 1)
    fields = place_fields(pl)
    downs = [p["dc"] for p in pl["p"] if isinstance(p, dict) and "dc" in p]
    # continue through the base local for context (variant downcasts of the scrutinee)
    base_fields, base_downs = [], []
    if len(ds) == 1 and ds[0][0] == "stmt" and ds[0][3]["rv"]["k"] in ("use", "ref"):
        pass
    from facts import pplace
    return ("place", pplace(pl), tuple(fields), tuple(downs), pl["l"])


def _selected_by(body, ds):
    """The definitions ds of one local are each a plain value (constant / copy) assigned on a different edge of one
    switch on the discriminant of a place: that place."""
    sel = None
    for d in ds:
        rv = d[3]["rv"]
        if rv["k"] not in ("use", "cast") or (rv["op"].get("k") != "const" and sym_fold(symex(body, rv["op"], 20)) is None):
            return None         # only flags chosen between constants; a computed value keeps its own identity
        got = None
        for (c, s_) in body.control_dep_closure(d[1]):
            si = body.switch_info(c)
            if si and si["kind"] == "discr":
                got = si["place"]
        if got is None:
            return None
        if sel is None:
            sel = got
        elif _place_key(sel) != _place_key(got):
            # nested selection (`a.and(b)`): keep the first, the caller sees both through atoms
            pass
    return sel


def _symex_rv(body, rv, depth):
    k = rv["k"]
    if k == "use":
        return symex(body, rv["op"], depth + 1)
    if k == "ref":
        return symex(body, rv["pl"], depth + 1)
    if k == "cast":
        return ("cast", rv["ty"], symex(body, rv["op"], depth + 1))
    if k == "bin":
        return ("bin", rv["op"], symex(body, rv["a"], depth + 1), symex(body, rv["b"], depth + 1))
    if k == "un":
        return ("un", rv["op"], symex(body, rv["a"], depth + 1))
    if k == "agg":
        return ("agg", rv.get("variant") or rv.get("what"), [symex(body, o, depth + 1) for o in rv["ops"]])
    if k == "discr":
        return ("discr", symex(body, rv["pl"], depth + 1))
    return ("?",)


def sym_fold(e):
    """Integer value of a symbolic expression if constant."""
    if e[0] == "const":
        v = e[1]
        if isinstance(v, bool):
            return int(v)
        return v if isinstance(v, int) else None
    if e[0] == "uneval":
        return e[3] if isinstance(e[3], int) else None
    if e[0] == "cast":
        return sym_fold(e[2])
    if e[0] == "bin":
        a, b = sym_fold(e[2]), sym_fold(e[3])
        if a is None or b is None:
            return None
        return {"Add": a + b, "Sub": a - b, "Mul": a * b, "Shl": a << b if 0 <= b < 256 else None, "Shr": a >> b if 0 <= b < 256 else None,
                "BitOr": a | b, "BitAnd": a & b, "BitXor": a ^ b}.get(e[1])
    return None


def sym_or_terms(e):
    """Flatten an or-tree into [(expr, shift)] leaves: `(a << 24) | (b << 8)` -> [(a,24),(b,8)]."""
    if e[0] == "cast":
        return sym_or_terms(e[2])
    if e[0] == "bin" and e[1] in ("BitOr", "Add", "BitXor"):
        return sym_or_terms(e[2]) + sym_or_terms(e[3])
    if e[0] == "bin" and e[1] == "Shl":
        k = sym_fold(e[3])
        if k is not None:
            return [(x, s + k) for x, s in sym_or_terms(e[2])]
    if e[0] == "bin" and e[1] == "Mul":
        k = sym_fold(e[3])
        if k is not None and k > 0 and (k & (k - 1)) == 0:
            return [(x, s + k.bit_length() - 1) for x, s in sym_or_terms(e[2])]
    return [(e, 0)]


def sym_leaves(e, out=None):
    """All place / uneval / const leaves of an expression."""
    if out is None:
        out = []
    if e[0] in ("place", "uneval", "const"):
        out.append(e)
    elif e[0] in ("bin",):
        sym_leaves(e[2], out)
        sym_leaves(e[3], out)
    elif e[0] in ("cast", "un"):
        sym_leaves(e[2], out)
    elif e[0] == "discr":
        sym_leaves(e[1], out)
    elif e[0] in ("call", "agg"):
        for a in e[2]:
            sym_leaves(a, out)
    return out
