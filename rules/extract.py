"""Run the rustc_private fact extractor on a crate's current working tree.

The driver is injected with RUSTC_WORKSPACE_WRAPPER under `cargo +nightly check --offline --lib`
in a private copy of a dependency-only target directory, so cargo can never replay a cached
result for the analysed crate.  The resulting fact base is cached under /verif/.cache keyed by a
content hash of every input (all files of the crate's src/, Cargo.toml, Cargo.lock, the driver
binary, the configuration), so a second check on the same tree does not recompile; any edit to
the tree changes the key and forces a new extraction.
"""
import fcntl
import hashlib
import os
import shutil
import subprocess
import sys
import tempfile
import time

VERIF = os.path.dirname(os.path.dirname(os.path.abspath(__file__)))
DRIVER = os.path.join(VERIF, "driver", "target", "release", "poster-facts")
CACHE = os.path.join(VERIF, ".cache")

CONFIGS = {
    # name -> extra RUSTFLAGS
    "debug": "",
    "release": "-C overflow-checks=off -C debug-assertions=off",
}


def _sysroot():
    return subprocess.check_output(["rustc", "+nightly", "--print", "sysroot"], text=True).strip()


def tree_hash(crate_dir, config, crate_name):
    h = hashlib.sha256()
    h.update(("cfg=%s;crate=%s;" % (config, crate_name)).encode())
    with open(DRIVER, "rb") as fh:
        h.update(hashlib.sha256(fh.read()).digest())
    files = []
    for top in ("src",):
        for root, dirs, fs in os.walk(os.path.join(crate_dir, top)):
            dirs.sort()
            for f in sorted(fs):
                files.append(os.path.join(root, f))
    for f in ("Cargo.toml", "Cargo.lock", "build.rs"):
        p = os.path.join(crate_dir, f)
        if os.path.exists(p):
            files.append(p)
    for p in files:
        h.update(os.path.relpath(p, crate_dir).encode())
        with open(p, "rb") as fh:
            h.update(hashlib.sha256(fh.read()).digest())
    return h.hexdigest()[:24], len(files)


def extract(crate_dir="/repo", config="debug", crate_name="poster", use_cache=True, log=None):
    """Returns (facts_path, info dict). Raises RuntimeError if the tree does not compile."""
    if not os.path.exists(DRIVER):
        raise RuntimeError("driver not built: run MANIFEST.setup_cmd (./setup.sh)")
    os.makedirs(CACHE, exist_ok=True)
    key, nfiles = tree_hash(crate_dir, config, crate_name)
    out = os.path.join(CACHE, "facts-%s-%s-%s.json.gz" % (crate_name, config, key))
    info = {"config": config, "key": key, "source_files_hashed": nfiles, "cached": False,
            "crate_dir": crate_dir}
    lock_path = out + ".lock"
    with open(lock_path, "w") as lock:
        fcntl.flock(lock, fcntl.LOCK_EX)
        try:
            if use_cache and os.path.exists(out) and os.path.getsize(out) > 0:
                info["cached"] = True
                return out, info
            t0 = time.time()
            tmp = tempfile.mkdtemp(prefix="poster-facts-")
            try:
                env = dict(os.environ)
                env["LD_LIBRARY_PATH"] = _sysroot() + "/lib" + (":" + env["LD_LIBRARY_PATH"] if env.get("LD_LIBRARY_PATH") else "")
                env["CARGO_NET_OFFLINE"] = "true"
                env["RUSTFLAGS"] = ("-Zmir-opt-level=0 -Awarnings " + CONFIGS[config]).strip()
                env["RUSTC_WORKSPACE_WRAPPER"] = DRIVER
                env["POSTER_FACTS_OUT"] = os.path.join(tmp, "facts.json")
                env["POSTER_FACTS_CRATE"] = crate_name
                env["CARGO_TARGET_DIR"] = os.path.join(tmp, "target")
                env.pop("RUSTC_WRAPPER", None)
                p = subprocess.run(["cargo", "+nightly", "check", "--offline", "--lib", "-q"],
                                   cwd=crate_dir, env=env, stdout=subprocess.PIPE,
                                   stderr=subprocess.STDOUT, text=True)
                info["cargo_exit"] = p.returncode
                if p.returncode != 0 or not os.path.exists(env["POSTER_FACTS_OUT"]):
                    tail = "\n".join(p.stdout.splitlines()[-40:])
                    raise RuntimeError("extraction failed (tree does not compile under the driver?)\n" + tail)
                import gzip
                with open(env["POSTER_FACTS_OUT"], "rb") as fin, gzip.open(out + ".tmp", "wb", compresslevel=4) as fout:
                    shutil.copyfileobj(fin, fout)
                os.replace(out + ".tmp", out)
            finally:
                shutil.rmtree(tmp, ignore_errors=True)
            info["extract_s"] = round(time.time() - t0, 2)
            _gc(keep=out)
            return out, info
        finally:
            fcntl.flock(lock, fcntl.LOCK_UN)


def _gc(keep, max_files=200):
    try:
        for f in os.listdir(CACHE):
            if f.startswith("facts-") and (f.endswith(".json") or f.endswith(".json.lock")):
                os.remove(os.path.join(CACHE, f))      # uncompressed files of older versions
        fs = [os.path.join(CACHE, f) for f in os.listdir(CACHE) if f.startswith("facts-") and f.endswith(".json.gz")]
        fs.sort(key=os.path.getmtime, reverse=True)
        for f in fs[max_files:]:
            if f != keep:
                os.remove(f)
                try:
                    os.remove(f + ".lock")
                except OSError:
                    pass
    except OSError:
        pass


if __name__ == "__main__":
    cfg = sys.argv[1] if len(sys.argv) > 1 else "debug"
    path, info = extract(config=cfg)
    print(path, info)
