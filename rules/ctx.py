"""Shared context for rules: facts, bodies, spec tables and role-based anchors."""
import json
import os
import re

from facts import Facts
from effects import World, effects, SESSION, CONNECTION
from engine import AnchorLost
from mir import callee_name, callee_resolved, strip_generics

VERIF = os.path.dirname(os.path.dirname(os.path.abspath(__file__)))

RXPACKET = "codec::packet::RxPacket"
TXPACKET = "codec::packet::TxPacket"
CTXMSG = "client::message::ContextMessage"


class Ctx:
    def __init__(self, facts_path, tier="quick", release_facts_path=None, info=None, facts=None):
        self.facts = facts if facts is not None else Facts(facts_path)
        self.world = World(self.facts)
        self.tier = tier
        self.info = info or {}
        self.release = None
        if release_facts_path:
            self.release = Ctx(release_facts_path, tier)
        self._spec = {}
        self._eff = {}
        self.analysed = {"bodies": set(), "blocks": 0, "call_sites": 0, "paths": 0}

    def spec(self, name):
        if name not in self._spec:
            with open(os.path.join(VERIF, "spec", name + ".json")) as fh:
                self._spec[name] = json.load(fh)
        return self._spec[name]

    # ---------------------------------------------------------------- anchors by role
    def note(self, body):
        if body.path not in self.analysed["bodies"]:
            self.analysed["bodies"].add(body.path)
            self.analysed["blocks"] += len(body.reach)
            self.analysed["call_sites"] += sum(1 for b in body.reach if body.term(b)["k"] == "call")
        return body

    def coroutine(self, fn_regex):
        try:
            return self.note(self.world.coroutine(fn_regex))
        except KeyError as e:
            raise AnchorLost(str(e))

    def body(self, regex):
        try:
            return self.note(self.world.body_re(regex))
        except KeyError as e:
            raise AnchorLost(str(e))

    def effects(self, body, depth=3):
        k = (body.path, depth)
        if k not in self._eff:
            self._eff[k] = effects(self.world, body, depth)
        return self._eff[k]

    def inbound_handler(self):
        """The coroutine that dispatches on a received RxPacket inside the context actor: the body
        (reachable from Context::run) that switches on the discriminant of an RxPacket parameter and
        performs Ack effects."""
        return self.coroutine(r"client::context::Context::<[^>]*>::handle_packet")

    def outbound_handler(self):
        return self.coroutine(r"client::context::Context::<[^>]*>::handle_message")

    def run_body(self):
        return self.coroutine(r"client::context::Context::<[^>]*>::run")

    def handle_ops(self):
        out = {}
        for name in ("disconnect", "ping", "publish", "subscribe", "unsubscribe"):
            out[name] = self.coroutine(r"client::handle::ContextHandle::" + name)
        return out


def match_arms(body, adt_path, root_only=True):
    """The dispatching `match` on an enum value of type adt_path: returns
    (switch_bb, {variant: entry_bb}, otherwise_bb, [variants handled by otherwise])."""
    best = None
    for b in sorted(body.reach):
        si = body.switch_info(b)
        if not si or si["kind"] != "discr" or si.get("adt") != adt_path:
            continue
        vmap = si["variants"]
        arms = {}
        for v, bb in si["targets"]:
            arms[vmap.get(v, str(v))] = bb
        listed = set(arms)
        allv = set(vmap.values())
        other = sorted(allv - listed)
        cand = (b, arms, si["otherwise"], other, si)
        if best is None or len(arms) > len(best[1]):
            best = cand
    if best is None:
        raise AnchorLost("no match on %s in %s" % (adt_path, body.path))
    return best


def arm_region(body, entry):
    return {b for b in body.reach if body.dominates(entry, b)}


def arm_of(body, arms, otherwise, bb):
    """Name of the arm (variant or 'otherwise') whose entry dominates bb."""
    for v, e in arms.items():
        if body.dominates(e, bb):
            return v
    if otherwise is not None and body.dominates(otherwise, bb):
        # `otherwise` may be an `unreachable` block
        return "otherwise"
    return None


def short_ty(t):
    return t.split("::")[-1] if t else t


def fmt_atoms(atoms, kinds=("field", "call", "uneval", "downcast")):
    out = []
    for a in sorted(atoms, key=str):
        if a[0] == "field" and "field" in kinds:
            out.append("%s.%s" % (short_ty(a[1]), a[2]))
        elif a[0] == "call" and "call" in kinds:
            out.append("call:" + "::".join(a[1].split("::")[-2:]))
        elif a[0] == "uneval" and "uneval" in kinds:
            out.append("%s=%s" % ("::".join(a[1].split("::")[-2:]), a[2]))
    return out
