"""Shared context for rules: facts, bodies, spec tables and role-based anchors."""
import json
import os
import re

from facts import Facts
from effects import World, effects, SESSION, CONNECTION
from engine import AnchorLost
from mir import callee_name, callee_resolved, strip_generics, Body
import flat as _flat

VERIF = os.path.dirname(os.path.dirname(os.path.abspath(__file__)))

RXPACKET = "codec::packet::RxPacket"
TXPACKET = "codec::packet::TxPacket"
CTXMSG = "client::message::ContextMessage"


CRATE_LAYERS = ("client", "codec", "core", "io")


class Ctx:
    def __init__(self, facts_path, tier="quick", release_facts_path=None, info=None, facts=None):
        self.facts = facts if facts is not None else Facts(facts_path)
        self.world = World(self.facts)
        self.tier = tier
        self.info = info or {}
        self.release = None
        if release_facts_path:
            self.release = Ctx(release_facts_path, tier)
        self._spec = {}
        self._eff = {}
        self._flat = {}
        self.analysed = {"bodies": set(), "blocks": 0, "call_sites": 0, "paths": 0}

    def spec(self, name):
        if name not in self._spec:
            with open(os.path.join(VERIF, "spec", name + ".json")) as fh:
                self._spec[name] = json.load(fh)
        return self._spec[name]

    # ---------------------------------------------------------------- anchors by role
    def note(self, body):
        if body.path not in self.analysed["bodies"]:
            self.analysed["bodies"].add(body.path)
            self.analysed["blocks"] += len(body.reach)
            self.analysed["call_sites"] += sum(1 for b in body.reach if body.term(b)["k"] == "call")
        return body

    def coroutine(self, fn_regex):
        try:
            return self.note(self.world.coroutine(fn_regex))
        except KeyError as e:
            raise AnchorLost(str(e))

    def body(self, regex):
        try:
            return self.note(self.world.body_re(regex))
        except KeyError as e:
            raise AnchorLost(str(e))

    def effects(self, body, depth=3):
        k = (body.path, depth)
        if k not in self._eff:
            self._eff[k] = effects(self.world, body, depth)
        return self._eff[k]

    # ---------------------------------------------------------------- flattened views
    # Role anchors that rules name explicitly: never inlined, so that a rule can still point at the call.
    ANCHORS = re.compile(r"::(ack|validate_packet_size|handle_connack|session_expired|is_reconnect|reset_session|"
                         r"linear_search_by_key|tx_action_id|rx_action_id|handle_packet|handle_message|set_up|new)$")

    @staticmethod
    def layer(path):
        # `<std::collections::VecDeque<(K, V)> as client::utils::KeyedQueue<K, V>>::take_by_key`: a method the crate adds to
        # a foreign type through a trait of its own belongs to the layer of that trait
        if path.startswith("<") and path.lstrip("<").split("::")[0] not in CRATE_LAYERS:
            m = re.search(r" as ([a-z_]+)::", path)
            if m and m.group(1) in CRATE_LAYERS:
                return m.group(1)
        return path.lstrip("<").split("::")[0]

    def layer_of(self, path):
        """Layer a function belongs to: for a trait method implemented on a type of another layer
        (`<codec::packet::RxPacket as client::handle::ExpectAck>::expect_puback`) the layer of the file it is written in."""
        if path.startswith("<"):
            f = self.facts.fn(path)
            if f is None and path.endswith("}"):
                f = self.facts.fn(re.sub(r"(::\{closure#\d+\})+$", "", path))
            if f is not None and f.get("file", "").startswith("src/"):
                seg = f["file"].split("/")
                if len(seg) >= 3 and seg[1] in CRATE_LAYERS:
                    return seg[1]
        return self.layer(path)

    def flat_with(self, body, kept, tag, normalise=True):
        """Flattened body under a caller-supplied policy kept(path) -> bool (True: leave the call in place).
        normalise=False: helpers are inlined but combinators / `?` are left as written."""
        if body is None:
            return None
        key = (body.path, "policy", tag, normalise)
        if key not in self._flat:
            fl = _flat.Flattener(self.facts, keep=kept, expand=normalise, thread=normalise)
            fn = fl.flatten(body.path)
            bad = _flat.validate(fn)
            if bad:
                raise AnchorLost("flattening of %s produced an inconsistent body: %s" % (body.path, bad[:3]))
            self._flat[key] = Body(fn, self.facts)
        return self.note(self._flat[key])

    def flat(self, body, keep=None, inline=None):
        """The body with crate-local helpers of the same layer (client / codec / core / io), awaited `async fn`
        helpers, std Option/Result combinators and their closures inlined (rules/flat.py). `keep`: extra regex of
        callee paths that must stay calls; `inline`: regex of anchors that should be inlined all the same."""
        if body is None:
            return None
        key = (body.path, keep, inline)
        if key not in self._flat:
            lay = self.layer_of(body.path)
            kre = re.compile(keep) if keep else None
            ire = re.compile(inline) if inline else None

            def kept(p, lay=lay, kre=kre, ire=ire):
                q = p.replace("::{closure#0}", "") if p.endswith("::{closure#0}") else p
                if self.layer_of(p) != lay:
                    return True
                if ire is not None and ire.search(q):
                    return False
                if kre is not None and kre.search(q):
                    return True
                return bool(self.ANCHORS.search(q))
            fl = _flat.Flattener(self.facts, keep=kept)
            fn = fl.flatten(body.path)
            bad = _flat.validate(fn)
            if bad:
                raise AnchorLost("flattening of %s produced an inconsistent body: %s" % (body.path, bad[:3]))
            b = Body(fn, self.facts)
            self._flat[key] = b
        return self.note(self._flat[key])

    def inbound_handler(self):
        """The coroutine that dispatches on a received RxPacket inside the context actor: the body
        (reachable from Context::run) that switches on the discriminant of an RxPacket parameter and
        performs Ack effects."""
        return self.flat(self.coroutine(r"client::context::Context::<[^>]*>::handle_packet"))

    def outbound_handler(self):
        return self.flat(self.coroutine(r"client::context::Context::<[^>]*>::handle_message"))

    def run_body(self):
        return self.flat(self.coroutine(r"client::context::Context::<[^>]*>::run"))

    def client_units(self):
        """[(role, body)] covering the code of the client layer exactly once: the two handlers, run, connect,
        authorize and the handle operations in flattened form; every other function as it is written, unless it
        was inlined into one of those (then its code is looked at where it takes effect). Closures are reached
        from the body that creates them."""
        if getattr(self, "_units", None) is not None:
            return self._units
        units = [("inbound", self.inbound_handler()), ("outbound", self.outbound_handler()), ("run", self.run_body())]
        for nm in ("connect", "authorize"):
            try:
                units.append((nm, self.flat(self.coroutine(r"client::context::Context::<[^>]*>::" + nm))))
            except AnchorLost:
                pass
        for nm, b in self.handle_ops().items():
            units.append((nm, b))
        covered = set()
        for _, b in units:
            covered.add(b.path)
            covered |= set(b.fn.get("inlined", []))
        # the `async fn` shells of covered coroutines
        covered |= {p[:-len("::{closure#0}")] for p in list(covered) if p.endswith("::{closure#0}")}
        for f in self.facts.fns:
            p = f["path"]
            if self.layer(p) != "client" or f["kind"] == "closure" or p in covered:
                continue
            if "::test" in p or "::tests::" in p:
                continue
            role = p.split("::")[-1] if not p.endswith("}") else p.split("::")[-2]
            units.append((role, self.world.body(p)))
        self._units = units
        return units

    def handle_ops(self):
        out = {}
        for name in ("disconnect", "ping", "publish", "subscribe", "unsubscribe"):
            out[name] = self.flat(self.coroutine(r"client::handle::ContextHandle::" + name), keep=r"client::opts::")
        return out


def match_arms(body, adt_path, root_only=True):
    """The dispatching `match` on an enum value of type adt_path: returns
    (switch_bb, {variant: entry_bb}, otherwise_bb, [variants handled by otherwise])."""
    best = None
    for b in sorted(body.reach):
        si = body.switch_info(b)
        if not si or si["kind"] != "discr" or si.get("adt") != adt_path:
            continue
        vmap = si["variants"]
        arms = {}
        for v, bb in si["targets"]:
            arms[vmap.get(v, str(v))] = bb
        listed = set(arms)
        allv = set(vmap.values())
        other = sorted(allv - listed)
        cand = (b, arms, si["otherwise"], other, si)
        if best is None or len(arms) > len(best[1]):
            best = cand
    if best is None:
        raise AnchorLost("no match on %s in %s" % (adt_path, body.path))
    return best


def arm_region(body, entry):
    """Blocks that belong to the arm entered at `entry`: everything reachable from it before the point where the
    arms of its `match` / `if` join again (the immediate post-dominator of the branching block). Two patterns joined
    with `|` (each with its own binding block) share their body: it belongs to both."""
    cache = body.__dict__.setdefault("_arm_regions", {})
    if entry in cache:
        return cache[entry]
    branch = None
    for p in body.pred(entry):
        if len(body.succ(p)) > 1:
            branch = p
    if branch is None:
        # entry reached through a chain of single-successor blocks (falseedge, binding block): walk up
        cur = entry
        for _ in range(6):
            ps = body.pred(cur)
            if len(ps) != 1:
                break
            if len(body.succ(ps[0])) > 1:
                branch = ps[0]
                break
            cur = ps[0]
    join = body.ipdom.get(branch) if branch is not None else None
    avoid = {join} if join is not None and join >= 0 else set()
    reg = body.reachable_from(entry, avoid=avoid)
    if branch is not None and branch in reg and not body.dominates(entry, branch):
        # the match sits in a loop: do not run around the loop into the other arms
        reg = body.reachable_from(entry, avoid=avoid | {branch})
    cache[entry] = reg
    return reg


def arm_of(body, arms, otherwise, bb):
    """Name of the arm bb belongs to. For a body shared by several `|`-joined patterns: 'A|B'."""
    dom = [v for v, e in arms.items() if body.dominates(e, bb)]
    if dom:
        # innermost entry; variants that share it (`A | B` without separate binding blocks) are named together
        inner = max(dom, key=lambda v: len([x for x in dom if body.dominates(arms[x], arms[v])]))
        return "|".join(sorted(v for v in dom if arms[v] == arms[inner]))
    if otherwise is not None and body.dominates(otherwise, bb):
        # `otherwise` may be an `unreachable` block
        return "otherwise"
    inside = sorted(v for v, e in arms.items() if bb in arm_region(body, e))
    if inside and len(inside) < len(arms):
        return "|".join(inside)
    # a block behind the join of the arms (the dispatch is done in stages: the arms leave a note -- `Followup::Puback(id)`,
    # a flag -- and the work happens after the match): the kinds of the dispatched value for which the block can run
    if body.fn.get("flat") and body.facts is not None:
        root = None
        for d in sorted(body.reach):
            t = body.term(d)
            if t["k"] == "switch" and arms and set(arms.values()) <= {x for _, x in t["targets"]} | {t["otherwise"]}:
                si = body.switch_info(d)
                if si and si["kind"] == "discr" and si.get("adt") and body.facts.adt(si["adt"]) is not None:
                    root = (d, si["adt"])
                    break
        if root is not None and bb in body.reachable_from(root[0]):
            import spec as _spec
            class _C:       # variant_specs only needs the fact base
                facts = body.facts
            vs = _spec.variants_reaching(_C, body, root[1], root[0], bb)
            allv = {v["name"] for v in body.facts.adt(root[1])["variants"]}
            if vs and set(vs) != allv:
                listed = [v for v in vs if v in arms]
                rest = [v for v in vs if v not in arms]
                if rest and otherwise is not None and not listed:
                    return "otherwise"
                return "|".join(sorted(vs))
    return None


def short_ty(t):
    return t.split("::")[-1] if t else t


def fmt_atoms(atoms, kinds=("field", "call", "uneval", "downcast")):
    out = []
    for a in sorted(atoms, key=str):
        if a[0] == "field" and "field" in kinds:
            out.append("%s.%s" % (short_ty(a[1]), a[2]))
        elif a[0] == "call" and "call" in kinds:
            out.append("call:" + "::".join(a[1].split("::")[-2:]))
        elif a[0] == "uneval" and "uneval" in kinds:
            out.append("%s=%s" % ("::".join(a[1].split("::")[-2:]), a[2]))
    return out
