"""Apply a patch to a scratch copy of the current /repo tree, extract facts and run rules on it.
Used by the thorough tier (checker self-test on mutants/ and seeded/) and by tools/try_patch.py."""
import os
import shutil
import subprocess
import tempfile

import engine
import extract
from ctx import Ctx
from props import PROPS


def scratch_copy(repo="/repo"):
    tmp = tempfile.mkdtemp(prefix="poster-mut-")
    for item in ("src", "Cargo.toml", "Cargo.lock", "examples", "README.md"):
        p = os.path.join(repo, item)
        if os.path.isdir(p):
            shutil.copytree(p, os.path.join(tmp, item))
        elif os.path.exists(p):
            shutil.copy(p, os.path.join(tmp, item))
    return tmp


def apply_patch(tmp, diff_path):
    p = subprocess.run(["git", "apply", "--whitespace=nowarn", os.path.abspath(diff_path)], cwd=tmp, stdout=subprocess.PIPE, stderr=subprocess.STDOUT, text=True)
    return p.returncode == 0, p.stdout


def violations_with_patch(diff_path, props=None, repo="/repo", tier="quick"):
    """Returns (status, {prop: [failing instance keys]}, info). status: 'ok' | 'patch-does-not-apply' | 'does-not-compile'"""
    tmp = scratch_copy(repo)
    try:
        ok, msg = apply_patch(tmp, diff_path)
        if not ok:
            return "patch-does-not-apply", {}, {"msg": msg[-500:]}
        try:
            facts, info = extract.extract(tmp, "debug")
        except RuntimeError as e:
            return "does-not-compile", {}, {"msg": str(e)[-800:]}
        ctx = Ctx(facts, tier, None, info)
        known = {(k["property"], k["key"]) for k in engine.load_known().get("known", [])}
        import re
        out = {}
        for prop in (props or sorted(PROPS)):
            spec = PROPS[prop]
            keys = []
            for rid in spec["rules"]:
                if rid not in engine.RULES:
                    continue
                res = engine.run_rule(rid, ctx)
                flt = spec.get("filters", {}).get(rid)
                for r in res:
                    if r.ok:
                        continue
                    if flt and not (re.search(flt, r.key) or r.kind in ("anchor lost", "machinery error")):
                        continue
                    if (prop, r.key) in known:
                        continue
                    keys.append((r.key, r.site, r.fact, r.kind))
            if keys:
                out[prop] = keys
        return "ok", out, info
    finally:
        shutil.rmtree(tmp, ignore_errors=True)
