"""Apply a patch to a scratch copy of the current /repo tree, extract facts and run rules on it.
Used by the thorough tier (checker self-test on mutants/ and seeded/) and by tools/try_patch.py."""
import os
import shutil
import subprocess
import tempfile

import engine
import extract
from ctx import Ctx
from props import PROPS


def scratch_copy(repo="/repo"):
    tmp = tempfile.mkdtemp(prefix="poster-mut-")
    for item in ("src", "Cargo.toml", "Cargo.lock", "examples", "README.md"):
        p = os.path.join(repo, item)
        if os.path.isdir(p):
            shutil.copytree(p, os.path.join(tmp, item))
        elif os.path.exists(p):
            shutil.copy(p, os.path.join(tmp, item))
    return tmp


def apply_patch(tmp, diff_path):
    p = subprocess.run(["git", "apply", "--whitespace=nowarn", os.path.abspath(diff_path)], cwd=tmp, stdout=subprocess.PIPE, stderr=subprocess.STDOUT, text=True)
    return p.returncode == 0, p.stdout


def violations_with_patch(diff_path, props=None, repo="/repo", tier="quick"):
    """Returns (status, {prop: [failing instance keys]}, info). status: 'ok' | 'patch-does-not-apply' | 'does-not-compile'"""
    tmp = scratch_copy(repo)
    try:
        ok, msg = apply_patch(tmp, diff_path)
        if not ok:
            return "patch-does-not-apply", {}, {"msg": msg[-500:]}
        try:
            facts, info = extract.extract(tmp, "debug")
        except RuntimeError as e:
            return "does-not-compile", {}, {"msg": str(e)[-800:]}
        ctx = Ctx(facts, tier, None, info)
        known = {(k["property"], k["key"]) for k in engine.load_known().get("known", [])}
        import re
        out = {}
        for prop in (props or sorted(PROPS)):
            spec = PROPS[prop]
            keys = []
            for rid in spec["rules"]:
                if rid not in engine.RULES:
                    continue
                res = engine.run_rule(rid, ctx)
                flt = spec.get("filters", {}).get(rid)
                for r in res:
                    if r.ok:
                        continue
                    if flt and not (re.search(flt, r.key) or r.kind in ("anchor lost", "machinery error")):
                        continue
                    if (prop, r.key) in known:
                        continue
                    keys.append((r.key, r.site, r.fact, r.kind))
            if keys:
                out[prop] = keys
        return "ok", out, info
    finally:
        shutil.rmtree(tmp, ignore_errors=True)


def _one(args):
    kind, ident, path, prop, rx = args
    import importlib
    from props import RULE_MODULES
    for m in RULE_MODULES:
        importlib.import_module(m)
    status, out, info = violations_with_patch(path, [prop], tier="quick")
    keys = [k[0] for k in out.get(prop, [])]
    return kind, ident, status, keys, rx


def live_selftest(prop, current_violation_keys):
    """Thorough tier: apply every checker mutant / seeded breakage that concerns `prop` and every benign
    refactoring to a scratch copy of the current /repo, re-extract through the driver and run the property's
    rules. Mutants and seeded breakages must be reported, benign refactorings must not add any report."""
    import glob
    import json
    import re
    from concurrent.futures import ProcessPoolExecutor
    from engine import Inst, VERIF
    jobs = []
    mi = os.path.join(VERIF, "mutants", "index.json")
    if os.path.exists(mi):
        for e in json.load(open(mi)):
            for p, rx in e["expect"]:
                if p == prop:
                    jobs.append(("mutant", e["id"], os.path.join(VERIF, "mutants", e["id"] + ".diff"), prop, rx))
    for d in sorted(glob.glob(os.path.join(VERIF, "seeded", "*", "patch.diff"))):
        sid = os.path.basename(os.path.dirname(d))
        if sid.split("-")[0] == prop:
            jobs.append(("seeded", sid, d, prop, None))
    for d in sorted(glob.glob(os.path.join(VERIF, "benign", "*.diff"))):
        jobs.append(("benign", os.path.basename(d)[:-5], d, prop, None))
    out = []
    km = os.path.join(VERIF, "seeded", "KNOWN_MISSES.txt")
    known_misses = {l.strip() for l in open(km)} if os.path.exists(km) else set()
    with ProcessPoolExecutor(max_workers=8) as ex:
        for kind, ident, status, keys, rx in ex.map(_one, jobs):
            if status != "ok":
                out.append(Inst("SELFTEST-LIVE", "%s:%s:skipped" % (kind, ident), True, "", "patch not usable on the current tree (%s): skipped" % status, "-"))
                continue
            if kind == "mutant":
                hit = [k for k in keys if re.search(rx, k)]
                out.append(Inst("SELFTEST-LIVE", "mutant:%s" % ident, bool(hit), "mutants/%s.diff" % ident,
                                "expected instance /%s/ %s" % (rx, "reported: %s" % hit[0] if hit else "NOT reported; reported instead: %s" % keys[:3]), "the mutated instance is named"))
            elif kind == "seeded":
                new = [k for k in keys if k not in current_violation_keys]
                if not new and ident in known_misses:
                    # a shortcoming of the checker that is on record (seeded/KNOWN_MISSES.txt, DESIGN 11.12): the property
                    # held on /repo is not put in doubt by it, so it is shown and does not fail the check
                    out.append(Inst("SELFTEST-LIVE", "seeded:%s:known-miss" % ident, True, "seeded/%s/patch.diff" % ident,
                                    "independently seeded breakage of this property is NOT reported (listed in seeded/KNOWN_MISSES.txt)", "reported"))
                    continue
                out.append(Inst("SELFTEST-LIVE", "seeded:%s" % ident, bool(new), "seeded/%s/patch.diff" % ident,
                                "independently seeded breakage of this property %s" % ("is reported: %s" % new[:2] if new else "is NOT reported"), "reported"))
            else:
                new = [k for k in keys if k not in current_violation_keys]
                out.append(Inst("SELFTEST-LIVE", "benign:%s" % ident, not new, "benign/%s.diff" % ident,
                                "behaviour-preserving refactoring %s" % ("raises no alarm" if not new else "raises FALSE ALARMS: %s" % new[:3]), "silent"))
    return out
