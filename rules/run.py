#!/usr/bin/env python3
"""Entry point: run.py <Cxx> <quick|thorough>   |   run.py --explain <report.json>

Decides the structural clauses of one property on /repo's current working tree by static analysis
of the compiler's MIR (see DESIGN.md). Exit 0: every rule instance holds or is an exactly matched
known finding. Exit 1 + `VIOLATION property=<id> replay=<report>` otherwise.
"""
import importlib
import re as _re
import json
import os
import sys
import time

HERE = os.path.dirname(os.path.abspath(__file__))
VERIF = os.path.dirname(HERE)
sys.path.insert(0, HERE)

import engine  # noqa: E402
import extract  # noqa: E402
from ctx import Ctx  # noqa: E402
from props import PROPS, RULE_MODULES  # noqa: E402


def load_rules():
    for m in RULE_MODULES:
        importlib.import_module(m)


def run_property(prop, tier, repo="/repo", quiet=False):
    t0 = time.time()
    seed = int(os.environ.get("VERIF_SEED", "0") or 0)
    spec = PROPS[prop]
    load_rules()
    violations = []
    insts = []
    info = {}
    try:
        facts_path, info = extract.extract(repo, "debug")
        rel_path = None
        rinfo = None
        if tier == "thorough" or spec.get("needs_release"):
            rel_path, rinfo = extract.extract(repo, "release")
        ctx = Ctx(facts_path, tier, rel_path, info)
    except Exception as e:  # tree does not compile under the driver: fail closed
        i = engine.Inst("EXTRACT", "failed", False, fact=str(e)[-3000:], kind="machinery error",
                        oracle="the working tree must compile under the fact extractor")
        p = engine.write_report(prop, i, 0)
        print("VIOLATION property=%s replay=%s" % (prop, p))
        engine.write_evidence(prop, tier, seed, [i], {"bodies": 0}, time.time() - t0, 1, [], "extraction failed", [], [])
        return 1
    rules_run = []
    for rid in spec["rules"]:
        if rid not in engine.RULES:
            insts.append(engine.Inst(rid, "rule-missing", False, fact="rule %s is not implemented" % rid, kind="machinery error"))
            continue
        res = engine.run_rule(rid, ctx)
        flt = spec.get("filters", {}).get(rid)
        if flt:
            res = [r for r in res if _re.search(flt, r.key) or r.kind in ("anchor lost", "machinery error")]
        rules_run.append({"rule": rid, "instances": len(res), "holding": len([r for r in res if r.ok]),
                          "floor": engine.RULES[rid][1]["floor"], "doc": engine.RULES[rid][1]["doc"][:400]})
        insts += res
    # release-arithmetic re-run of rules that must give identical verdicts (thorough)
    cross = []
    if tier == "thorough" and ctx.release is not None:
        for rid in spec["rules"]:
            if rid not in engine.RULES or rid in spec.get("arith_rules", ()) or rid in DEBUG_ONLY_RULES:
                continue
            res2 = engine.run_rule(rid, ctx.release)
            flt = spec.get("filters", {}).get(rid)
            if flt:
                res2 = [r for r in res2 if _re.search(flt, r.key) or r.kind in ("anchor lost", "machinery error")]
            a = sorted((r.key, r.ok) for r in insts if r.rule == rid)
            b = sorted((r.key, r.ok) for r in res2)
            same = a == b
            cross.append({"rule": rid, "same_verdicts_release_arithmetic": same})
            if not same:
                diff = sorted(set(a) ^ set(b))[:10]
                insts.append(engine.Inst(rid, "release-config-differs", False, fact="verdicts differ between debug and release arithmetic: %s" % diff,
                                         oracle="rules that do not concern overflow must not depend on the arithmetic mode"))
        for rid in spec.get("arith_rules", ()):
            if rid in engine.RULES:
                flt = spec.get("filters", {}).get(rid)
                for r in engine.run_rule(rid, ctx.release):
                    if flt and not (_re.search(flt, r.key) or r.kind in ("anchor lost", "machinery error")):
                        continue
                    r2 = engine.Inst(r.rule, r.key.split(":", 1)[1] + "@release", r.ok, r.site, r.fact, r.oracle, r.detail, r.kind)
                    insts.append(r2)
    if tier == "thorough":
        try:
            import mutate
            cur = {i.key for i in insts if not i.ok}
            insts += mutate.live_selftest(prop, cur)
        except Exception as e:  # noqa
            insts.append(engine.Inst("SELFTEST-LIVE", "crashed", False, fact="live self-test crashed: %r" % (e,), kind="machinery error"))
    # fixtures: positive examples must fire (machinery self-check)
    try:
        import fixtures_check
        insts += fixtures_check.run(prop, spec, tier)
    except ImportError:
        pass
    known = engine.load_known()
    known_keys = {(k["property"], k["key"]): k for k in known.get("known", [])}
    matched = []
    n_viol = 0
    for idx, i in enumerate(insts):
        if i.ok:
            continue
        k = known_keys.get((prop, i.key))
        if k is not None and i.kind == "violation":
            matched.append({"key": i.key, "what": k.get("what", ""), "site": i.site})
            print("KNOWN-FINDING: property=%s %s [%s] %s" % (prop, k.get("what", i.fact), i.key, i.site))
            continue
        n_viol += 1
        p = engine.write_report(prop, i, n_viol, {"tier": tier, "extraction": info})
        violations.append(p)
        if not quiet:
            print("  %s: %s\n     at %s\n     found : %s\n     wanted: %s" % (i.kind, i.key, i.site, i.fact, i.oracle))
        print("VIOLATION property=%s replay=%s" % (prop, p))
    analysed = dict(ctx.analysed)
    analysed["bodies"] = len(analysed["bodies"])
    analysed["crate_bodies_total"] = len(ctx.facts.fns)
    analysed["extraction"] = info
    analysed["config"] = ctx.facts.config
    extra = {"not_decided": spec.get("not_decided", ""), "release_cross_check": cross}
    engine.write_evidence(prop, tier, seed, insts, analysed, time.time() - t0, n_viol, matched,
                          spec["explanation"], rules_run, spec.get("assumptions", []), extra)
    if not quiet:
        ok = len([i for i in insts if i.ok])
        print("%s %s: %d rule instances, %d hold, %d known findings, %d violations (%.1fs; extraction %s)"
              % (prop, tier, len(insts), ok, len(matched), n_viol, time.time() - t0, "cached" if info.get("cached") else "%.1fs" % info.get("extract_s", 0)))
    return 1 if n_viol else 0


def explain(path):
    with open(path) as fh:
        r = json.load(fh)
    print("property : %s" % r.get("property"))
    print("rule     : %s (%s)" % (r.get("rule"), r.get("kind")))
    print("key      : %s" % r.get("key"))
    print("site     : %s" % r.get("site"))
    print("found    : %s" % r.get("fact"))
    print("wanted   : %s" % r.get("oracle"))
    for k, v in (r.get("detail") or {}).items():
        print("%-9s: %s" % (k, v))
    load_rules()
    rid = r.get("rule")
    if rid in engine.RULES:
        facts_path, info = extract.extract("/repo", "debug")
        ctx = Ctx(facts_path, "quick", None, info)
        print("--- re-running rule %s on the current tree" % rid)
        hit = False
        for i in engine.run_rule(rid, ctx):
            if not i.ok:
                print("  %s %s | %s | %s" % ("SAME " if i.key == r.get("key") else "other", i.key, i.site, i.fact))
                hit = hit or i.key == r.get("key")
        print("reported instance %s on the current tree" % ("still fails" if hit else "no longer fails"))
        return 1 if hit else 0
    return 0


# rules whose instances are the overflow-check sites themselves: they exist only in the overflow-checked build
DEBUG_ONLY_RULES = set()


def main(argv):
    if len(argv) >= 2 and argv[0] == "--explain":
        return explain(argv[1])
    if len(argv) < 1 or argv[0] not in PROPS:
        print("usage: check <C01..C17> <quick|thorough> | check --explain <report.json>")
        return 2
    tier = argv[1] if len(argv) > 1 else os.environ.get("VERIF_TIER", "quick")
    return run_property(argv[0], tier)


if __name__ == "__main__":
    sys.exit(main(sys.argv[1:]))
