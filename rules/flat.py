"""Flattening of MIR bodies: inlines crate-local helper functions, `async fn` helpers that are awaited on the
spot, closures handed to the std Option/Result/bool combinators (the combinator itself is expanded into the
`match` it abbreviates) and directly called closures.  The result has the same schema as a fact-base body, so
`mir.Body` and every rule works on it unchanged.

Why: rules that look at the *shape* of a handler (which arm, what dominates what, what is control dependent on
what) must give the same verdict whether a maintainer writes the arm inline, moves it into a private method,
or restyles `if let` as a combinator chain.  Flattening is the normal form in which those variants coincide.

Not inlined: functions listed in `keep` (the role anchors rules name explicitly, e.g. the framed write), anything
outside the crate, recursion, and anything beyond `max_depth`.
"""
import copy
import re

OPTION = "std::option::Option"
RESULT = "std::result::Result"


def _pl(l, p=None):
    return {"l": l, "p": list(p or [])}


def _mv(l, p=None):
    return {"k": "move", "pl": _pl(l, p)}


def _cp(l, p=None):
    return {"k": "copy", "pl": _pl(l, p)}


def _assign(lhs, rv, line):
    return {"k": "assign", "lhs": lhs, "rv": rv, "line": line, "exp": False}


def _use(op):
    return {"k": "use", "op": op}


def _goto(t, line):
    return {"k": "goto", "t": t, "line": line, "exp": False}


def _adt(adt, variant, vi, ops):
    return {"k": "agg", "what": "adt", "adt": adt, "variant": variant, "vi": vi, "args": [], "fields": [], "ops": ops}


def _dc(variant, vi, ty="?", adt=None):
    return [{"dc": variant, "vi": vi}, {"f": 0, "n": "0", "adt": adt, "ty": ty}]


VARIANTS = {OPTION: {"None": 0, "Some": 1}, RESULT: {"Ok": 0, "Err": 1}}


def split_generic(ty):
    """'std::result::Result<A<B, C>, D>' -> ['A<B, C>', 'D'] (top-level generic arguments)."""
    if not ty or "<" not in ty or not ty.endswith(">"):
        return []
    inner = ty[ty.index("<") + 1:-1]
    out, depth, cur = [], 0, ""
    for ch in inner:
        if ch in "<([":
            depth += 1
        elif ch in ">)]":
            depth -= 1
        if ch == "," and depth == 0:
            out.append(cur.strip())
            cur = ""
        else:
            cur += ch
    if cur.strip():
        out.append(cur.strip())
    return out


def payload_ty(self_ty, variant):
    a = split_generic(self_ty or "")
    if variant in ("Some", "Ok") and a:
        return a[0]
    if variant == "Err" and len(a) >= 2:
        return a[1]
    return "?"


class Flattener:
    def __init__(self, facts, keep=(), expand=True, max_depth=8, max_blocks=20000, thread=True, loops=True):
        self.facts = facts
        self.loops = loops          # `iter.try_for_each(f)` / `iter.for_each(f)` written out as the loop they are
        self.thread = thread
        self.keep = keep            # callable(path) -> bool, or a container of paths
        self.expand = expand
        self.max_depth = max_depth
        self.max_blocks = max_blocks
        self._cache = {}

    def kept(self, path):
        if callable(self.keep):
            return self.keep(path)
        return path in self.keep

    # ------------------------------------------------------------------------------------ public
    def flatten(self, path):
        if path in self._cache:
            return self._cache[path]
        src = self.facts.fn(path)
        if src is None:
            return None
        st = _State(self, src)
        st.run()
        if self.expand:
            st.int_matches()
        if self.thread:
            st.late_predicates()
            st.thread()
        self._cache[path] = st.fn
        return st.fn


class _State:
    def __init__(self, fl, src):
        self.fl = fl
        self.facts = fl.facts
        self.fn = {k: v for k, v in src.items() if k not in ("blocks", "locals", "debug")}
        self.fn["locals"] = copy.deepcopy(src["locals"])
        self.fn["debug"] = copy.deepcopy(src["debug"])
        self.fn["blocks"] = copy.deepcopy(src["blocks"])
        self.fn["flat"] = True
        self.fn["inlined"] = []
        for i, b in enumerate(self.fn["blocks"]):
            b["src"] = {"fn": src["path"], "bb": i, "file": src["file"]}
        self.locals = self.fn["locals"]
        self.blocks = self.fn["blocks"]
        self.meta = [(0, (src["path"],)) for _ in self.blocks]     # per block: (depth, call stack)
        self.work = list(range(len(self.blocks)))

    # ------------------------------------------------------------------------------------ helpers
    def new_local(self, ty, name=None):
        self.locals.append({"ty": ty, "adt": None, "user": False})
        l = len(self.locals) - 1
        if name:
            self.fn["debug"].append({"name": name, "pl": _pl(l), "arg": None})
        return l

    def new_block(self, stmts, term, like):
        b = {"stmts": stmts, "term": term, "cleanup": False, "src": dict(self.blocks[like]["src"])}
        self.blocks.append(b)
        self.meta.append(self.meta[like])
        self.work.append(len(self.blocks) - 1)
        return len(self.blocks) - 1

    def single_def(self, local):
        """The unique statement assigning the whole local, or None."""
        found = None
        for b in self.blocks:
            for st in b["stmts"]:
                if st["k"] == "assign" and st["lhs"]["l"] == local and not st["lhs"]["p"]:
                    if found is not None:
                        return None
                    found = st
            t = b["term"]
            if t["k"] == "call" and t["dest"]["l"] == local and not t["dest"]["p"]:
                return None
        return found

    def _holds_literals(self, local, depth=0):
        """The local is assigned enum literals (directly or through whole moves / payload projections of literals) on at
        least two paths."""
        n = 0
        for b in self.blocks:
            for st in b["stmts"]:
                if st["k"] == "assign" and st["lhs"]["l"] == local and not st["lhs"]["p"]:
                    rv = st["rv"]
                    if rv["k"] == "agg" and rv.get("what") == "adt" and "vi" in rv:
                        n += 1
                    elif rv["k"] == "use" and rv["op"].get("k") in ("move", "copy") and depth < 5:
                        if self._holds_literals(rv["op"]["pl"]["l"], depth + 1):
                            n += 2
                    else:
                        return False
            t = b["term"]
            if t["k"] == "call" and t["dest"]["l"] == local:
                return False
        return n >= 2

    def closure_of(self, op):
        """(closure def path, capture operands) for an operand holding a closure value (possibly through moves / a
        reference)."""
        seen = 0
        while op is not None and op.get("k") in ("move", "copy") and seen < 6:
            seen += 1
            pl = op["pl"]
            if pl["p"] not in ([], ["deref"]):
                return None
            st = self.single_def(pl["l"])
            if st is None:
                return None
            rv = st["rv"]
            if rv["k"] == "agg" and rv["what"] == "closure":
                return rv["def"], rv["ops"]
            if rv["k"] == "use":
                op = rv["op"]
            elif rv["k"] == "ref":
                op = {"k": "copy", "pl": rv["pl"]}
            else:
                return None
        return None

    # ------------------------------------------------------------------------------------ copying a callee
    @staticmethod
    def generic_subst(callee, call_callee):
        """{type parameter name: type at this call site} when the callee's type parameters can be read off its
        signature (bare identifiers such as `T`, `K`) and match the call's generic arguments in number."""
        targs = [a for a in (call_callee.get("args") or []) if isinstance(a, str) and not a.startswith("'")]
        gen = [g for g in (callee.get("generics") or []) if not g.startswith("'")]
        if gen and len(gen) == len(targs):
            # the declared parameter names (a parameter that occurs in the where-clauses only is still substituted)
            return {g: a for g, a in zip(gen, targs) if re.fullmatch(r"[A-Z]\w*", g) and g != "Self" and g != a} or None
        names = []
        for t in list(callee.get("sig_in") or []) + [callee.get("sig_out") or ""]:
            for m in re.finditer(r"(?<![\w:])([A-Z]\w*)(?![\w:<])", t or ""):
                if m.group(1) not in names and m.group(1) not in ("Self",):
                    names.append(m.group(1))
        if names and len(targs) > len(names) and (callee.get("impl_trait") or callee.get("impl_self")):
            # a method: the leading generic arguments belong to the impl (Self, its parameters), the method's own come last
            targs = targs[len(targs) - len(names):]
        if not names or len(names) != len(targs):
            return None
        return dict(zip(names, targs))

    @staticmethod
    def _apply_subst(obj, subst):
        pat = re.compile(r"(?<![\w:])(" + "|".join(re.escape(k) for k in subst) + r")(?![\w:<])")

        def fix(x):
            if isinstance(x, str):
                return pat.sub(lambda m: subst[m.group(1)], x)
            if isinstance(x, list):
                return [fix(y) for y in x]
            return x
        def walk(o):
            if isinstance(o, dict):
                for k in list(o):
                    if k in ("self_ty", "args", "resolved", "ty", "resolved_args") and o[k] is not None:
                        if k == "resolved" and isinstance(o[k], str) and fix(o[k]) != o[k]:
                            # the impl method a call was resolved to is named by its generic path in the fact base
                            o.setdefault("resolved_generic", o[k])
                        o[k] = fix(o[k])
                    else:
                        walk(o[k])
            elif isinstance(o, list):
                for y in o:
                    walk(y)
        walk(obj)

    def copy_body(self, callee, like, depth, stack, captures=None, args=None, line=0, subst=None):
        """Append a copy of `callee`'s blocks and locals. `captures`: operands for the environment fields
        (`_1.i`), `args`: operands for the ordinary parameters. Returns (entry_bb, ret_local, [return block ids],
        prologue statements to run before entry)."""
        loff = len(self.locals)
        boff = len(self.blocks)
        for l in callee["locals"]:
            self.locals.append(dict(l))
        for d in callee["debug"]:
            if not d["pl"]["p"]:
                self.fn["debug"].append({"name": d["name"], "pl": _pl(d["pl"]["l"] + loff), "arg": None})
        env = callee["kind"] in ("closure", "coroutine")
        pro = []
        cap_places = {}
        if env and captures is not None:
            for i, op in enumerate(captures):
                if op.get("k") in ("move", "copy"):
                    # a fresh temporary keeps the value alive across later re-assignments of the source local
                    t = self.new_local("?capture")
                    pro.append(_assign(_pl(t), _use({"k": "copy", "pl": copy.deepcopy(op["pl"])}), line))
                    cap_places[i] = _pl(t)
                else:
                    t = self.new_local("?capture")
                    pro.append(_assign(_pl(t), _use(copy.deepcopy(op)), line))
                    cap_places[i] = _pl(t)
        first_param = 2 if env else 1
        if callee["kind"] == "coroutine":
            first_param = 3         # _1 env, _2 resume argument
        if args is not None:
            for i, op in enumerate(args):
                pro.append(_assign(_pl(loff + first_param + i), _use(copy.deepcopy(op)), line))

        def map_place(pl):
            l = pl["l"]
            p = pl["p"]
            if env and l == 1 and cap_places:
                q = list(p)
                if q and q[0] == "deref":
                    q = q[1:]
                if q and isinstance(q[0], dict) and "f" in q[0] and q[0]["f"] in cap_places:
                    base = cap_places[q[0]["f"]]
                    return {"l": base["l"], "p": list(base["p"]) + [self._map_proj(x, loff) for x in q[1:]]}
            return {"l": l + loff, "p": [self._map_proj(x, loff) for x in p]}

        rets = []
        if subst:
            for l in self.locals[loff:loff + len(callee["locals"])]:
                self._apply_subst(l, subst)
        for i, b in enumerate(callee["blocks"]):
            nb = copy.deepcopy(b)
            if subst:
                self._apply_subst(nb, subst)
            self._walk(nb, map_place, boff)
            nb["src"] = {"fn": callee["path"], "bb": i, "file": callee["file"]}
            self.blocks.append(nb)
            self.meta.append((depth, stack))
            self.work.append(len(self.blocks) - 1)
            if nb["term"]["k"] == "return" and not nb["cleanup"]:
                rets.append(len(self.blocks) - 1)
        self.fn["inlined"].append(callee["path"])
        return boff, loff, rets, pro

    def _map_proj(self, x, loff):
        if isinstance(x, dict) and "idx" in x:
            y = dict(x)
            y["idx"] = x["idx"] + loff
            return y
        return x

    def _walk(self, block, map_place, boff):
        def op(o):
            if o is None:
                return
            if o.get("k") in ("move", "copy"):
                o["pl"] = map_place(o["pl"])

        def rv(r):
            k = r["k"]
            if k in ("use", "repeat", "cast"):
                op(r["op"])
            elif k in ("ref", "rawptr", "discr"):
                r["pl"] = map_place(r["pl"])
            elif k == "bin":
                op(r["a"])
                op(r["b"])
            elif k == "un":
                op(r["a"])
            elif k == "agg":
                for o in r["ops"]:
                    op(o)
        for st in block["stmts"]:
            st["lhs"] = map_place(st["lhs"])
            if st["k"] == "assign":
                rv(st["rv"])
        t = block["term"]
        k = t["k"]
        for key in ("t", "otherwise", "imag"):
            if isinstance(t.get(key), int):
                t[key] = t[key] + boff
        if k == "switch":
            op(t["op"])
            t["targets"] = [[v, bb + boff] for v, bb in t["targets"]]
        elif k == "call":
            op(t["fn_op"])
            for o in t["ops"]:
                op(o)
            t["dest"] = map_place(t["dest"])
        elif k == "tailcall":
            for o in t["ops"]:
                op(o)
        elif k == "drop":
            t["pl"] = map_place(t["pl"])
        elif k == "assert":
            op(t["cond"])
            for o in t.get("ops", []):
                op(o)
        elif k == "yield":
            op(t["value"])
            if t.get("resume_arg"):
                t["resume_arg"] = map_place(t["resume_arg"])

    # ------------------------------------------------------------------------------------ main loop
    def run(self):
        while self.work:
            if len(self.blocks) > self.fl.max_blocks:
                break
            i = self.work.pop()
            b = self.blocks[i]
            if b["cleanup"]:
                continue
            t = b["term"]
            if t["k"] == "call" and t.get("t") is not None and not t.get("callee") and t.get("fn_op"):
                # a call through a function pointer whose value is known here (`variant(x)` with `variant` the constructor
                # `Property::UserProperty` handed to an inlined generic helper): the call of that function; for the
                # constructor of an enum variant, the literal it builds
                self._devirtualise(i, b, t)
                t = b["term"]
            if t["k"] != "call" or t.get("t") is None or not t.get("callee"):
                continue
            depth, stack = self.meta[i]
            if depth >= self.fl.max_depth:
                continue
            c = t["callee"]
            if not c.get("resolved") and c.get("trait") and c.get("self_ty"):
                self._resolve_trait_call(c)
            path = c.get("resolved") or c["def"]
            if self.facts.fn(path) is None and c.get("resolved_generic") and self.facts.fn(c["resolved_generic"]) is not None:
                path = c["resolved_generic"]
            if self.fl.loops and c.get("krate") in ("core", "std", "alloc") and c["def"] in ("std::iter::Iterator::try_for_each", "std::iter::Iterator::for_each") \
                    and self._expand_iter_loop(i, b, t, c, depth, stack):
                continue
            if self.fl.loops and c.get("krate") in ("core", "std", "alloc") and c["def"] == "std::iter::Iterator::fold" and self._expand_fold_literal(i, b, t, c, depth, stack):
                continue
            if self.fl.expand and c.get("krate") in ("core", "std", "alloc") and self._expand(i, b, t, c, depth, stack):
                continue
            callee = self.facts.fn(path)
            if callee is None and c["def"] in ("std::ops::FnOnce::call_once", "std::ops::FnMut::call_mut", "std::ops::Fn::call") and t["ops"]:
                # a closure handed to an inlined generic helper (`fn with<F: FnOnce(..)>(self, f: F) { f(..) }`): the call
                # through the type parameter is a call of the closure the caller passed
                cl_ = self.closure_of(t["ops"][0])
                if cl_ is not None and self.facts.fn(cl_[0]) is not None and cl_[0] not in stack and not self.fl.kept(cl_[0]):
                    self._inline_closure_call(i, b, t, self.facts.fn(cl_[0]), depth, stack)
                continue
            if callee is None or path in stack or self.fl.kept(path):
                continue
            if callee["kind"] == "closure":
                self._inline_closure_call(i, b, t, callee, depth, stack)
                continue
            if callee["kind"] != "fn":
                continue
            co = self.facts.fn(path + "::{closure#0}")
            if co is not None and co["kind"] == "coroutine" and self._is_async_shell(callee):
                self._inline_await(i, b, t, callee, co, depth, stack)
                continue
            self._inline_sync(i, b, t, callee, depth, stack)

    def _resolve_trait_call(self, c):
        """A call of a crate-local trait method on a type parameter of an inlined generic helper: once the parameter is
        replaced by the caller's type, the impl that the call dispatches to can be looked up."""
        st = re.sub(r"<.*$", "", (c.get("self_ty") or "").lstrip("&").replace("mut ", "").strip())
        if not st or not re.match(r"[a-z_]+::", st):
            return
        idx = self.facts.__dict__.get("_impl_index")
        if idx is None:
            idx = {}
            for im in self.facts.impls:
                tr = im.get("trait")
                if tr and im.get("self_adt"):
                    for it in im["items"]:
                        if it["kind"] == "fn":
                            idx[(tr["path"], re.sub(r"<.*$", "", im["self_adt"]), it["name"])] = it["def"]
            self.facts.__dict__["_impl_index"] = idx
        d = idx.get((c["trait"], st, c.get("name")))
        if d:
            c["resolved"] = d

    def int_matches(self):
        """`match n { A => .., B => .., _ => .. }` on a computed integer is the chain `if n == A { .. } else if n == B { .. }
        else { .. }`: a switch with several listed integer values (not a discriminant read, not a bool) is rewritten
        into that chain of comparisons, the one form the rules read."""
        for i in range(len(self.blocks)):
            b = self.blocks[i]
            t = b["term"]
            if b["cleanup"] or t is None or t["k"] != "switch" or t.get("ty") in ("bool", "isize") or len(t["targets"]) < 2 or t["otherwise"] is None:
                continue
            op = t["op"]
            if op.get("k") not in ("move", "copy") or op["pl"]["p"]:
                continue
            l = op["pl"]["l"]
            d = self.single_def(l)
            if d is not None and d["rv"]["k"] == "discr":
                continue
            if not all(isinstance(v, int) for v, _ in t["targets"]):
                continue
            line = t.get("line", 0)
            ty = t.get("ty") or self.locals[l]["ty"]
            nxt = t["otherwise"]
            # build from the last listed value backwards
            for v, tgt in reversed(t["targets"][1:]):
                flag = self.new_local("bool")
                nb = self.new_block([_assign(_pl(flag), {"k": "bin", "op": "Eq", "checked": False, "a": _cp(l), "b": {"k": "const", "ty": ty, "val": v, "uneval": None, "fn": None}}, line)],
                                    {"k": "switch", "op": _mv(flag), "ty": "bool", "targets": [[0, nxt]], "otherwise": tgt, "line": line, "exp": False, "expanded": "int_match"}, i)
                nxt = nb
            v0, tgt0 = t["targets"][0]
            flag = self.new_local("bool")
            b["stmts"] = b["stmts"] + [_assign(_pl(flag), {"k": "bin", "op": "Eq", "checked": False, "a": _cp(l), "b": {"k": "const", "ty": ty, "val": v0, "uneval": None, "fn": None}}, line)]
            b["term"] = {"k": "switch", "op": _mv(flag), "ty": "bool", "targets": [[0, nxt]], "otherwise": tgt0, "line": line, "exp": False, "expanded": "int_match"}

    def _expand_checked_arith(self, i, b, t, c):
        """`a.checked_sub(b)` is `if a < b { None } else { Some(a - b) }` (checked_add: by the type's maximum)."""
        m = re.search(r"num::<impl (u8|u16|u32|u64|usize)>::checked_(sub|add)$", c["def"])
        if not m or len(t["ops"]) != 2:
            return False
        ty, what = m.group(1), m.group(2)
        line = t.get("line", 0)
        dest, target = t["dest"], t["t"]
        a, bop = t["ops"]
        flag = self.new_local("bool")
        res = self.new_local(ty)
        none_b = self.new_block([_assign(copy.deepcopy(dest), _adt(OPTION, "None", 0, []), line)], _goto(target, line), i)
        if what == "sub":
            some_b = self.new_block([_assign(_pl(res), {"k": "bin", "op": "Sub", "checked": False, "a": copy.deepcopy(a), "b": copy.deepcopy(bop)}, line),
                                     _assign(copy.deepcopy(dest), _adt(OPTION, "Some", 1, [_mv(res)]), line)], _goto(target, line), i)
            b["stmts"] = b["stmts"] + [_assign(_pl(flag), {"k": "bin", "op": "Lt", "checked": False, "a": copy.deepcopy(a), "b": copy.deepcopy(bop)}, line)]
            b["term"] = {"k": "switch", "op": _mv(flag), "ty": "bool", "targets": [[0, some_b]], "otherwise": none_b, "line": line, "exp": False, "expanded": c["def"]}
            return True
        mx = {"u8": 2 ** 8 - 1, "u16": 2 ** 16 - 1, "u32": 2 ** 32 - 1, "u64": 2 ** 64 - 1, "usize": 2 ** 64 - 1}[ty]
        room = self.new_local(ty)
        some_b = self.new_block([_assign(_pl(res), {"k": "bin", "op": "Add", "checked": False, "a": copy.deepcopy(a), "b": copy.deepcopy(bop)}, line),
                                 _assign(copy.deepcopy(dest), _adt(OPTION, "Some", 1, [_mv(res)]), line)], _goto(target, line), i)
        b["stmts"] = b["stmts"] + [_assign(_pl(room), {"k": "bin", "op": "Sub", "checked": False, "a": {"k": "const", "ty": ty, "val": mx, "uneval": None, "fn": None}, "b": copy.deepcopy(bop)}, line),
                                   _assign(_pl(flag), {"k": "bin", "op": "Gt", "checked": False, "a": copy.deepcopy(a), "b": _cp(room)}, line)]
        b["term"] = {"k": "switch", "op": _mv(flag), "ty": "bool", "targets": [[0, some_b]], "otherwise": none_b, "line": line, "exp": False, "expanded": c["def"]}
        return True

    def late_predicates(self):
        """Second phase, once every combinator has been expanded: `is_some()` / `is_none()` / `is_ok()` / `is_err()` on a
        local that now holds enum literals on its incoming paths."""
        self._late = True
        for i in range(len(self.blocks)):
            b = self.blocks[i]
            t = b["term"]
            if b["cleanup"] or t["k"] != "call" or t.get("t") is None or not t.get("callee"):
                continue
            c = t["callee"]
            if c.get("krate") in ("core", "std", "alloc") and re.search(r"::is_(some|none|ok|err)$", c["def"]):
                depth, stack = self.meta[i]
                self._expand(i, b, t, c, depth, stack)

    def _is_async_shell(self, f):
        n = 0
        for b in f["blocks"]:
            if b["cleanup"]:
                continue
            for st in b["stmts"]:
                if st["k"] == "assign" and st["rv"]["k"] == "agg" and st["rv"]["what"] == "coroutine" and st["lhs"]["l"] == 0:
                    n += 1
                elif st["k"] == "assign":
                    return False
            if b["term"]["k"] == "call":
                return False
        return n == 1

    def _inline_sync(self, i, b, t, callee, depth, stack):
        line = t.get("line", 0)
        subst = self.generic_subst(callee, t.get("callee") or {})
        entry, loff, rets, pro = self.copy_body(callee, i, depth + 1, stack + (callee["path"],), args=t["ops"], line=line, subst=subst)
        b["stmts"] = b["stmts"] + pro
        dest, target = t["dest"], t["t"]
        for r in rets:
            rb = self.blocks[r]
            rb["stmts"].append(_assign(copy.deepcopy(dest), _use(_mv(loff)), line))
            rb["term"] = _goto(target, line)
        b["term"] = _goto(entry, line)
        b["term"]["inlined_call"] = callee["path"]

    def _inline_closure_call(self, i, b, t, callee, depth, stack):
        """`Fn*::call*(closure, (args,))` with a statically known closure value."""
        line = t.get("line", 0)
        if len(t["ops"]) != 2:
            return
        cl = self.closure_of(t["ops"][0])
        if cl is None or cl[0] != callee["path"]:
            return
        tup = t["ops"][1]
        args = None
        if tup.get("k") in ("move", "copy") and not tup["pl"]["p"]:
            st = self.single_def(tup["pl"]["l"])
            if st is not None and st["rv"]["k"] == "agg" and st["rv"]["what"] == "tuple":
                args = st["rv"]["ops"]
        if args is None:
            return
        self._splice_closure(i, b, callee, cl[1], args, t["dest"], t["t"], depth, stack, line)

    def _splice_closure(self, i, b, callee, captures, args, dest, target, depth, stack, line, wrap=None):
        """Replace b's terminator by the closure body; its result goes to `dest` (optionally wrapped:
        wrap=(adt, variant)) and control continues at `target`."""
        entry, loff, rets, pro = self.copy_body(callee, i, depth + 1, stack + (callee["path"],), captures=captures, args=args, line=line)
        b["stmts"] = b["stmts"] + pro
        for r in rets:
            rb = self.blocks[r]
            if wrap:
                rb["stmts"].append(_assign(copy.deepcopy(dest), _adt(wrap[0], wrap[1], VARIANTS[wrap[0]][wrap[1]], [_mv(loff)]), line))
            else:
                rb["stmts"].append(_assign(copy.deepcopy(dest), _use(_mv(loff)), line))
            rb["term"] = _goto(target, line)
        b["term"] = _goto(entry, line)
        b["term"]["inlined_call"] = callee["path"]

    def _inline_await(self, i, b, t, shell, co, depth, stack):
        """`helper(args).await`: the poll of the helper's coroutine is replaced by the coroutine body."""
        line = t.get("line", 0)
        # capture order: the shell's aggregate operands, each `move _k` of parameter k
        order = None
        for sb in shell["blocks"]:
            for st in sb["stmts"]:
                if st["k"] == "assign" and st["rv"]["k"] == "agg" and st["rv"]["what"] == "coroutine":
                    order = []
                    for o in st["rv"]["ops"]:
                        if o.get("k") in ("move", "copy") and not o["pl"]["p"] and 1 <= o["pl"]["l"] <= shell["arg_count"]:
                            order.append(o["pl"]["l"] - 1)
                        else:
                            return
        if order is None:
            return
        # forward scan from the call's target to the poll of this coroutine
        cur = t["t"]
        poll = None
        for _ in range(10):
            tb = self.blocks[cur]
            tt = tb["term"]
            if tt["k"] == "call" and tt.get("callee") and (tt["callee"].get("resolved") or tt["callee"]["def"]) == co["path"]:
                poll = cur
                break
            if tt["k"] in ("goto", "falseunwind", "drop") or (tt["k"] == "call" and tt.get("t") is not None):
                cur = tt["t"]
            else:
                return
        if poll is None:
            return
        pt = self.blocks[poll]["term"]
        after = pt["t"]
        ready = after
        ab = self.blocks[after]
        at = ab["term"]
        if at["k"] == "switch" and len(ab["stmts"]) == 1 and ab["stmts"][0]["k"] == "assign" and ab["stmts"][0]["rv"]["k"] == "discr":
            for v, bb in at["targets"]:
                if v == 0:
                    ready = bb
        captures = [t["ops"][k] for k in order]
        entry, loff, rets, pro = self.copy_body(co, i, depth + 1, stack + (shell["path"], co["path"]), captures=captures, line=line)
        b["stmts"] = b["stmts"] + pro
        # the resume argument of the inlined coroutine is the caller's task context (irrelevant to the rules)
        for r in rets:
            rb = self.blocks[r]
            rb["stmts"].append(_assign(copy.deepcopy(pt["dest"]), _adt("std::task::Poll", "Ready", 0, [_mv(loff)]), line))
            rb["term"] = _goto(ready, line)
        b["term"] = _goto(entry, line)
        b["term"]["inlined_call"] = shell["path"]
        b["term"]["inlined_await"] = True

    # ------------------------------------------------------------------------------------ std combinators
    def _expand(self, i, b, t, c, depth, stack):
        name = c["def"]
        if "::checked_" in name and self._expand_checked_arith(i, b, t, c):
            return True
        if re.match(r"std::task::Poll::<[^>]*>::map$", name):
            return self._expand_poll_map(i, b, t, c, depth, stack)
        if name == "std::ops::Try::branch" and self.fl.thread:
            return self._expand_try_branch(i, b, t, c)
        if name == "std::ops::FromResidual::from_residual" and self.fl.thread:
            return self._expand_from_residual(i, b, t, c)
        m = re.match(r"std::(option::Option|result::Result)::<[^>]*>::(\w+)$", name)
        if not m:
            if name == "std::bool::<impl bool>::then" or name.endswith("::<impl bool>::then"):
                return self._expand_bool_then(i, b, t, depth, stack)
            return False
        adt = OPTION if m.group(1).startswith("option") else RESULT
        meth = m.group(2)
        ops = t["ops"]
        line = t.get("line", 0)
        if not ops or ops[0].get("k") not in ("move", "copy"):
            return False
        x = ops[0]["pl"]
        dest, target = t["dest"], t["t"]
        pos, neg = ("Some", "None") if adt == OPTION else ("Ok", "Err")
        V = VARIANTS[adt]

        def closure(k):
            """The callable handed to the combinator: (closure body, captures) or ('fn', fn-item operand)."""
            if len(ops) <= k:
                return None
            o = ops[k]
            if o.get("k") == "const" and o.get("fn"):
                return ("fn", o)
            cl = self.closure_of(o)
            if cl is None:
                return None
            f = self.facts.fn(cl[0])
            if f is None or f["kind"] != "closure" or cl[0] in stack:
                return None
            return f, cl[1]

        xty = c.get("self_ty") or ""

        def payload(variant):
            return {"l": x["l"], "p": list(x["p"]) + _dc(variant, V[variant], ty=payload_ty(xty, variant), adt=adt)}

        def switch_on_x(on_pos, on_neg):
            d = self.new_local("isize")
            dead = self.new_block([], {"k": "unreachable", "line": line, "exp": False}, i)
            b["stmts"] = b["stmts"] + [_assign(_pl(d), {"k": "discr", "pl": copy.deepcopy(x), "adt": adt}, line)]
            b["term"] = {"k": "switch", "op": _mv(d), "ty": "isize", "targets": [[V[pos], on_pos], [V[neg], on_neg]] if V[pos] < V[neg] else [[V[neg], on_neg], [V[pos], on_pos]],
                         "otherwise": dead, "line": line, "exp": False, "expanded": name}

        def blk(stmts):
            return self.new_block(stmts, _goto(target, line), i)

        def closure_block(cl, args, wrap=None):
            nb = self.new_block([], _goto(target, line), i)
            if cl[0] == "fn":
                # a function item (`map_err(MqttError::from)`): an ordinary call; it may be inlined in its turn
                fo = cl[1]
                if wrap:
                    tmp = self.new_local("?mapped")
                    fin = self.new_block([_assign(copy.deepcopy(dest), _adt(wrap[0], wrap[1], VARIANTS[wrap[0]][wrap[1]], [_mv(tmp)]), line)], _goto(target, line), i)
                    cdest, ctarget = _pl(tmp), fin
                else:
                    cdest, ctarget = copy.deepcopy(dest), target
                self.blocks[nb]["term"] = {"k": "call", "callee": copy.deepcopy(fo["fn"]), "fn_op": copy.deepcopy(fo), "ops": [copy.deepcopy(a) for a in args],
                                           "dest": cdest, "t": ctarget, "cline": line, "cexp": False, "line": line, "exp": False}
                return nb
            self._splice_closure(nb, self.blocks[nb], cl[0], cl[1], args, dest, target, depth, stack, line, wrap=wrap)
            return nb

        # ---- closure-free combinators
        if meth in ("is_some", "is_ok", "is_none", "is_err") and len(ops) == 1 and self.fl.thread and getattr(self, "_late", False):
            # only when the tested value is a local that was just given an enum literal on several incoming paths (the
            # shape an expanded map / filter / ok_or leaves): the test is then decided per path by jump threading.
            # A test of a field or of a call result stays a call (cond.Cond normalises those).
            ref_def = self.single_def(x["l"]) if not x["p"] else None
            if ref_def is None or ref_def["rv"]["k"] != "ref" or ref_def["rv"]["pl"]["p"]:
                return False
            tested = ref_def["rv"]["pl"]["l"]
            if not self._holds_literals(tested):
                return False
            x = {"l": tested, "p": []}
            truth_pos = meth in ("is_some", "is_ok")
            bp = blk([_assign(copy.deepcopy(dest), _use({"k": "const", "ty": "bool", "val": truth_pos, "uneval": None, "fn": None}), line)])
            bn = blk([_assign(copy.deepcopy(dest), _use({"k": "const", "ty": "bool", "val": not truth_pos, "uneval": None, "fn": None}), line)])
            switch_on_x(bp, bn)
            return True
        if meth == "unwrap_or" and len(ops) == 2:
            bp = blk([_assign(copy.deepcopy(dest), _use({"k": "move", "pl": payload(pos)}), line)])
            bn = blk([_assign(copy.deepcopy(dest), _use(copy.deepcopy(ops[1])), line)])
            switch_on_x(bp, bn)
            return True
        if meth == "ok_or" and adt == OPTION and len(ops) == 2:
            bp = blk([_assign(copy.deepcopy(dest), _adt(RESULT, "Ok", 0, [{"k": "move", "pl": payload("Some")}]), line)])
            bn = blk([_assign(copy.deepcopy(dest), _adt(RESULT, "Err", 1, [copy.deepcopy(ops[1])]), line)])
            switch_on_x(bp, bn)
            return True
        if meth == "ok" and adt == RESULT and len(ops) == 1:
            bp = blk([_assign(copy.deepcopy(dest), _adt(OPTION, "Some", 1, [{"k": "move", "pl": payload("Ok")}]), line)])
            bn = blk([_assign(copy.deepcopy(dest), _adt(OPTION, "None", 0, []), line)])
            switch_on_x(bp, bn)
            return True
        if meth == "err" and adt == RESULT and len(ops) == 1:
            bp = blk([_assign(copy.deepcopy(dest), _adt(OPTION, "None", 0, []), line)])
            bn = blk([_assign(copy.deepcopy(dest), _adt(OPTION, "Some", 1, [{"k": "move", "pl": payload("Err")}]), line)])
            switch_on_x(bp, bn)
            return True
        # ---- combinators taking one closure
        if meth in ("map", "and_then", "filter", "map_err", "or_else", "ok_or_else", "unwrap_or_else", "is_some_and", "is_ok_and", "inspect") and len(ops) == 2:
            cl = closure(1)
            if cl is None:
                return False
            if meth == "map":
                bp = closure_block(cl, [{"k": "move", "pl": payload(pos)}], wrap=(adt, pos))
                if adt == OPTION:
                    bn = blk([_assign(copy.deepcopy(dest), _adt(OPTION, "None", 0, []), line)])
                else:
                    bn = blk([_assign(copy.deepcopy(dest), _adt(RESULT, "Err", 1, [{"k": "move", "pl": payload("Err")}]), line)])
                switch_on_x(bp, bn)
                return True
            if meth == "and_then":
                bp = closure_block(cl, [{"k": "move", "pl": payload(pos)}])
                if adt == OPTION:
                    bn = blk([_assign(copy.deepcopy(dest), _adt(OPTION, "None", 0, []), line)])
                else:
                    bn = blk([_assign(copy.deepcopy(dest), _adt(RESULT, "Err", 1, [{"k": "move", "pl": payload("Err")}]), line)])
                switch_on_x(bp, bn)
                return True
            if meth == "map_err" and adt == RESULT:
                bp = blk([_assign(copy.deepcopy(dest), _adt(RESULT, "Ok", 0, [{"k": "move", "pl": payload("Ok")}]), line)])
                bn = closure_block(cl, [{"k": "move", "pl": payload("Err")}], wrap=(RESULT, "Err"))
                switch_on_x(bp, bn)
                return True
            if meth == "or_else":
                if adt == OPTION:
                    bp = blk([_assign(copy.deepcopy(dest), _adt(OPTION, "Some", 1, [{"k": "move", "pl": payload("Some")}]), line)])
                    bn = closure_block(cl, [])
                else:
                    bp = blk([_assign(copy.deepcopy(dest), _adt(RESULT, "Ok", 0, [{"k": "move", "pl": payload("Ok")}]), line)])
                    bn = closure_block(cl, [{"k": "move", "pl": payload("Err")}])
                switch_on_x(bp, bn)
                return True
            if meth == "ok_or_else" and adt == OPTION:
                bp = blk([_assign(copy.deepcopy(dest), _adt(RESULT, "Ok", 0, [{"k": "move", "pl": payload("Some")}]), line)])
                bn = closure_block(cl, [], wrap=(RESULT, "Err"))
                switch_on_x(bp, bn)
                return True
            if meth == "unwrap_or_else":
                bp = blk([_assign(copy.deepcopy(dest), _use({"k": "move", "pl": payload(pos)}), line)])
                bn = closure_block(cl, [] if adt == OPTION else [{"k": "move", "pl": payload("Err")}])
                switch_on_x(bp, bn)
                return True
            if meth == "filter" and adt == OPTION and cl[0] != "fn":
                # Some(v) if pred(&v) => Some(v), otherwise None
                keep_ = self.new_local("bool")
                r = self.new_local("&?payload")
                yes = blk([_assign(copy.deepcopy(dest), _adt(OPTION, "Some", 1, [{"k": "move", "pl": payload("Some")}]), line)])
                no = blk([_assign(copy.deepcopy(dest), _adt(OPTION, "None", 0, []), line)])
                dec = self.new_block([], {"k": "switch", "op": _mv(keep_), "ty": "bool", "targets": [[0, no]], "otherwise": yes, "line": line, "exp": False}, i)
                pre = self.new_block([_assign(_pl(r), {"k": "ref", "mut": False, "fake": False, "pl": payload("Some")}, line)], _goto(dec, line), i)
                self._splice_closure(pre, self.blocks[pre], cl[0], cl[1], [_mv(r)], _pl(keep_), dec, depth, stack, line)
                none = blk([_assign(copy.deepcopy(dest), _adt(OPTION, "None", 0, []), line)])
                switch_on_x(pre, none)
                return True
            if meth in ("is_some_and", "is_ok_and"):
                bp = closure_block(cl, [{"k": "move", "pl": payload(pos)}])
                bn = blk([_assign(copy.deepcopy(dest), _use({"k": "const", "ty": "bool", "val": False, "uneval": None, "fn": None}), line)])
                switch_on_x(bp, bn)
                return True
            return False
        if meth in ("map_or",) and len(ops) == 3:
            cl = closure(2)
            if cl is None:
                return False
            bp = closure_block(cl, [{"k": "move", "pl": payload(pos)}])
            bn = blk([_assign(copy.deepcopy(dest), _use(copy.deepcopy(ops[1])), line)])
            switch_on_x(bp, bn)
            return True
        if meth in ("map_or_else",) and len(ops) == 3:
            cd, cf = closure(1), closure(2)
            if cd is None or cf is None:
                return False
            bp = closure_block(cf, [{"k": "move", "pl": payload(pos)}])
            bn = closure_block(cd, [] if adt == OPTION else [{"k": "move", "pl": payload("Err")}])
            switch_on_x(bp, bn)
            return True
        return False

    def _expand_iter_loop(self, i, b, t, c, depth, stack):
        """`iter.try_for_each(f)` is `loop { match iter.next() { None => break Ok(()), Some(x) => f(x)? } }` and
        `iter.for_each(f)` the same without the `?`: written out, with the closure body in place of the call."""
        ops = t["ops"]
        line = t.get("line", 0)
        if len(ops) != 2 or ops[0].get("k") not in ("move", "copy") or ops[0]["pl"]["p"]:
            return False
        cl = self.closure_of(ops[1])
        if cl is None:
            return False
        f = self.facts.fn(cl[0])
        if f is None or f["kind"] != "closure" or cl[0] in stack or f["arg_count"] != 2:
            return False
        tryf = c["def"].endswith("try_for_each")
        args = c.get("args") or []
        self_ty = c.get("self_ty") or (args[0] if args else "?")
        rty = args[2] if len(args) > 2 else "()"
        if tryf and rty.startswith("std::result::Result<"):
            radt = RESULT
        elif tryf and rty.startswith("std::option::Option<"):
            radt = OPTION
        elif tryf:
            return False
        item_ty = f["locals"][2]["ty"]
        dest, target = t["dest"], t["t"]
        it_op = ops[0]
        if tryf:
            itref = it_op        # `&mut self`
        else:
            # for_each takes the iterator by value
            loc = self.new_local("&mut " + self_ty)
            b["stmts"] = b["stmts"] + [_assign(_pl(loc), {"k": "ref", "mut": True, "fake": False, "pl": copy.deepcopy(it_op["pl"])}, line)]
            itref = _cp(loc)
        item = self.new_local("std::option::Option<%s>" % item_ty)
        d = self.new_local("isize")
        r = self.new_local(rty if tryf else "()")
        dead = self.new_block([], {"k": "unreachable", "line": line, "exp": False}, i)
        callee = {"def": "std::iter::Iterator::next", "name": "next", "krate": "core", "args": [self_ty], "self_ty": self_ty, "trait": "std::iter::Iterator",
                  "resolved": "<%s as std::iter::Iterator>::next" % self_ty, "resolved_args": [], "synth": "iter_loop"}
        sw = self.new_block([_assign(_pl(d), {"k": "discr", "pl": _pl(item), "adt": OPTION}, line)], None, i)
        head = self.new_block([], {"k": "call", "callee": callee, "fn_op": {"k": "const", "ty": "fn", "val": None, "uneval": None, "fn": callee},
                                   "ops": [{"k": "copy", "pl": copy.deepcopy(itref["pl"])}], "dest": _pl(item), "t": sw, "cline": line, "cexp": False, "line": line, "exp": False,
                                   "expanded": "iter_loop"}, i)
        if tryf:
            if radt == RESULT:
                fin = _adt(RESULT, "Ok", 0, [{"k": "const", "ty": "()", "val": None, "uneval": None, "fn": None}])
            else:
                fin = _adt(OPTION, "Some", 1, [{"k": "const", "ty": "()", "val": None, "uneval": None, "fn": None}])
            done = self.new_block([_assign(copy.deepcopy(dest), fin, line)], _goto(target, line), i)
            V = VARIANTS[radt]
            pos, neg = ("Ok", "Err") if radt == RESULT else ("Some", "None")
            if radt == RESULT:
                brk_rv = _adt(RESULT, "Err", 1, [{"k": "move", "pl": {"l": r, "p": _dc("Err", 1, ty=payload_ty(rty, "Err"), adt=RESULT)}}])
            else:
                brk_rv = _adt(OPTION, "None", 0, [])
            brk = self.new_block([_assign(copy.deepcopy(dest), brk_rv, line)], _goto(target, line), i)
            d2 = self.new_local("isize")
            chk = self.new_block([_assign(_pl(d2), {"k": "discr", "pl": _pl(r), "adt": radt}, line)],
                                 {"k": "switch", "op": _mv(d2), "ty": "isize", "targets": sorted([[V[pos], head], [V[neg], brk]]), "otherwise": dead, "line": line, "exp": False,
                                  "expanded": "iter_loop"}, i)
        else:
            done = self.new_block([_assign(copy.deepcopy(dest), _use({"k": "const", "ty": "()", "val": None, "uneval": None, "fn": None}), line)], _goto(target, line), i)
            chk = head
        body = self.new_block([], _goto(chk, line), i)
        self._splice_closure(body, self.blocks[body], f, cl[1], [{"k": "move", "pl": {"l": item, "p": _dc("Some", 1, ty=item_ty, adt=OPTION)}}], _pl(r), chk, depth, stack, line)
        self.blocks[sw]["term"] = {"k": "switch", "op": _mv(d), "ty": "isize", "targets": [[0, done], [1, body]], "otherwise": dead, "line": line, "exp": False, "expanded": "iter_loop"}
        b["term"] = _goto(head, line)
        b["term"]["expanded"] = c["def"]
        return True

    def _fn_item_of(self, op):
        for _ in range(10):
            if op is None:
                return None
            if op.get("k") == "const":
                return op.get("fn")
            if op.get("k") not in ("move", "copy") or [p for p in op["pl"]["p"] if p != "deref"]:
                return None
            st = self.single_def(op["pl"]["l"])
            if st is None:
                return None
            rv = st["rv"]
            if rv["k"] in ("use", "cast"):
                op = rv["op"]
            elif rv["k"] == "ref":
                op = {"k": "copy", "pl": rv["pl"]}
            else:
                return None
        return None

    def _devirtualise(self, i, b, t):
        fn = self._fn_item_of(t["fn_op"])
        if not fn or not fn.get("def"):
            return
        line = t.get("line", 0)
        path = fn["def"]
        parent, _, vname = path.rpartition("::")
        adt = self.facts.adt(parent) if hasattr(self.facts, "adt") else None
        if adt is not None and adt["kind"] == "enum" and self.facts.fn(path) is None:
            vi = next((k for k, v in enumerate(adt["variants"]) if v["name"] == vname), None)
            if vi is not None and len(adt["variants"][vi]["fields"]) == len(t["ops"]):
                b["stmts"] = b["stmts"] + [_assign(copy.deepcopy(t["dest"]), _adt(parent, vname, vi, [copy.deepcopy(o) for o in t["ops"]]), line)]
                b["term"] = _goto(t["t"], line)
                return
        t["callee"] = copy.deepcopy(fn)

    def call_def(self, local):
        """The unique call terminator whose destination is the whole local, or None."""
        found = None
        for blk in self.blocks:
            t = blk["term"]
            if t and t["k"] == "call" and t["dest"]["l"] == local and not t["dest"]["p"]:
                if found is not None:
                    return None
                found = t
        for blk in self.blocks:
            for st in blk["stmts"]:
                if st["k"] == "assign" and st["lhs"]["l"] == local and not st["lhs"]["p"]:
                    return None
        return found

    def _expand_fold_literal(self, i, b, t, c, depth, stack):
        """`[a, b, c].iter().fold(init, f)` over an array literal written in the function is f(f(f(init, &a), &b), &c):
        unrolled, with the closure body in place of each application (a table of flags folded into a byte)."""
        ops = t["ops"]
        line = t.get("line", 0)
        if len(ops) != 3 or ops[0].get("k") not in ("move", "copy") or ops[0]["pl"]["p"]:
            return False
        cl = self.closure_of(ops[2])
        if cl is None:
            return False
        f = self.facts.fn(cl[0])
        if f is None or f["kind"] != "closure" or cl[0] in stack or f["arg_count"] != 3:
            return False
        it = self.call_def(ops[0]["pl"]["l"])
        if it is None or not re.search(r"slice::<impl \[T\]>::iter$", (it.get("callee") or {}).get("def", "")) or not it["ops"]:
            return False
        # the slice: `&arr as &[T]` with arr an array literal
        cur = it["ops"][0]
        arr = None
        for _ in range(6):
            if cur.get("k") not in ("move", "copy") or [p for p in cur["pl"]["p"] if p != "deref"]:
                return False
            st = self.single_def(cur["pl"]["l"])
            if st is None:
                return False
            rv = st["rv"]
            if rv["k"] == "agg" and rv.get("what") == "array":
                arr = rv
                break
            if rv["k"] in ("use", "cast"):
                cur = rv["op"]
            elif rv["k"] == "ref":
                cur = {"k": "copy", "pl": rv["pl"]}
            else:
                return False
        if arr is None or not (1 <= len(arr["ops"]) <= 16) or any(o.get("k") not in ("move", "copy") or o["pl"]["p"] for o in arr["ops"]):
            return False
        elem_ty = f["locals"][3]["ty"]
        acc_ty = f["locals"][2]["ty"]
        dest, target = t["dest"], t["t"]
        acc = self.new_local(acc_ty)
        b["stmts"] = b["stmts"] + [_assign(_pl(acc), _use(copy.deepcopy(ops[1])), line)]
        fin = self.new_block([], _goto(target, line), i)
        blocks = [self.new_block([], None, i) for _ in arr["ops"]]
        for k, o in enumerate(arr["ops"]):
            nxt = blocks[k + 1] if k + 1 < len(blocks) else fin
            r = self.new_local(elem_ty)
            nacc = self.new_local(acc_ty)
            blk = self.blocks[blocks[k]]
            blk["stmts"] = [_assign(_pl(r), {"k": "ref", "mut": False, "fake": False, "pl": {"l": o["pl"]["l"], "p": []}}, line)]
            blk["term"] = _goto(nxt, line)
            self._splice_closure(blocks[k], blk, f, cl[1], [_mv(acc), _mv(r)], _pl(nacc), nxt, depth, stack, line)
            acc = nacc
        self.blocks[fin]["stmts"] = [_assign(copy.deepcopy(dest), _use(_mv(acc)), line)]
        b["term"] = _goto(blocks[0], line)
        b["term"]["expanded"] = c["def"]
        return True

    def _expand_poll_map(self, i, b, t, c, depth, stack):
        """`poll.map(f)`: Ready(v) => Ready(f(v)), Pending => Pending."""
        ops = t["ops"]
        line = t.get("line", 0)
        if len(ops) != 2 or ops[0].get("k") not in ("move", "copy"):
            return False
        fnitem = ops[1] if (ops[1].get("k") == "const" and ops[1].get("fn")) else None
        cl = self.closure_of(ops[1]) if fnitem is None else None
        if cl is None and fnitem is None:
            return False
        if cl is not None:
            f = self.facts.fn(cl[0])
            if f is None or f["kind"] != "closure" or cl[0] in stack:
                return False
        x = ops[0]["pl"]
        POLL = "std::task::Poll"
        dest, target = t["dest"], t["t"]
        tmp = self.new_local("?mapped")
        fin = self.new_block([_assign(copy.deepcopy(dest), _adt(POLL, "Ready", 0, [_mv(tmp)]), line)], _goto(target, line), i)
        ready = self.new_block([], _goto(fin, line), i)
        pay = {"k": "move", "pl": {"l": x["l"], "p": list(x["p"]) + [{"dc": "Ready", "vi": 0}, {"f": 0, "n": "0", "adt": POLL, "ty": payload_ty(c.get("self_ty") or "", "Some")}]}}
        if fnitem is not None:
            # a function item (`.map(ReadOutcome::from_io)`): an ordinary call; it may be inlined in its turn
            self.blocks[ready]["term"] = {"k": "call", "callee": copy.deepcopy(fnitem["fn"]), "fn_op": copy.deepcopy(fnitem), "ops": [pay],
                                          "dest": _pl(tmp), "t": fin, "cline": line, "cexp": False, "line": line, "exp": False}
            self.work.append(ready)
        else:
            self._splice_closure(ready, self.blocks[ready], f, cl[1], [pay], _pl(tmp), fin, depth, stack, line)
        pend = self.new_block([_assign(copy.deepcopy(dest), _adt(POLL, "Pending", 1, []), line)], _goto(target, line), i)
        d = self.new_local("isize")
        dead = self.new_block([], {"k": "unreachable", "line": line, "exp": False}, i)
        b["stmts"] = b["stmts"] + [_assign(_pl(d), {"k": "discr", "pl": copy.deepcopy(x), "adt": POLL}, line)]
        b["term"] = {"k": "switch", "op": _mv(d), "ty": "isize", "targets": [[0, ready], [1, pend]], "otherwise": dead, "line": line, "exp": False, "expanded": "Poll::map"}
        return True

    def _expand_try_branch(self, i, b, t, c):
        """`x?`: Try::branch on a Result / Option is the match `Ok(v) => Continue(v), Err(e) => Break(Err(e))`."""
        res = c.get("resolved") or ""
        st = c.get("self_ty") or ""
        if res.startswith("<std::result::Result<") or st.startswith("std::result::Result<"):
            adt, pos, neg = RESULT, "Ok", "Err"
        elif res.startswith("<std::option::Option<") or st.startswith("std::option::Option<"):
            adt, pos, neg = OPTION, "Some", "None"
        else:
            return False
        ops = t["ops"]
        line = t.get("line", 0)
        if len(ops) != 1 or ops[0].get("k") not in ("move", "copy"):
            return False
        x = ops[0]["pl"]
        V = VARIANTS[adt]
        dest, target = t["dest"], t["t"]
        CF = "std::ops::ControlFlow"
        xty = st if st.startswith("std::") else (res[1:res.index(" as ")] if " as " in res else "")
        cont = self.new_block([_assign(copy.deepcopy(dest), _adt(CF, "Continue", 0, [{"k": "move", "pl": {"l": x["l"], "p": list(x["p"]) + _dc(pos, V[pos], ty=payload_ty(xty, pos), adt=adt)}}]), line)], _goto(target, line), i)
        tmp = self.new_local("?residual")
        if adt == RESULT:
            inner = _adt(RESULT, "Err", 1, [{"k": "move", "pl": {"l": x["l"], "p": list(x["p"]) + _dc("Err", 1, ty=payload_ty(xty, "Err"), adt=adt)}}])
        else:
            inner = _adt(OPTION, "None", 0, [])
        brk = self.new_block([_assign(_pl(tmp), inner, line), _assign(copy.deepcopy(dest), _adt(CF, "Break", 1, [_mv(tmp)]), line)], _goto(target, line), i)
        d = self.new_local("isize")
        dead = self.new_block([], {"k": "unreachable", "line": line, "exp": False}, i)
        b["stmts"] = b["stmts"] + [_assign(_pl(d), {"k": "discr", "pl": copy.deepcopy(x), "adt": adt}, line)]
        pairs = sorted([[V[pos], cont], [V[neg], brk]])
        b["term"] = {"k": "switch", "op": _mv(d), "ty": "isize", "targets": pairs, "otherwise": dead, "line": line, "exp": False, "expanded": "Try::branch"}
        return True

    def _expand_from_residual(self, i, b, t, c):
        """The error arm of `x?`: `return Err(From::from(e))` (Result) / `return None` (Option), written out, so that
        `?` and a hand-written `match x { Err(e) => return Err(e.into()), Ok(v) => v }` are the same thing."""
        args = c.get("args") or []
        st = c.get("self_ty") or (args[0] if args else "")
        ops = t["ops"]
        line = t.get("line", 0)
        if len(ops) != 1 or ops[0].get("k") not in ("move", "copy"):
            return False
        r = ops[0]["pl"]
        dest, target = t["dest"], t["t"]
        if st.startswith("std::option::Option<"):
            b["stmts"] = b["stmts"] + [_assign(copy.deepcopy(dest), _adt(OPTION, "None", 0, []), line)]
            b["term"] = _goto(target, line)
            b["term"]["expanded"] = "from_residual"
            return True
        if not st.startswith("std::result::Result<"):
            return False
        m = re.match(r"std::result::Result<std::convert::Infallible, (.*)>$", args[1]) if len(args) >= 2 else None
        e_ty = m.group(1) if m else "?"
        e = self.new_local(e_ty)
        conv = self.new_local("?converted")
        fin = self.new_block([_assign(copy.deepcopy(dest), dict(_adt(RESULT, "Err", 1, [_mv(conv)]), residual_of=e_ty), line)], _goto(target, line), i)
        b["stmts"] = b["stmts"] + [_assign(_pl(e), _use({"k": "move", "pl": {"l": r["l"], "p": list(r["p"]) + _dc("Err", 1, adt=RESULT)}}), line)]
        callee = {"def": "std::convert::From::from", "name": "from", "krate": "core", "args": ["?", e_ty], "self_ty": "?", "trait": "std::convert::From",
                  "resolved": None, "resolved_args": None, "synth": "from_residual"}
        b["term"] = {"k": "call", "callee": callee, "fn_op": {"k": "const", "ty": "fn", "val": None, "uneval": None, "fn": callee}, "ops": [_mv(e)],
                     "dest": _pl(conv), "t": fin, "cline": line, "cexp": False, "line": line, "exp": False, "expanded": "from_residual"}
        return True

    # ------------------------------------------------------------------------------------ jump threading
    def thread(self):
        """Where a switch reads the discriminant of a local that was given an enum literal on each incoming path
        (`Ok(..)` here, `Err(..)` there, then merge, then `match`/`?`), send each path straight to its arm: the merge
        and re-test is what combinator chains and `?` leave behind, a hand-written `match` with early returns has no
        such merge. Tail-duplicates the (call-free, short) chain between the merge and the switch."""
        changed = True
        rounds = 0
        while changed and rounds < 600 and len(self.blocks) < self.fl.max_blocks:
            changed = False
            rounds += 1
            # only live blocks count: inlining leaves the replaced call chains behind as dead code
            live = set()
            stack_ = [0]
            while stack_:
                x_ = stack_.pop()
                if x_ in live or self.blocks[x_]["cleanup"]:
                    continue
                live.add(x_)
                stack_.extend(self._succs(self.blocks[x_]["term"]))
            preds = {}
            for i in live:
                for s_ in self._succs(self.blocks[i]["term"]):
                    preds.setdefault(s_, []).append(i)
            for S in sorted(live):
                b = self.blocks[S]
                t = b["term"]
                if b["cleanup"] or t["k"] != "switch" or t["op"].get("k") not in ("move", "copy") or t["op"]["pl"]["p"]:
                    continue
                dl = t["op"]["pl"]["l"]
                dst = [st for st in b["stmts"] if st["k"] == "assign" and st["lhs"]["l"] == dl and not st["lhs"]["p"]]
                if len(dst) == 1 and dst[0]["rv"]["k"] == "discr" and not dst[0]["rv"]["pl"]["p"]:
                    X = dst[0]["rv"]["pl"]["l"]
                elif not dst and t.get("ty") == "bool":
                    # a flag: `x = const true` here, `x = const false` there, merge, `if x`
                    X = dl
                    dst = [None]
                else:
                    continue
                # Backward search from S for the places where the deciding value becomes known. Each hit is a block P
                # whose own statements fix the variant, together with the (call-free, single-successor) blocks between
                # P and S; that stretch is tail-duplicated for P and ends in a jump to the arm the variant selects.
                # Merges on the way (several helper returns feeding one continuation) are followed into every predecessor.
                s_stmts = b["stmts"] if dst[0] is None else b["stmts"][:b["stmts"].index(dst[0])]
                hits = []
                budget = [300]

                def explore(blk, state, below):
                    budget[0] -= 1
                    if budget[0] < 0 or len(below) > 40:
                        return
                    stmts_ = s_stmts if blk == S else self.blocks[blk]["stmts"]
                    if blk != S:
                        tt = self.blocks[blk]["term"]
                        if tt["k"] == "call" and tt["dest"]["l"] == state[0]:
                            return
                    r = self._track_back(stmts_, state)
                    if r is None:
                        return
                    if isinstance(r, int):
                        if blk != S:
                            hits.append((blk, r, list(below)))
                        return
                    for q in preds.get(blk, []):
                        if q == S or q in below:
                            continue
                        qt = self.blocks[q]["term"]
                        if qt["k"] not in ("goto", "drop", "falseedge"):
                            continue
                        explore(q, r, [blk] + below)
                explore(S, (X, ()), [])
                if not hits:
                    continue
                for (P, vi, path_) in hits:
                    if sum(len(self.blocks[c]["stmts"]) for c in path_) > 80:
                        continue
                    tgt = None
                    for v, bb in t["targets"]:
                        if v == vi:
                            tgt = bb
                    if tgt is None:
                        tgt = t["otherwise"]
                    new_ids = []
                    for c in path_:
                        nb = copy.deepcopy(self.blocks[c])
                        self.blocks.append(nb)
                        self.meta.append(self.meta[c])
                        new_ids.append(len(self.blocks) - 1)
                    for k, nid in enumerate(new_ids):
                        nt = self.blocks[nid]["term"]
                        if k + 1 < len(new_ids):
                            nt["t"] = new_ids[k + 1]
                        else:
                            self.blocks[nid]["term"] = _goto(tgt, nt.get("line", 0))
                            self.blocks[nid]["term"]["threaded"] = vi
                    self._retarget(self.blocks[P]["term"], path_[0], new_ids[0])
                    changed = True
                if changed:
                    break

    @staticmethod
    def _succs(t):
        k = t["k"]
        if k in ("goto", "drop", "falseedge", "falseunwind", "yield", "assert"):
            return [t["t"]]
        if k == "switch":
            return [bb for _, bb in t["targets"]] + ([t["otherwise"]] if t["otherwise"] is not None else [])
        if k == "call":
            return [t["t"]] if t.get("t") is not None else []
        return []

    @staticmethod
    def _retarget(t, old, new):
        if t.get("t") == old:
            t["t"] = new
        if t.get("otherwise") == old:
            t["otherwise"] = new
        if "targets" in t:
            t["targets"] = [[v, (new if bb == old else bb)] for v, bb in t["targets"]]

    @staticmethod
    def _writes(block, X):
        for st in block["stmts"]:
            if st["lhs"]["l"] == X:
                return True
        t = block["term"]
        return t["k"] == "call" and t["dest"]["l"] == X

    @staticmethod
    def _track_back(stmts, state):
        """Walk statements backwards. state = (local, path): the value of interest is `local` projected through
        path = ((variant, field), ...). Returns the new state, an int (variant index found), or None (unknown)."""
        tracked, path = state
        for st in reversed(stmts):
            if st["lhs"]["l"] != tracked:
                continue
            if st["k"] != "assign" or st["lhs"]["p"]:
                return None
            rv = st["rv"]
            if rv["k"] == "use" and rv["op"].get("k") in ("move", "copy"):
                pr = [p for p in rv["op"]["pl"]["p"] if p != "deref"]
                if not pr:
                    tracked = rv["op"]["pl"]["l"]
                    continue
                if len(pr) == 2 and isinstance(pr[0], dict) and "dc" in pr[0] and isinstance(pr[1], dict) and "f" in pr[1]:
                    tracked = rv["op"]["pl"]["l"]
                    path = ((pr[0]["dc"], pr[1]["f"]),) + path
                    continue
                return None
            if rv["k"] == "use" and rv["op"].get("k") == "const" and not path and isinstance(rv["op"].get("val"), bool):
                return int(rv["op"]["val"])
            if rv["k"] == "agg" and rv.get("what") == "adt" and "vi" in rv:
                if not path:
                    return rv["vi"]
                (v, f), rest = path[0], path[1:]
                if rv.get("variant") != v or f >= len(rv["ops"]):
                    return None
                o = rv["ops"][f]
                if o.get("k") in ("move", "copy") and not [p for p in o["pl"]["p"] if p != "deref"]:
                    tracked, path = o["pl"]["l"], rest
                    continue
                return None
            return None
        return (tracked, path)

    def _variant_at_end(self, P, state, preds, depth=0):
        """Variant index of the enum literal that decides the switch, as evident when control leaves block P."""
        b = self.blocks[P]
        t = b["term"]
        if t["k"] == "call" and t["dest"]["l"] == state[0]:
            return None
        r = self._track_back(b["stmts"], state)
        if r is None or isinstance(r, int):
            return r
        if depth < 24:
            ps = preds.get(P, [])
            if not ps or len(ps) > 4:
                return None
            vs = set()
            for q in ps:
                qt = self.blocks[q]["term"]
                if qt["k"] not in ("goto", "drop", "falseedge", "call"):
                    return None
                if qt["k"] == "call" and (qt["dest"]["l"] == r[0] or qt.get("t") != P):
                    return None
                vs.add(self._variant_at_end(q, r, preds, depth + 1))
            if len(vs) == 1 and None not in vs:
                return vs.pop()     # every way into this block carries the same variant
        return None

    def _expand_bool_then(self, i, b, t, depth, stack):
        ops = t["ops"]
        line = t.get("line", 0)
        if len(ops) != 2:
            return False
        cl = self.closure_of(ops[1])
        if cl is None:
            return False
        f = self.facts.fn(cl[0])
        if f is None or cl[0] in stack:
            return False
        dest, target = t["dest"], t["t"]
        yes = self.new_block([], _goto(target, line), i)
        self._splice_closure(yes, self.blocks[yes], f, cl[1], [], dest, target, depth, stack, line, wrap=(OPTION, "Some"))
        no = self.new_block([_assign(copy.deepcopy(dest), _adt(OPTION, "None", 0, []), line)], _goto(target, line), i)
        b["term"] = {"k": "switch", "op": copy.deepcopy(ops[0]), "ty": "bool", "targets": [[0, no]], "otherwise": yes, "line": line, "exp": False, "expanded": "bool::then"}
        return True


def validate(fn):
    """Structural sanity of a flattened body: every block / local index is in range."""
    nb, nl = len(fn["blocks"]), len(fn["locals"])
    bad = []

    def chk_pl(pl, where):
        if not (0 <= pl["l"] < nl):
            bad.append(("local", pl["l"], where))
        for p in pl["p"]:
            if isinstance(p, dict) and "idx" in p and not (0 <= p["idx"] < nl):
                bad.append(("idx", p["idx"], where))

    def chk_op(o, where):
        if o and o.get("k") in ("move", "copy"):
            chk_pl(o["pl"], where)
    for i, b in enumerate(fn["blocks"]):
        for st in b["stmts"]:
            chk_pl(st["lhs"], i)
            if st["k"] == "assign":
                r = st["rv"]
                for key in ("op", "a", "b"):
                    if isinstance(r.get(key), dict):
                        chk_op(r[key], i)
                if "pl" in r:
                    chk_pl(r["pl"], i)
                for o in r.get("ops", []):
                    chk_op(o, i)
        t = b["term"]
        for key in ("t", "otherwise", "imag"):
            if isinstance(t.get(key), int) and not (0 <= t[key] < nb):
                bad.append(("bb", t[key], i))
        for v, bb in t.get("targets", []):
            if not (0 <= bb < nb):
                bad.append(("bb", bb, i))
        if t["k"] == "call":
            chk_pl(t["dest"], i)
            for o in t["ops"]:
                chk_op(o, i)
    return bad
