"""PANIC ledger, DECODE-WITNESS, VARIANT-DOMAIN (C04; PANIC(packet_stream) also serves C03)."""
import json
import os
import re
from engine import rule, Inst, AnchorLost, VERIF
from ctx import match_arms, arm_of, RXPACKET, TXPACKET, short_ty
from cond import Cond, dominating_edges
from mir import Body, callee_name, callee_resolved, symex, sym_fold, sym_leaves, strip_generics, place_fields

INBOUND_ROOTS = [
    r"io::packet_stream::RxPacketStream<[^>]*> as futures::Stream>::poll_next$",
    r"client::context::Context::<[^>]*>::connect::\{closure#0\}$",
    r"client::context::Context::<[^>]*>::authorize::\{closure#0\}$",
    r"client::context::Context::<[^>]*>::run::\{closure#0\}$",
    # the futures / streams handed to the caller are completed with inbound data as well
    r"client::handle::ContextHandle::(disconnect|ping|publish|subscribe|unsubscribe)::\{closure#0\}$",
    r"client::stream::SubscribeStream as futures::Stream>::poll_next$",
    r"client::rsp::SubscribeRsp::stream$",
]

UNWRAPS = re.compile(r"(option::Option|result::Result)::(unwrap|expect|unwrap_err|expect_err|unwrap_unchecked)$")
BYTES_PANIC = re.compile(r"^bytes::((buf::)?Buf::(advance|get_[ui]\d+(_le|_ne)?|get_uint|get_int|copy_to_bytes|copy_to_slice|get_f\d+)|"
                         r"Bytes::(split_to|split_off|slice|slice_ref|truncate_unchecked)|BytesMut::(split_to|split_off|advance_mut|set_len)|"
                         r"(buf::)?BufMut::(put_slice_unchecked|advance_mut))$")
STD_PANIC = re.compile(r"(slice::<impl \[T\]>::(split_at|split_at_mut|copy_from_slice|clone_from_slice|swap|chunks|windows|chunks_exact|rotate_left|rotate_right|split_first_chunk)|"
                       r"Vec::(remove|insert|swap_remove|split_off|drain)|VecDeque::(swap|split_off|drain|range|range_mut)|"
                       r"String::(remove|insert|insert_str|split_off|drain)|str::<impl str>::(split_at)|time::SystemTime::(add|sub)|"
                       r"std::ops::(Add|Sub|Mul|Div|Rem|Neg|Shl|Shr)::\w+)$")
INDEXING = re.compile(r"std::ops::(Index|IndexMut)::(index|index_mut)$")


def reachable_bodies(ctx, roots=INBOUND_ROOTS):
    """Local bodies reachable from the inbound roots through resolved callees, created closures /
    coroutines and - for unresolved generic trait calls - every local impl of the method."""
    facts = ctx.facts
    impl_methods = {}
    for im in facts.impls:
        tr = im.get("trait")
        if not tr:
            continue
        for it in im["items"]:
            if it["kind"] == "fn":
                impl_methods.setdefault((tr["path"], it["name"]), []).append(it["def"])
    seen = {}
    work = []
    for r in roots:
        for f in facts.find(r):
            work.append((f["path"], None))
    while work:
        p, via = work.pop()
        if p in seen:
            continue
        body = ctx.world.body(p)
        if body is None:
            continue
        seen[p] = via
        # async fn: its coroutine
        co = p + "::{closure#0}"
        if facts.fn(co) is not None and facts.fn(co)["kind"] == "coroutine":
            work.append((co, p))
        for i in sorted(body.reach):
            for st in body.blocks[i]["stmts"]:
                if st["k"] == "assign" and st["rv"]["k"] == "agg" and st["rv"]["what"] in ("closure", "coroutine", "coroutine_closure"):
                    work.append((st["rv"]["def"], p))
                # fn items passed as values (e.g. `.map(RxPacket::Connack)`, `.map_err(From::from)`)
                if st["k"] == "assign":
                    for key in ("op", "a", "b"):
                        o = st["rv"].get(key)
                        if isinstance(o, dict) and o.get("fn"):
                            _push_fn(ctx, o["fn"], work, p, impl_methods)
                    for o in st["rv"].get("ops", []):
                        if o.get("fn"):
                            _push_fn(ctx, o["fn"], work, p, impl_methods)
            t = body.term(i)
            if t["k"] != "call":
                continue
            c = t.get("callee")
            if c:
                _push_fn(ctx, c, work, p, impl_methods)
            for o in t["ops"]:
                if o.get("fn"):
                    _push_fn(ctx, o["fn"], work, p, impl_methods)
    return seen


def _push_fn(ctx, c, work, p, impl_methods):
    facts = ctx.facts
    target = c.get("resolved") or c["def"]
    if facts.fn(target) is not None:
        work.append((target, p))
        return
    if c.get("trait") and c.get("trait").startswith(("core::", "codec::", "client::", "io::")) or (c.get("trait") and facts.crate in (c.get("krate") or "")):
        for d in impl_methods.get((c["trait"], c["name"]), []):
            work.append((d, p))
    elif c.get("trait") in ("std::convert::From", "std::convert::Into", "std::convert::TryFrom", "std::convert::TryInto", "std::default::Default",
                            "std::clone::Clone", "std::cmp::PartialEq", "std::iter::Iterator", "futures::Stream", "std::ops::Add", "std::ops::Sub", "std::ops::Mul", "std::ops::Div"):
        # unresolved std trait call on a generic: every local impl of the method may be the target
        self_ty = c.get("self_ty") or ""
        if c["trait"] in ("std::convert::Into",):
            name, tr = "from", "std::convert::From"
        elif c["trait"] == "std::convert::TryInto":
            name, tr = "try_from", "std::convert::TryFrom"
        else:
            name, tr = c["name"], c["trait"]
        for d in impl_methods.get((tr, name), []):
            # narrow by self type when it is concrete
            if re.fullmatch(r"[A-Z]\w*", self_ty) or self_ty in ("T", "U", "Self") or not self_ty:
                work.append((d, p))
            elif self_ty.split("<")[0] in d or tr == "std::convert::From":
                if tr == "std::convert::From" and not (self_ty.split("<")[0] in d or (c["trait"] == "std::convert::Into")):
                    continue
                work.append((d, p))


def short_callee(name):
    """`core::slice::<impl [T]>::first` -> `slice::first`; `<X as Tr<Y>>::f` -> `Tr::f`"""
    m = re.match(r"<(.*) as (.*)>::(\w+)$", name)
    if m:
        tr = re.sub(r"<.*", "", m.group(2)).split("::")[-1]
        ty = re.sub(r"<.*", "", m.group(1)).split("::")[-1]
        return "%s::%s(%s)" % (tr, m.group(3), ty)
    prev = None
    while prev != name:
        prev = name
        name = re.sub(r"<[^<>]*>", "", name)
    parts = [p for p in name.split("::") if p]
    return "::".join(parts[-2:])


def fn_key(path):
    p = strip_generics(path)
    p = re.sub(r"<'[a-z_]+>", "", p)
    # closure numbering shifts when an unrelated closure is added: keep only the coroutine marker of async fns
    # a closure belongs to the function that creates it: whether a step is written inline or inside a `.map(|x| ..)`
    # closure does not change the key (ordinals keep equal texts apart)
    return re.sub(r"(::\{closure#\d+\})+$", "", p)


def prov(body, op, limit=4):
    """Short provenance descriptor of an operand for ledger keys."""
    if op is None:
        return ""
    if op.get("k") == "const":
        return "const"
    at = body.atoms(op)
    fields = sorted({str(a[2]) for a in at if a[0] == "field" and isinstance(a[2], str)})
    calls = sorted({a[1].split("::")[-1] for a in at if a[0] == "call"} - {"deref", "deref_mut", "as_ref", "as_mut", "branch", "into", "from", "clone"})
    params = sorted({str(a[2]) for a in at if a[0] == "param" and a[2]})
    up = sorted({a[1] for a in at if a[0] == "upvar"})
    parts = fields[:limit] + ["%s()" % c for c in calls[:limit]]
    if not parts:
        parts = params[:limit] + up[:limit]
    return ",".join(parts)


def operand_text(body, op, depth=0):
    """Stable, human-readable rendering of an operand: user variable names, field names, callee names."""
    if op is None:
        return "?"
    if op.get("k") == "const":
        if op.get("uneval"):
            return op["uneval"]["name"]
        v = op.get("val")
        return str(v) if not isinstance(v, str) else "str"
    pl = op["pl"] if "pl" in op else op
    # a field of a struct of the crate is rendered as `Struct.field`, whatever the access path to the struct value
    # (a reference bound by a borrow-splitting helper, `self`, a Pin deref): renaming locals / restructuring helpers
    # does not change it
    if depth <= 8:
        try:
            o_ = body.origin(op if "k" in op else {"k": "copy", "pl": pl}, through_calls=True)
        except Exception:
            o_ = ("?",)
        if o_[0] == "place":
            pr_ = o_[1]["p"]
            idx_ = [k for k, p in enumerate(pr_) if isinstance(p, dict) and "f" in p and p.get("adt") and not str(p["adt"]).startswith("std::") and not str(p["adt"]).startswith("core::ops")]
            if idx_:
                k0 = idx_[-1]
                parts = ["%s.%s" % (short_ty(re.sub(r"<.*", "", pr_[k0]["adt"])), pr_[k0].get("n") if pr_[k0].get("n") is not None else pr_[k0]["f"])]
                for p in pr_[k0 + 1:]:
                    if isinstance(p, dict) and "f" in p:
                        parts.append(str(p["n"] if p.get("n") is not None else p["f"]))
                    elif isinstance(p, dict) and "dc" in p:
                        parts.append(str(p["dc"]))
                    elif isinstance(p, dict) and "idx" in p:
                        parts.append("[]")
                return ".".join(parts)
    proj = []
    for p in pl["p"]:
        if isinstance(p, dict) and "f" in p:
            proj.append(str(p["n"] if p.get("n") is not None else p["f"]))
        elif isinstance(p, dict) and "dc" in p:
            proj.append(str(p["dc"]))
        elif isinstance(p, dict) and "idx" in p:
            proj.append("[]")
    l = pl["l"]
    key = None
    from mir import _place_key
    if _place_key(pl) in body.upvar_names:
        # a captured variable: rendered by its type (names of locals are not part of a key)
        tys = [p.get("ty") for p in pl["p"] if isinstance(p, dict) and p.get("ty")]
        return _ty_word(tys[-1] if tys else "captured")
    if l in body.names and not (depth < 6 and _is_alias(body, l)):
        # a user variable holding a value of its own: rendered by its type, so that renaming it changes nothing
        return ".".join([_ty_word(body.locals[l]["ty"])] + proj)
    if depth < 6:
        ds = body.whole_defs(l)
        if len(ds) == 1:
            d = ds[0]
            if d[0] == "stmt":
                rv = d[3]["rv"]
                if rv["k"] == "use":
                    base = operand_text(body, rv["op"], depth + 1)
                    return ".".join([base] + proj) if proj else base
                if rv["k"] in ("ref", "rawptr"):
                    base = operand_text(body, {"pl": rv["pl"]}, depth + 1)
                    return ".".join([base] + proj) if proj else base
                if rv["k"] == "cast":
                    return operand_text(body, rv["op"], depth + 1)
                if rv["k"] == "bin":
                    if proj and proj[-1] in ("0", "1"):
                        proj = proj[:-1]
                    return "(%s %s %s)" % (operand_text(body, rv["a"], depth + 1), rv["op"], operand_text(body, rv["b"], depth + 1))
                if rv["k"] == "agg":
                    return "%s{%s}" % (rv.get("variant") or rv.get("what"), ",".join(operand_text(body, o, depth + 1) for o in rv["ops"][:3]))
                if rv["k"] == "discr":
                    return "discr(%s)" % operand_text(body, {"pl": rv["pl"]}, depth + 1)
            elif d[0] == "call":
                t = d[2]
                nm = short_callee(callee_resolved(t) or "?")
                args = [operand_text(body, o, 5) for o in t["ops"][:2]] if depth < 3 else []
                args = [a for a in args if re.fullmatch(r"[A-Za-z][\w.]*|\d+", a)]
                base = "%s(%s)" % (nm, ",".join(args))
                return ".".join([base] + proj) if proj else base
    if 1 <= l <= body.fn["arg_count"]:
        return ".".join([_ty_word(body.locals[l]["ty"])] + proj)
    if not proj and body.locals[l]["ty"] in ("u8", "u16", "u32", "u64", "usize"):
        # a number computed on several paths (a temporary, the parameter of a helper looked at in place): by its type, as
        # a user variable holding the same value would be
        return body.locals[l]["ty"]
    return ".".join(["_"] + proj) if proj else "_"


def _ty_word(ty):
    """`&mut std::ops::Range<usize>` -> `Range<usize>`"""
    t = re.sub(r"^&(mut )?", "", ty or "?")
    t = re.sub(r"'[a-z_]+ ?", "", t)
    prev = None
    while prev != t:
        prev = t
        t = re.sub(r"\b(?:[a-z_][a-z0-9_]*::)+", "", t)
    return t[:40]


def _is_alias(body, l):
    """The local merely names another place (`let size = &mut self.size;`, `let x = y;`): follow it."""
    ds = body.whole_defs(l)
    if len(ds) != 1 or ds[0][0] != "stmt":
        return False
    rv = ds[0][3]["rv"]
    if rv["k"] in ("ref", "rawptr"):
        return True
    return rv["k"] == "use" and rv["op"].get("k") in ("move", "copy")


class Site:
    def __init__(self, body, bb, kind, what, operand=None, term=None, extra=None):
        self.body = body
        self.bb = bb
        self.kind = kind        # assert | unwrap | panic | index | bytes | std
        self.what = what
        self.operand = operand
        self.term = term
        self.extra = extra or {}
        self.prov = prov(body, operand) if operand is not None else ""
        self.key = None
        self.discharge = None

    def site(self):
        return self.body.site(self.bb)


def panic_message(body, bb):
    """String literal of a panic / unreachable / assert message feeding the diverging call at bb."""
    t = body.term(bb)
    msgs = []
    seen = set()
    work = list(t["ops"])
    while work:
        o = work.pop()
        if o.get("k") == "const":
            if isinstance(o.get("val"), str):
                msgs.append(o["val"])
            continue
        l = o["pl"]["l"]
        if l in seen:
            continue
        seen.add(l)
        for d in body.defs.get(l, []):
            if d[0] == "call":
                work.extend(d[2]["ops"])
            elif d[0] == "stmt":
                rv = d[3]["rv"]
                for k in ("op", "a", "b"):
                    if isinstance(rv.get(k), dict):
                        work.append(rv[k])
                work.extend(rv.get("ops", []))
    return msgs[0] if msgs else ""


def _decoder_transfer_methods(ctx):
    """Methods of core::utils::Decoder (other than advance_by) that cut a caller-given number of bytes off their own
    buffer (`fn split_front(&mut self, len) { self.buf.split_to(len) }`): the length obligation is the caller's, every
    call of such a method is a site of its own."""
    cache = ctx.__dict__.get("_dec_transfer")
    if cache is not None:
        return cache
    out = set()
    for f in ctx.facts.fns:
        if f["kind"] != "fn" or strip_generics(f.get("impl_self") or "") != "core::utils::Decoder" or f["arg_count"] < 2 or f["name"] == "advance_by":
            continue
        b = ctx.world.body(f["path"])
        for i, t in b.calls():
            nm = callee_name(t) or ""
            res = callee_resolved(t) or nm
            if not (BYTES_PANIC.search(nm) or BYTES_PANIC.search(res)) or len(t["ops"]) < 2:
                continue
            recv_self = any(a[0] == "param" and a[1] == 1 for a in b.atoms(t["ops"][0]))
            amt_param = t["ops"][1].get("k") != "const" and any(a[0] == "param" and a[1] >= 2 for a in b.atoms(t["ops"][1])) \
                and not any(a[0] == "call" and not re.search(r"(From::from|Into::into)$", a[1]) for a in b.atoms(t["ops"][1]))
            if recv_self and amt_param:
                out.add(f["path"])
    ctx.__dict__["_dec_transfer"] = out
    return out


def enumerate_sites(ctx, body):
    out = []
    for i in sorted(body.reach):
        blk = body.blocks[i]
        t = blk["term"]
        if t["k"] == "assert":
            txt = "%s(%s)" % (t["msg"], ",".join(operand_text(body, o) for o in t["ops"]))
            out.append(Site(body, i, "assert", txt, t["ops"][0] if t["ops"] else None, t, {"ops": t["ops"], "cond": t["cond"], "expected": t["expected"], "msg": t["msg"]}))
            continue
        if t["k"] != "call":
            continue
        nm = callee_name(t) or ""
        res = callee_resolved(t) or nm
        if t["t"] is None:
            # diverging call
            if "panicking" in nm or "panic" in nm or "unreachable" in nm or "assert_failed" in nm or "begin_panic" in nm or "expect_failed" in nm or "unwrap_failed" in nm:
                msg = panic_message(body, i)[:80] or short_ty(nm)
                if msg.startswith("assertion failed:"):
                    msg = "assertion failed"        # the message quotes the source expression: not part of the key
                out.append(Site(body, i, "panic", msg, None, t, {"message": panic_message(body, i)[:120]}))
            else:
                out.append(Site(body, i, "panic", "diverging call " + short_ty(nm), None, t))
            continue
        if UNWRAPS.search(nm):
            out.append(Site(body, i, "unwrap", "%s::%s<-%s" % (nm.split("::")[-2], nm.split("::")[-1], operand_text(body, t["ops"][0], 1)), t["ops"][0], t))
        elif BYTES_PANIC.search(nm) or BYTES_PANIC.search(res):
            extra = {}
            if strip_generics(body.path).endswith("Decoder::advance_by"):
                extra = {"transfer": "Decoder::advance_by"}
            elif body.path in _decoder_transfer_methods(ctx):
                extra = {"transfer": short_ty(strip_generics(body.path))}
            out.append(Site(body, i, "bytes", "%s(%s)" % ((nm if BYTES_PANIC.search(nm) else res).replace("bytes::", "").replace("buf::", ""), ",".join(operand_text(body, o, 1) for o in t["ops"][:2])), t["ops"][0] if t["ops"] else None, t, extra))
        elif nm.endswith("core::utils::Decoder::advance_by"):
            out.append(Site(body, i, "bytes", "Decoder::advance_by(%s)" % ",".join(operand_text(body, o, 1) for o in t["ops"][:2]), t["ops"][0], t))
        elif res in _decoder_transfer_methods(ctx) and len(t["ops"]) >= 2:
            out.append(Site(body, i, "bytes", "%s(%s)" % (short_ty(strip_generics(res)), ",".join(operand_text(body, o, 1) for o in t["ops"][:2])), t["ops"][0], t))
        elif INDEXING.search(nm):
            self_ty = (t["callee"].get("self_ty") or "")
            out.append(Site(body, i, "index", "%s[%s](%s)" % (short_ty(self_ty.split("<")[0]) or "?", short_ty(((t["callee"].get("args") or ["", "?"])[1:] or ["?"])[0]), ",".join(operand_text(body, o, 1) for o in t["ops"][:2])), t["ops"][0], t))
        elif STD_PANIC.search(nm):
            out.append(Site(body, i, "std", "::".join(nm.split("::")[-2:]), t["ops"][0] if t["ops"] else None, t))
    return out


# ------------------------------------------------------------------------------------ discharges

def d_const(site):
    """Arithmetic / shift checks whose condition folds to the expected constant."""
    body = site.body
    if site.kind == "index":
        if "RangeFull" in site.what:
            return "D-const: indexing with `..` cannot fail"
        # &s[0..s.len()] / &s[k..] with k folded and len established is handled by d_len
        e = symex(body, site.term["ops"][1]) if len(site.term["ops"]) > 1 else None
        if e and e[0] == "agg" and e[1] == "Range" and len(e[2]) == 2 and sym_fold(e[2][0]) == 0 and e[2][1][0] == "call" and e[2][1][1].endswith("::len"):
            a = _buf_ids(body, site.term["ops"][0])
            lt = None
            o = body.origin(site.term["ops"][1], through_calls=False)
            if o[0] == "agg":
                lo = body.origin(o[2]["rv"]["ops"][1], through_calls=False)
                if lo[0] == "call" and (_buf_ids(body, lo[2]["ops"][0]) & a):
                    return "D-const: range 0..len() of the same slice"
        return None
    if site.kind == "std" and re.search(r"(Shl|Shr)::sh[lr]", site.what):
        k = body.fold(site.term["ops"][1]) if len(site.term["ops"]) > 1 else None
        if k is not None and 0 <= k < 8:
            return "D-const: shift by constant %d" % k
        return None
    if site.kind != "assert":
        return None
    v = body.fold(site.extra["cond"])
    if v is not None and bool(v) == bool(site.extra["expected"]):
        return "D-const: check folds to %s" % bool(v)
    # overflow of constants: both operands fold
    ops = site.extra["ops"]
    if len(ops) == 2:
        a, b = body.fold(ops[0]), body.fold(ops[1])
        if a is not None and b is not None:
            m = re.match(r"Overflow\((\w+)\)", site.extra["msg"])
            if m:
                op = m.group(1)
                r = {"Add": a + b, "Sub": a - b, "Mul": a * b, "Shl": a << b if 0 <= b < 64 else None}.get(op)
                if r is not None and 0 <= r < 2 ** 31:
                    return "D-const: %d %s %d" % (a, op, b)
    return None


def _guard_value_edges(body, bb):
    """Dominating edges that establish Some/Ok/None/Err-ness of a value: [(local_base_set, 'some'|'none'|'ok'|'err')]"""
    out = []
    for (d, s_) in dominating_edges(body, bb):
        c = Cond(body, d)
        if c.kind == "call" and c.callee in ("is_none", "is_err"):
            truth = c.holds_on(s_)
            if truth is None:
                continue
            val = truth ^ c.neg          # True => is_none / is_err holds
            kind = {("is_none", True): "none", ("is_none", False): "some", ("is_err", True): "err", ("is_err", False): "ok"}[(c.callee, val)]
            out.append((_value_ids(body, c.args[0]), kind, d))
        elif c.kind == "discr" and c.si.get("adt") in ("std::option::Option", "std::result::Result"):
            vals = body.edge_value(d, s_)
            names = set()
            for v in vals:
                if v == "otherwise":
                    listed = {x for x, _ in c.si["targets"]}
                    names |= {n for dv, n in c.si["variants"].items() if dv not in listed}
                else:
                    names.add(c.si["variants"].get(v))
            if len(names) == 1:
                out.append((_value_ids(body, {"k": "copy", "pl": c.si["place"]}), names.pop().lower(), d))
    return out


def _value_ids(body, op, depth=0):
    """Identities a value may be known by: the places along its copy / ref / Some-ness preserving chain."""
    ids = set()
    cur = op
    for _ in range(12):
        if cur is None or cur.get("k") == "const":
            break
        pl = cur["pl"] if "pl" in cur else cur
        ids.add(_pk(pl))
        try:
            ids.add("canon:%s" % (body.canon(pl),))     # the same place reached through re-borrows (`&mut *self` of an inlined helper)
        except Exception:
            pass
        base = {"l": pl["l"], "p": []}
        if pl["p"] and all(p == "deref" for p in pl["p"]):
            ids.add(_pk(base))
        ds = body.whole_defs(pl["l"])
        if len(ds) != 1 or [p for p in pl["p"] if p != "deref"]:
            break
        d = ds[0]
        if d[0] == "stmt":
            rv = d[3]["rv"]
            if rv["k"] == "use":
                cur = rv["op"]
                continue
            if rv["k"] == "ref":
                cur = {"k": "copy", "pl": rv["pl"]}
                continue
            if rv["k"] == "cast" and rv["op"].get("k") != "const":
                cur = rv["op"]
                continue
            break
        if d[0] == "call":
            nm = callee_name(d[2]) or ""
            if re.search(r"(Option|Result)::(as_ref|as_mut|as_deref|as_deref_mut|copied|cloned|map|map_err|take)$", nm) or nm.endswith("Clone::clone") \
                    or re.search(r"(VarSizeInt::value|convert::From::from|convert::Into::into|NonZero::get)$", nm):
                cur = d[2]["ops"][0]
                continue
            break
        break
    return ids


def _pk(pl):
    parts = [str(pl["l"])]
    for p in pl["p"]:
        if p == "deref":
            continue
        if isinstance(p, dict) and "f" in p:
            parts.append("f%s" % p["f"])
        elif isinstance(p, dict) and "dc" in p:
            parts.append("dc%s" % p["dc"])
        else:
            parts.append("?")
    return ".".join(parts)


def d_guard(site):
    if site.kind != "unwrap":
        return None
    body = site.body
    ids = _value_ids(body, site.operand)
    want = "some" if site.what.startswith("Option") else "ok"
    if "unwrap_err" in site.what or "expect_err" in site.what:
        want = "err"
    for gids, kind, d in _guard_value_edges(body, site.bb):
        if kind == want and (ids & gids):
            # no redefinition of the guarded place between guard and use: the guarded base local has a single whole def, or is a field place
            return "D-guard: dominated by the %s-edge of the test at %s" % (kind, body.site(d))
    # assigned Some(..) just before: `x = Some(v); x.as_mut().unwrap()`
    o = body.origin(site.operand, through_calls=False)
    cur = site.operand
    for _ in range(6):
        o = body.origin(cur, through_calls=False)
        if o[0] == "call" and re.search(r"(Option|Result)::(as_ref|as_mut|as_deref|as_deref_mut|map|copied|cloned)$", callee_name(o[2]) or ""):
            cur = o[2]["ops"][0]
            continue
        break
    if o[0] == "place":
        pl = o[1]
        # find an assignment of an aggregate Some{..} to the same place that dominates the site
        for i in body.dominators(site.bb):
            for st in body.blocks[i]["stmts"]:
                if st["k"] == "assign" and _pk(st["lhs"]) == _pk(pl):
                    var = None
                    if st["rv"]["k"] == "agg" and st["rv"].get("variant") in ("Some", "Ok"):
                        var = st["rv"]["variant"]
                    elif st["rv"]["k"] == "use" and st["rv"]["op"].get("k") in ("move", "copy"):
                        oo = body.origin(st["rv"]["op"], through_calls=False)
                        if oo[0] == "agg" and oo[2]["rv"].get("variant") in ("Some", "Ok"):
                            var = oo[2]["rv"]["variant"]
                    if var and i != site.bb or (var and i == site.bb):
                        # nothing in between re-assigns the place: the assignment block dominates and the only
                        # other definitions of the place lie before it
                        later = [d for d in body.defs.get(pl["l"], []) if d[0] == "stmt" and _pk(d[3]["lhs"]) == _pk(pl) and d[1] != i and body.dominates(i, d[1]) and body.dominates(d[1], site.bb)]
                        if not later:
                            return "D-guard: place assigned %s(..) at %s:%d before the unwrap" % (var, body.fn["file"], st["line"])
    if o[0] == "agg" and o[2]["rv"].get("variant") in ("Some", "Ok"):
        return "D-guard: value is a literal %s(..)" % o[2]["rv"]["variant"]
    # flattened bodies: the definitions that actually reach the unwrap are all the succeeding variant (the paths that
    # carry the other variant were separated by jump threading and end before this site)
    if site.operand.get("k") in ("move", "copy") and not site.operand["pl"]["p"] and body.fn.get("flat"):
        rvs = body.reaching_variants(site.operand["pl"]["l"], site.bb)
        good_v = {"some": {"Some"}, "ok": {"Ok"}, "err": {"Err"}}[want]
        if rvs and rvs <= good_v:
            return "D-guard: every definition that reaches the unwrap is a literal %s(..)" % sorted(rvs)[0]
    # the value is built on several branches (an expanded `map`, a hand-written match): every branch that builds the
    # failing variant is taken only on an edge that a dominating guard excludes
    if o[0] == "multi" and site.operand.get("k") in ("move", "copy"):
        good = {"some": ("Some",), "ok": ("Ok",), "err": ("Err",)}[want]
        bad_blocks, n_good = [], 0
        lit_ok = True
        for d in body.whole_defs(o[1]):
            if d[0] != "stmt" or d[3]["rv"]["k"] != "agg" or "variant" not in d[3]["rv"]:
                lit_ok = False
                break
            if d[3]["rv"]["variant"] in good:
                n_good += 1
            else:
                bad_blocks.append(d[1])
        if lit_ok and n_good:
            excluded = 0
            for bb_ in bad_blocks:
                ok_b = False
                for (d, s_) in body.control_deps.get(bb_, ()):
                    si = body.switch_info(d)
                    if not si or si["kind"] != "discr" or si.get("adt") not in ("std::option::Option", "std::result::Result"):
                        continue
                    pids = _value_ids(body, {"k": "copy", "pl": si["place"]})
                    for gids, kind, gd in _guard_value_edges(body, d):
                        # the guard establishes the variant that the switch's other edge needs
                        if (pids & gids) and kind in ("some", "ok"):
                            ok_b = True
                excluded += ok_b
            if excluded == len(bad_blocks):
                return "D-guard: the failing variant is built only on edges that a dominating test of the source value excludes"
    return None


MEMLEN_CALLS = re.compile(r"(::byte_len|Option::unwrap|::len|::packet_len|::remaining_len|::property_len|::will_property_len|::payload_len|::value|size_of\w*|::sum|::unwrap_or|::remaining|::capacity|::count|<impl std::convert::From<(u8|u16|u32|bool|core::base_types::VarSizeInt)> for usize>::from|^<usize as std::convert::From<(u8|u16|u32|bool|core::base_types::VarSizeInt)>>::from)$")


def d_memlen(site):
    """usize additions / multiplications of in-memory lengths (byte_len(), len(), size_of, small constants)
    cannot exceed usize::MAX for objects that exist in memory."""
    if site.kind != "assert" or not site.extra["msg"].startswith("Overflow(Add)"):
        return None
    body = site.body
    ops = site.extra["ops"]
    tys = [_op_ty(body, o) for o in ops]
    if not all(t == "usize" for t in tys):
        return None
    for o in ops:
        if not _is_len_value(body, o):
            return None
    return "D-memlen: sum of in-memory lengths in usize"


_CTX = [None]
_LENFN = {}


def _is_len_value(body, o, depth=0, seen=None):
    """The operand is an in-memory length: a constant, byte_len()/len()/..., a sum of such, a value that is one of
    those on every branch that defines it, or the result of a crate function all of whose returns are such."""
    if depth > 60:
        return False
    if body.fold(o) is not None:
        return True
    if _is_len_expr(symex(body, o)):
        return True
    if o.get("k") not in ("move", "copy"):
        return False
    pl = o["pl"]
    proj = [p for p in pl["p"] if p != "deref"]
    if proj and not (len(proj) == 1 and isinstance(proj[0], dict) and proj[0].get("f") == 0):
        return False
    seen = seen if seen is not None else set()
    if pl["l"] in seen:
        return True         # loop-carried accumulator: judged by its other definitions
    seen.add(pl["l"])
    ds = body.whole_defs(pl["l"])
    if not ds:
        return False
    for d in ds:
        if d[0] == "stmt":
            rv = d[3]["rv"]
            if rv["k"] == "use":
                if not _is_len_value(body, rv["op"], depth + 1, seen):
                    return False
            elif rv["k"] == "bin" and rv["op"] in ("Add", "Mul"):
                if not (_is_len_value(body, rv["a"], depth + 1, seen) and _is_len_value(body, rv["b"], depth + 1, seen)):
                    return False
            elif rv["k"] == "cast" and rv["ty"] == "usize":
                continue
            else:
                return False
        elif d[0] == "call":
            t = d[2]
            nm = callee_resolved(t) or ""
            if MEMLEN_CALLS.search(nm):
                continue
            if re.search(r"Option::map_or$", nm) and len(t["ops"]) == 3:
                # `opt.map_or(default, f)`: the default and every result of f are lengths
                fp = _fn_value(body, t["ops"][2])
                if fp and _is_len_value(body, t["ops"][1], depth + 1, seen) and (MEMLEN_CALLS.search(fp) or _len_fn(fp)):
                    continue
                return False
            if not _len_fn(nm):
                return False
        else:
            return False
    return True


def _fn_value(body, op):
    """Path of the function or closure an operand denotes (a fn item, a closure literal), else None."""
    for _ in range(6):
        if op.get("k") == "const":
            f = op.get("fn")
            return (f.get("resolved") or f.get("def")) if f else None
        if op.get("k") not in ("move", "copy") or [p for p in op["pl"]["p"] if p != "deref"]:
            return None
        ds = body.whole_defs(op["pl"]["l"])
        if len(ds) != 1 or ds[0][0] != "stmt":
            return None
        rv = ds[0][3]["rv"]
        if rv["k"] == "agg" and rv.get("what") == "closure":
            return rv["def"]
        if rv["k"] == "use":
            op = rv["op"]
        elif rv["k"] == "ref":
            op = {"k": "copy", "pl": rv["pl"]}
        else:
            return None
    return None


def _len_fn(path):
    """A crate function returning usize all of whose return values are in-memory lengths."""
    ctx = _CTX[0]
    if ctx is None:
        return False
    if path in _LENFN:
        return _LENFN[path]
    _LENFN[path] = False        # recursion guard
    f = ctx.facts.fn(path)
    if f is None or f.get("ret_ty") != "usize":
        return False
    b = ctx.world.body(path)
    ok = True
    n = 0
    for i in sorted(b.reach):
        for st in b.blocks[i]["stmts"]:
            if st["k"] == "assign" and st["lhs"]["l"] == 0 and not st["lhs"]["p"]:
                n += 1
                rv = st["rv"]
                if rv["k"] == "use":
                    ok = ok and _is_len_value(b, rv["op"])
                elif rv["k"] == "bin" and rv["op"] in ("Add", "Mul"):
                    ok = ok and _is_len_value(b, rv["a"]) and _is_len_value(b, rv["b"])
                else:
                    ok = False
        t = b.term(i)
        if t["k"] == "call" and t["dest"]["l"] == 0 and not t["dest"]["p"]:
            n += 1
            nm = callee_resolved(t) or ""
            ok = ok and (bool(MEMLEN_CALLS.search(nm)) or _len_fn(nm))
    _LENFN[path] = ok and n > 0
    return _LENFN[path]


def d_lenfit(site):
    """`VarSizeInt::try_from(len).unwrap()` where len is the in-memory length of a packet section that is being
    encoded: the conversion fails only above 268 435 455 bytes, which is outside the domain of an encodable packet
    (the standard's maximum packet size; C01 states the domain)."""
    if site.kind != "unwrap" or site.term is None:
        return None
    body = site.body
    o = body.origin(site.operand, through_calls=False)
    if o[0] != "call":
        return None
    t = o[2]
    c = t.get("callee") or {}
    nm = callee_name(t) or ""
    if not (nm.endswith("TryFrom::try_from") or nm.endswith("TryInto::try_into")):
        return None
    target = (c.get("self_ty") or "") + " " + " ".join(c.get("args") or []) + " " + (c.get("resolved") or "")
    if "VarSizeInt" not in target or not t["ops"]:
        return None
    if _op_ty(body, t["ops"][0]) != "usize" or not _is_len_value(body, t["ops"][0]):
        return None
    if body.fn["file"].startswith("src/codec/") or body.fn["file"].startswith("src/core/"):
        return "D-lenfit: VarSizeInt::try_from(in-memory length of the section being encoded) fails only above 268 435 455 bytes (outside the domain of an encodable packet)"
    return None


def _is_len_expr(e, depth=0):
    if depth > 12:
        return False
    if sym_fold(e) is not None:
        return True
    if e[0] == "call":
        return bool(MEMLEN_CALLS.search(e[1]))
    if e[0] == "cast":
        # widening of a VarSizeInt value (u32) or u16 length
        return True if e[1] == "usize" else False
    if e[0] == "bin" and e[1] in ("Add", "Mul"):
        return _is_len_expr(e[2], depth + 1) and _is_len_expr(e[3], depth + 1)
    return False


def _op_ty(body, o):
    if o.get("k") == "const":
        return o.get("ty")
    pl = o["pl"]
    if not pl["p"]:
        return body.locals[pl["l"]]["ty"]
    last = [p for p in pl["p"] if isinstance(p, dict) and "ty" in p]
    return last[-1]["ty"] if last else None


def _len_guards(body, bb):
    """Dominating edges comparing a buffer length with something: [(len_ids, op, other_operand, cond_bb)] normalised as `len OP other` holding on the edge."""
    out = []
    for (d, s_) in dominating_edges(body, bb):
        c = Cond(body, d)
        if c.kind != "cmp":
            continue
        truth = c.holds_on(s_)
        if truth is None:
            continue
        for x, y, op in ((c.a, c.b, c.op), (c.b, c.a, {"Lt": "Gt", "Gt": "Lt", "Le": "Ge", "Ge": "Le", "Eq": "Eq", "Ne": "Ne"}[c.op])):
            lo = body.origin(x, through_calls=False)
            if lo[0] == "rv" and lo[2]["rv"]["k"] == "un" and lo[2]["rv"]["op"] == "PtrMetadata":
                # the length of a slice as a slice pattern (`&[a, b, ..]`) reads it
                eff = op if truth else {"Lt": "Ge", "Ge": "Lt", "Gt": "Le", "Le": "Gt", "Eq": "Ne", "Ne": "Eq"}[op]
                ids = _buf_ids(body, lo[2]["rv"]["a"])
                if not _mutated_between(body, ids, s_, bb):
                    out.append((ids, eff, y, d))
                continue
            if lo[0] == "call" and re.search(r"(::len|::remaining)$", callee_name(lo[2]) or ""):
                eff = op if truth else {"Lt": "Ge", "Ge": "Lt", "Gt": "Le", "Le": "Gt", "Eq": "Ne", "Ne": "Eq"}[op]
                ids = _buf_ids(body, lo[2]["ops"][0])
                # the length must still be current at the site: nothing may shrink the buffer between the *read* of
                # the length (which can be earlier than the comparison: `let available = bytes.len(); ...`) and the site
                if _mutated_between(body, ids, s_, bb) or (isinstance(lo[1], int) and _mutated_between(body, ids, lo[1], bb)):
                    continue
                out.append((ids, eff, y, d))
    return out


def _buf_ids(body, op, through_clone=True):
    """Identity of a buffer value: base places through refs / deref / as_ref / clone-of-Bytes."""
    ids = set()
    cur = op
    for _ in range(10):
        if cur is None or cur.get("k") == "const":
            break
        pl = cur["pl"] if "pl" in cur else cur
        ids.add(_pk(pl))
        ds = body.whole_defs(pl["l"])
        if len(ds) != 1 or [p for p in pl["p"] if p != "deref"]:
            break
        d = ds[0]
        if d[0] == "stmt" and d[3]["rv"]["k"] in ("use", "ref"):
            rv = d[3]["rv"]
            cur = rv["op"] if rv["k"] == "use" else {"k": "copy", "pl": rv["pl"]}
            continue
        if d[0] == "call" and re.search(r"(Deref::deref|DerefMut::deref_mut|AsRef::as_ref|AsMut::as_mut|Borrow::borrow)$" if not through_clone else r"(Deref::deref|DerefMut::deref_mut|AsRef::as_ref|AsMut::as_mut|Clone::clone|Decoder::get_buf|Borrow::borrow)$", callee_name(d[2]) or ""):
            cur = d[2]["ops"][0]
            continue
        break
    return ids


MUTATORS = re.compile(r"(Buf::advance|Buf::get_\w+|Buf::copy_to_\w+|Bytes::split_to|Bytes::split_off|Bytes::truncate|Bytes::clear|BytesMut::\w+|Decoder::advance_by|Decoder::try_decode|Vec::\w+|VecDeque::\w+)$")


def _mutated_between(body, ids, start, site_bb):
    """Is there a call that may shrink the buffer on a path from the guard edge to the site?"""
    reach = body.reachable_from(start)
    for i in reach:
        if i == site_bb:
            continue
        t = body.term(i)
        if t["k"] != "call" or not t["ops"]:
            continue
        nm = callee_name(t) or ""
        rs = callee_resolved(t) or nm
        if not (MUTATORS.search(nm) or MUTATORS.search(rs)):
            continue
        o = t["ops"][0]
        if o.get("k") == "const":
            continue
        ty = body.locals[o["pl"]["l"]]["ty"] if not o["pl"]["p"] else ""
        if not ty.startswith("&mut"):
            continue
        if _buf_ids(body, o, through_clone=False) & ids and site_bb in body.reachable_from(i):
            return True
    return False


BYTES_WIDTH = {"get_u8": 1, "get_i8": 1, "get_u16": 2, "get_i16": 2, "get_u32": 4, "get_i32": 4, "get_u64": 8}


def d_len(site):
    """Amount and len()/remaining() of the same buffer compared directly, failing edge leaves."""
    if site.kind not in ("bytes",):
        return None
    body = site.body
    t = site.term
    meth = site.what.split("(")[0].split("::")[-1]
    if site.extra.get("transfer"):
        return "D-transfer: obligation passed to every caller of %s (each call is a site of its own)" % site.extra["transfer"]
    bids = _buf_ids(body, t["ops"][0])
    if meth in BYTES_WIDTH:
        need_k = BYTES_WIDTH[meth]
        amount = None
    else:
        need_k = None
        amount = t["ops"][1] if len(t["ops"]) > 1 else None
    for gids, eff, other, d in _len_guards(body, site.bb):
        if not (gids & bids):
            continue
        k = body.fold(other)
        if need_k is not None:
            if k is not None and ((eff == "Ge" and k >= need_k) or (eff == "Gt" and k >= need_k - 1)):
                return "D-len: len >= %d established at %s" % (need_k, body.site(d))
        elif amount is not None:
            ka = body.fold(amount)
            if ka is not None and k is not None and ((eff == "Ge" and k >= ka) or (eff == "Gt" and k >= ka - 1)):
                return "D-len: len >= %d established at %s" % (ka, body.site(d))
            # same variable on both sides
            if ka is None and k is None and eff in ("Ge", "Gt"):
                if _value_ids(body, amount) & _value_ids(body, other):
                    return "D-len: amount compared directly with the buffer length at %s" % body.site(d)
    return None


def d_cmp(site):
    """Sub / Add overflow checks protected by a dominating direct comparison of the same operands."""
    if site.kind != "assert":
        return None
    m = re.match(r"Overflow\((Sub|Add)\)", site.extra["msg"])
    if not m:
        return None
    body = site.body
    a, b = site.extra["ops"]
    ida, idb = _value_ids(body, a), _value_ids(body, b)
    kb = body.fold(b)
    for (d, s_) in dominating_edges(body, site.bb):
        c = Cond(body, d)
        if c.kind != "cmp":
            continue
        truth = c.holds_on(s_)
        if truth is None:
            continue
        for x, y, op in ((c.a, c.b, c.op), (c.b, c.a, {"Lt": "Gt", "Gt": "Lt", "Le": "Ge", "Ge": "Le", "Eq": "Eq", "Ne": "Ne"}[c.op])):
            if x.get("k") == "const" or not (_value_ids(body, x) & ida):
                continue
            eff = op if truth else {"Lt": "Ge", "Ge": "Lt", "Gt": "Le", "Le": "Gt", "Eq": "Ne", "Ne": "Eq"}[op]
            ky = body.fold(y)
            if m.group(1) == "Sub":
                if kb is not None and ky is not None and ((eff == "Ge" and ky >= kb) or (eff == "Gt" and ky >= kb - 1) or (eff == "Ne" and ky == 0 and kb == 1)):
                    return "D-cmp: a %s %d established at %s" % (eff, ky, body.site(d))
                if y.get("k") != "const" and (_value_ids(body, y) & idb) and eff in ("Ge", "Gt"):
                    return "D-cmp: a %s b established at %s" % (eff, body.site(d))
            else:
                if kb is not None and eff == "Lt":
                    return "D-cmp: a < bound established at %s (a + %d cannot wrap for %d == 1)" % (body.site(d), kb, kb) if kb == 1 else None
    return None


RXS_ = "io::packet_stream::RxPacketStream"


def _sfield(body, x):
    """(field, sub-field) of RxPacketStream an operand denotes: ('size', None), ('packet', 'end') ..."""
    if x is None or x.get("k") == "const":
        return None
    o = body.origin(x, through_calls=True)
    if o[0] != "place":
        return None
    fs = place_fields(o[1])
    for k, (a, n) in enumerate(fs):
        if a == RXS_:
            sub = fs[k + 1][1] if k + 1 < len(fs) else None
            return (n, sub)
    return None


def _size_field(body):
    """The stream field that counts the buffered bytes, read off the unit itself: the field S of `buf.resize(S + chunk, _)`
    (the buffer is made at least S + chunk long before every read)."""
    c = body.__dict__.setdefault("_size_field_cache", [])
    if not c:
        found = set()
        for i, t in body.calls(r"BytesMut::resize$"):
            if len(t["ops"]) < 2 or _sfield(body, t["ops"][0]) is None:
                continue
            o = body.origin(t["ops"][1], through_calls=False)
            rv = o[2]["rv"] if o[0] == "rv" else None
            if rv is None and o[0] == "place" and o[1]["p"] and isinstance(o[1]["p"][-1], dict) and o[1]["p"][-1].get("f") == 0:
                ds = body.whole_defs(o[1]["l"])
                if len(ds) == 1 and ds[0][0] == "stmt":
                    rv = ds[0][3]["rv"]
            if rv is not None and rv["k"] == "bin" and rv["op"] == "Add":
                for x in (rv["a"], rv["b"]):
                    sf = _sfield(body, x)
                    if sf is not None:
                        found.add(sf)
        c.append(found.pop() if len(found) == 1 else ("size", None))
    return c[0]


def _size_ge_packet_end(body, bb, end=("packet", "end")):
    """A dominating edge on which `size >= packet.end` holds (the complete packet is in the buffer)."""
    size = _size_field(body)
    if end == size:
        return None
    for (d, s_) in dominating_edges(body, bb):
        c = Cond(body, d)
        if c.kind != "cmp" or c.holds_on(s_) is None:
            continue
        for x, y, op in ((c.a, c.b, c.op), (c.b, c.a, {"Lt": "Gt", "Gt": "Lt", "Le": "Ge", "Ge": "Le", "Eq": "Eq", "Ne": "Ne"}[c.op])):
            y_is_end = _sfield(body, y) == end
            if not y_is_end and end == ("packet", "end") and y is not None and y.get("k") != "const":
                # `size.checked_sub(packet.len())`: the length of the range is its end while its start is only ever 0
                ay = body.atoms(y)
                y_is_end = any(q[0] == "call" and q[1].endswith("::len") for q in ay) and any(q[0] == "field" and q[1] == RXS_ and q[2] == "packet" for q in ay) \
                    and _packet_start_is_zero(body)
            if _sfield(body, x) == size and y_is_end:
                eff = op if c.holds_on(s_) else {"Lt": "Ge", "Ge": "Lt", "Gt": "Le", "Le": "Gt", "Eq": "Ne", "Ne": "Eq"}[op]
                if eff in ("Ge", "Gt", "Eq"):
                    return d
    return None


def _packet_start_is_zero(body):
    """Every write to RxPacketStream.packet.start in this unit stores the constant 0 (and the field is created 0..0)."""
    ok, n = True, 0
    for i in sorted(body.reach):
        for st in body.blocks[i]["stmts"]:
            if st["k"] != "assign":
                continue
            fs = place_fields(st["lhs"])
            if not fs and "deref" in st["lhs"]["p"]:
                sf = _sfield(body, {"k": "copy", "pl": {"l": st["lhs"]["l"], "p": []}})
                fs = [(RXS_, sf[0]), ("std::ops::Range", sf[1])] if sf else []
            names = [n_ for a_, n_ in fs]
            if "packet" in names and (names[-1] == "start" or names[-1] == "packet"):
                n += 1
                if names[-1] == "start":
                    ok = ok and st["rv"]["k"] == "use" and body.fold(st["rv"]["op"]) == 0
                else:
                    ok = False
    return ok


def d_stream(site):
    """Arithmetic of RxPacketStream::poll_next that rests on what the framer itself established a few statements
    earlier (the relations are read off the unit's own guards and statements, not off names):
    (a) size + n, n the count returned by poll_read into buf[size .. size + chunk]: n <= chunk and size + chunk was
        computed (overflow-checked) for the resize;
    (b) size - packet.len() / size - packet.end and buf.split_to(packet.end) on an edge where size >= packet.end holds,
        with packet.start only ever 0 (so packet.len() == packet.end)."""
    body = site.body
    if not strip_generics(body.path).endswith("poll_next") or RXS_ not in body.path:
        return None
    if site.kind == "assert" and site.extra["msg"].startswith("Overflow(Add)"):
        a, b = site.extra["ops"]
        for x, y in ((a, b), (b, a)):
            if _sfield(body, x) == _size_field(body) and y.get("k") != "const" and any(q[0] == "call" and q[1].endswith("poll_read") for q in body.atoms(y)):
                for i, t in body.calls(r"AsyncRead::poll_read$"):
                    if not body.dominates(i, site.bb):
                        continue
                    dst = body.origin(t["ops"][2]) if len(t["ops"]) > 2 else ("?",)
                    if dst[0] == "call" and (callee_name(dst[2]) or "").endswith("index_mut"):
                        rng = symex(body, dst[2]["ops"][1])
                        if rng[0] == "agg" and len(rng[2]) == 2 and rng[2][1][0] == "bin" and rng[2][1][1] == "Add" and rng[2][0] in (rng[2][1][2], rng[2][1][3]):
                            st_leaf = [l for l in sym_leaves(rng[2][0]) if l[0] == "place"]
                            if st_leaf and any((RXS_, _size_field(body)[0]) in set(l[2]) for l in st_leaf):
                                return "D-stream: size + n with n the byte count of a read into buf[size..size+chunk] (n <= chunk, and size + chunk was computed without overflow for that slice at %s)" % body.site(i)
    if site.kind == "assert" and site.extra["msg"].startswith("Overflow(Sub)"):
        a, b = site.extra["ops"]
        if _sfield(body, a) == _size_field(body):
            fb = _sfield(body, b)
            is_len = b.get("k") != "const" and any(q[0] == "call" and q[1].endswith("::len") for q in body.atoms(b)) and \
                any(q[0] == "field" and q[1] == RXS_ and q[2] == "packet" for q in body.atoms(b))
            if is_len:
                fb = ("packet", "end")
            if fb is not None:
                g = _size_ge_packet_end(body, site.bb, fb)
                if g is not None and (not is_len or _packet_start_is_zero(body)):
                    return "D-stream: size - (length of the packet) on the edge size >= packet.end established at %s (packet.start is only ever 0)" % body.site(g)
    if site.kind == "bytes" and "split_to" in site.what and site.term is not None and len(site.term["ops"]) >= 2:
        t = site.term
        if _sfield(body, t["ops"][0]) == ("buf", None):
            n = t["ops"][1]
            o = body.origin(n, through_calls=False)
            if o[0] == "call" and (callee_name(o[2]) or "").endswith("mem::replace"):
                n = o[2]["ops"][0]
            nf = _sfield(body, n) or (n.get("k") != "const" and _sfield(body, {"k": "copy", "pl": {"l": n["pl"]["l"], "p": []}})) or None
            if nf:
                g = _size_ge_packet_end(body, site.bb, nf)
                if g is not None:
                    return "D-stream: buf.split_to(packet.end) on the edge size >= packet.end established at %s (buf is resized to at least `size` bytes before every read and shrinks only by this split)" % body.site(g)
    return None


def d_build(ctx, site):
    """`XBuilder::build().unwrap()` where every mandatory field's setter is called on the same builder before the
    build on all paths and the builder has no validate() hook that could refuse."""
    if site.kind != "unwrap" or "Builder::build" not in site.what:
        return None
    body = site.body
    o = body.origin(site.operand, through_calls=False)
    if o[0] != "call":
        return None
    bt = o[2]
    badt = strip_generics(callee_name(bt) or "").rsplit("::", 1)[0]
    from r_codec_rx import builder_info
    bi = builder_info(ctx, badt)
    if bi is None or bi["validate"] is not None:
        return None
    bl = body.base_local(bt["ops"][0])
    called = set()
    for i, t in body.calls(re.escape(badt) + r"::\w+$"):
        if t["ops"] and body.base_local(t["ops"][0]) == bl and body.dominates(i, o[1]):
            called.add(callee_name(t).split("::")[-1])
    missing = bi["mandatory"] - called
    if not missing:
        return "D-build: mandatory fields %s of %s are set before build() on every path" % (sorted(bi["mandatory"]) or "(none)", short_ty(badt))
    return None


# ------------------------------------------------------------------------------------ value ranges

_TYMAX = {"u8": 2 ** 8 - 1, "u16": 2 ** 16 - 1, "u32": 2 ** 32 - 1, "u64": 2 ** 64 - 1, "usize": 2 ** 64 - 1, "bool": 1}
_RANGEFN = {}


def _ty_range(ty):
    return (0, _TYMAX[ty]) if ty in _TYMAX else None


def _join(a, b):
    if a is None or b is None:
        return None
    return (min(a[0], b[0]), max(a[1], b[1]))


def _mut_borrowed(body, l):
    """The local's address is taken mutably (or as a raw pointer) somewhere: assignments are not its only writers."""
    key = ("mutb", l)
    cache = body.__dict__.setdefault("_range_cache", {})
    if key not in cache:
        hit = False
        for i in body.reach:
            for st in body.blocks[i]["stmts"]:
                if st["k"] == "assign" and st["rv"]["k"] in ("ref", "addr") and st["rv"]["pl"]["l"] == l and (st["rv"]["k"] == "addr" or st["rv"].get("mut")):
                    hit = True
                if st["k"] == "assign" and st["lhs"]["l"] == l and st["lhs"]["p"]:
                    hit = True      # partial assignment
        cache[key] = hit
    return cache[key]


def value_range(body, o, depth=0, seen=None):
    """(lo, hi) bounding every value the unsigned integer operand can take, from the constants, the types and the
    arithmetic that define it -- flow-insensitive: a local is bounded by the join over all its assignments; a local that
    depends on itself (a loop counter) or that is written through a reference is bounded by its type only."""
    if o is None or depth > 40:
        return None
    if o.get("k") == "const":
        v = o.get("val")
        if o.get("uneval") and isinstance(o["uneval"].get("eval"), int):
            v = o["uneval"]["eval"]
        if isinstance(v, bool):
            return (int(v), int(v))
        if isinstance(v, int):
            return (v, v) if v >= 0 else None
        if isinstance(v, str) and v.isdigit():
            return (int(v), int(v))
        return _ty_range(o.get("ty"))
    pl = o["pl"]
    ty = _op_ty(body, o)
    tr = _ty_range(ty)
    proj = [p for p in pl["p"]]
    l = pl["l"]
    seen = seen if seen is not None else set()
    checked_part = len(proj) == 1 and isinstance(proj[0], dict) and proj[0].get("f") == 0
    if len(proj) == 2 and isinstance(proj[0], dict) and proj[0].get("dc") == "Some" and isinstance(proj[1], dict) and proj[1].get("f") == 0:
        # `Some(i)` of a position search: i < number of elements searched
        ds_ = body.whole_defs(l)
        if len(ds_) == 1 and ds_[0][0] == "call" and re.search(r"Iterator::r?position$", callee_name(ds_[0][2]) or ""):
            n_ = _iter_len_bound(body, ds_[0][2]["ops"][0])
            if n_ is not None and n_ >= 1:
                return (0, n_ - 1)
        return tr
    if proj and not checked_part:
        return tr
    if l <= body.fn["arg_count"] or _mut_borrowed(body, l) and not checked_part:
        return tr
    if l in seen:
        return tr
    seen = seen | {l}
    ds = body.whole_defs(l)
    if not ds:
        return tr
    acc = "none"
    for d in ds:
        r = None
        if d[0] == "stmt":
            rv = d[3]["rv"]
            if checked_part and not (rv["k"] == "bin" and rv.get("checked")):
                return tr
            if rv["k"] == "use":
                r = value_range(body, rv["op"], depth + 1, seen)
            elif rv["k"] == "cast" and rv.get("kind") == "IntToInt":
                r = value_range(body, rv["op"], depth + 1, seen)
                t2 = _ty_range(rv["ty"])
                if r is None or t2 is None or r[1] > t2[1]:
                    r = t2
            elif rv["k"] == "bin":
                a = value_range(body, rv["a"], depth + 1, seen)
                b = value_range(body, rv["b"], depth + 1, seen)
                r = _range_bin(rv["op"], a, b, bool(rv.get("checked")))
            else:
                r = None
        elif d[0] == "call":
            nm = callee_resolved(d[2]) or ""
            from mir import int_widening as _iw
            if _iw(d[2]) is not None and d[2]["ops"]:
                r = value_range(body, d[2]["ops"][0], depth + 1, seen)      # `usize::from(x)`: the value of x
            else:
                r = _range_fn(nm)
        if r is None:
            return tr
        acc = r if acc == "none" else _join(acc, r)
    if acc == "none" or acc is None:
        return tr
    if tr is not None:
        if acc[1] > tr[1]:
            return tr       # may have wrapped
    return acc


def _iter_len_bound(body, op, depth=0):
    """Upper bound on the number of items an iterator operand can yield (take(n), a slice cut with a bounded range, an
    array), or None."""
    if depth > 12 or op is None or op.get("k") == "const":
        return None
    o = body.origin(op, through_calls=False)
    if o[0] == "rv" and o[2]["rv"]["k"] == "ref":
        return _iter_len_bound(body, {"k": "copy", "pl": o[2]["rv"]["pl"]}, depth + 1)
    if o[0] == "place":
        ty = _op_ty(body, {"k": "copy", "pl": o[1]})
        return _array_len(ty)
    if o[0] != "call":
        return None
    t = o[2]
    nm = callee_name(t) or ""
    if re.search(r"Iterator::take$", nm) and len(t["ops"]) == 2:
        r = value_range(body, t["ops"][1])
        inner = _iter_len_bound(body, t["ops"][0], depth + 1)
        cands = [x for x in (r[1] if r else None, inner) if x is not None]
        return min(cands) if cands else None
    if re.search(r"(Iterator::(rev|map|enumerate|copied|cloned|by_ref|inspect|peekable|fuse|filter|skip|skip_while|take_while|step_by)|IntoIterator::into_iter|slice::<impl \[T\]>::iter(_mut)?|Deref::deref|AsRef::as_ref)$", nm) and t["ops"]:
        return _iter_len_bound(body, t["ops"][0], depth + 1)
    if re.search(r"Index(Mut)?::index(_mut)?$", nm) and len(t["ops"]) == 2:
        ro = body.origin(t["ops"][1], through_calls=False)
        if ro[0] == "agg":
            rv = ro[2]["rv"]
            kind = (rv.get("adt") or "").split("::")[-1]
            rs = [value_range(body, x) for x in rv["ops"]]
            if kind == "RangeToInclusive" and rs and rs[0]:
                return rs[0][1] + 1
            if kind == "RangeTo" and rs and rs[0]:
                return rs[0][1]
            if kind == "Range" and len(rs) == 2 and rs[0] and rs[1]:
                return max(rs[1][1] - rs[0][0], 0)
        return _iter_len_bound(body, t["ops"][0], depth + 1)
    return None


def _range_bin(op, a, b, checked):
    if a is None or b is None:
        if op == "Rem" and b is not None and b[0] > 0:
            return (0, b[1] - 1)
        if op == "BitAnd" and (a is not None or b is not None):
            return (0, (a or b)[1])
        return None
    if op == "Add":
        return (a[0] + b[0], a[1] + b[1])
    if op == "Mul":
        return (a[0] * b[0], a[1] * b[1])
    if op == "Sub":
        if checked:
            return (max(a[0] - b[1], 0), max(a[1] - b[0], 0))       # the value exists only when there was no overflow
        return (a[0] - b[1], a[1] - b[0]) if a[0] >= b[1] else None
    if op == "Div":
        return (a[0] // b[1], a[1] // b[0]) if b[0] > 0 else None
    if op == "Rem":
        return (0, min(a[1], b[1] - 1)) if b[0] > 0 else None
    if op == "BitAnd":
        return (0, min(a[1], b[1]))
    if op == "Shr":
        return (a[0] >> min(b[1], 127), a[1] >> min(b[0], 127))
    if op in ("BitOr", "BitXor"):
        m = max(a[1], b[1])
        return (0, (1 << m.bit_length()) - 1)
    return None


def _range_fn(path):
    """Join of the ranges of everything a crate function returns (its parameters bounded by their types only)."""
    ctx = _CTX[0]
    if ctx is None or not path:
        return None
    if path in _RANGEFN:
        return _RANGEFN[path]
    _RANGEFN[path] = None
    f = ctx.facts.fn(path)
    if f is None or f.get("ret_ty") not in _TYMAX:
        return None
    b = ctx.world.body(path)
    acc = "none"
    for i in sorted(b.reach):
        rs = []
        for st in b.blocks[i]["stmts"]:
            if st["k"] == "assign" and st["lhs"]["l"] == 0:
                if st["lhs"]["p"]:
                    return None
                rv = st["rv"]
                if rv["k"] == "use":
                    rs.append(value_range(b, rv["op"]))
                elif rv["k"] == "bin":
                    rs.append(_range_bin(rv["op"], value_range(b, rv["a"]), value_range(b, rv["b"]), bool(rv.get("checked"))))
                elif rv["k"] == "cast" and rv.get("kind") == "IntToInt":
                    r = value_range(b, rv["op"])
                    t2 = _ty_range(rv["ty"])
                    rs.append(r if (r is not None and t2 is not None and r[1] <= t2[1]) else t2)
                else:
                    rs.append(None)
        t = b.term(i)
        if t["k"] == "call" and t["dest"]["l"] == 0:
            rs.append(_range_fn(callee_resolved(t) or "") if not t["dest"]["p"] else None)
        for r in rs:
            if r is None:
                r = _ty_range(f.get("ret_ty"))
            acc = r if acc == "none" else _join(acc, r)
    if _mut_borrowed(b, 0):
        acc = None
    _RANGEFN[path] = None if acc == "none" else acc
    return _RANGEFN[path]


def _array_len(ty):
    m = re.match(r"&?(?:mut )?\[.*; (\d+)\]$", (ty or "").strip())
    return int(m.group(1)) if m else None


def d_range(site):
    """The check cannot fail for any value in the ranges of its operands (ranges from constants, types, arithmetic and
    the constants a crate function returns): `len - 1` with len in 1..=4, `bytes[len - 1]` / `bytes[..len]` on a [u8; 4]."""
    body = site.body
    if site.kind == "assert":
        ops = site.extra["ops"]
        msg = site.extra["msg"]
        if len(ops) != 2:
            return None
        a, b = value_range(body, ops[0]), value_range(body, ops[1])
        if a is None or b is None:
            return None
        m = re.match(r"Overflow\((\w+)\)", msg)
        if m and m.group(1) == "Sub" and a[0] >= b[1]:
            return "D-range: %s - %s cannot go below zero" % (_fmt_r(a), _fmt_r(b))
        if m and m.group(1) == "Add":
            tm = _ty_range(_op_ty(body, ops[0]))
            if tm and a[1] + b[1] <= tm[1] and (a[1] < tm[1] and b[1] < tm[1]):
                return "D-range: %s + %s fits the type" % (_fmt_r(a), _fmt_r(b))
        if m and m.group(1) == "Mul":
            tm = _ty_range(_op_ty(body, ops[0]))
            if tm and a[1] * b[1] <= tm[1] and (a[1] < tm[1] and b[1] < tm[1]):
                return "D-range: %s * %s fits the type" % (_fmt_r(a), _fmt_r(b))
        if msg == "BoundsCheck" and a[0] == a[1] and b[1] < a[0]:
            return "D-range: index %s into %d elements" % (_fmt_r(b), a[0])
        return None
    if site.kind == "index" and site.term is not None and len(site.term["ops"]) == 2:
        n = _array_len((site.term["callee"] or {}).get("self_ty"))
        if n is None:
            return None
        o = body.origin(site.term["ops"][1], through_calls=False)
        if o[0] != "agg":
            return None
        rv = o[2]["rv"]
        kind = (rv.get("adt") or "").split("::")[-1]
        rs = [value_range(body, x) for x in rv["ops"]]
        if any(r is None for r in rs):
            return None
        if kind == "RangeTo" and rs[0][1] <= n:
            return "D-range: ..%s of an array of %d" % (_fmt_r(rs[0]), n)
        if kind == "RangeToInclusive" and rs[0][1] < n:
            return "D-range: ..=%s of an array of %d" % (_fmt_r(rs[0]), n)
        if kind == "RangeFrom" and rs[0][1] <= n:
            return "D-range: %s.. of an array of %d" % (_fmt_r(rs[0]), n)
        if kind == "Range" and len(rs) == 2 and rs[1][1] <= n and rs[0][1] <= rs[1][0]:
            return "D-range: %s..%s of an array of %d" % (_fmt_r(rs[0]), _fmt_r(rs[1]), n)
    return None


def _fmt_r(r):
    return str(r[0]) if r[0] == r[1] else "[%d, %s]" % (r[0], r[1] if r[1] < 2 ** 32 else "2^%d-1" % r[1].bit_length())



def d_posrange(site):
    """`slice[..=i]` / `slice[..i]` / `slice[i]` where i is the `Some` payload of `position(..)` over an iterator of the
    same slice: position() returns an index smaller than the number of elements it looked at."""
    if site.kind != "index" or site.term is None or len(site.term["ops"]) != 2:
        return None
    body = site.body
    t = site.term
    base = body.base_local(t["ops"][0])
    o = body.origin(t["ops"][1], through_calls=False)
    idx_ops = o[2]["rv"]["ops"] if o[0] == "agg" else [t["ops"][1]]
    kind = (o[2]["rv"].get("adt") or "").split("::")[-1] if o[0] == "agg" else "index"
    if kind not in ("RangeToInclusive", "RangeTo", "index") or len(idx_ops) != 1:
        return None
    io = body.origin(idx_ops[0], through_calls=False)
    if io[0] != "place":
        return None
    pr = [p for p in io[1]["p"] if p != "deref"]
    if not (len(pr) == 2 and isinstance(pr[0], dict) and pr[0].get("dc") == "Some"):
        return None
    ds = body.whole_defs(io[1]["l"])
    if len(ds) != 1 or ds[0][0] != "call" or not re.search(r"Iterator::position$", callee_name(ds[0][2]) or ""):
        return None
    recv = ds[0][2]["ops"][0]
    same = base is not None and (body.base_local(recv) == base or any(a[0] in ("local", "param") and a[1] == base for a in body.atoms(recv)))
    adaptors = [a[1] for a in body.atoms(recv) if a[0] == "call" and re.search(r"Iterator::(rev|skip|step_by|chain|flat_map|filter|skip_while|cycle|zip)$", a[1])]
    if same and not adaptors:
        return "D-posrange: the index is the result of position() over the elements of the same slice, front to back (smaller than its length)"
    return None


def d_fold(site):
    """Arithmetic checks inside the closure of `iter.fold(init, |acc, x| ..)` when the number of rounds is bounded (take(n),
    a slice cut at a bounded index): the closure is interpreted abstractly round by round (acc from the previous round,
    the item bounded by its type); discharged when no check can fail in any round."""
    if site.kind != "assert":
        return None
    body = site.body
    if body.fn["kind"] != "closure" or body.fn["arg_count"] != 3:
        return None
    ctx = _CTX[0]
    if ctx is None:
        return None
    key = ("fold", body.path)
    cache = ctx.__dict__.setdefault("_fold_cache", {})
    if key not in cache:
        cache[key] = None
        parent = body.fn.get("parent")
        pb = ctx.world.body(parent) if parent and ctx.facts.fn(parent) else None
        if pb is not None:
            for i, t in pb.calls(r"Iterator::fold$"):
                if len(t["ops"]) != 3 or _fn_value(pb, t["ops"][2]) != body.path:
                    continue
                n = _iter_len_bound(pb, t["ops"][0])
                init = value_range(pb, t["ops"][1])
                if n is None or n > 16 or init is None:
                    continue
                import absint
                acc = absint.iv(init[0], init[1])
                item_ty = body.locals[3]["ty"]
                it = _ty_range(item_ty.replace("&", "").replace("mut ", "").strip())
                ok = it is not None
                rounds = 0
                for k in range(n):
                    if not ok:
                        break
                    ex = absint.Explorer(body, max_bytes=0, max_states=2000, report_wrap=not ctx.facts.config.get("overflow_checks", True))
                    cell = 10 ** 6
                    args = {2: acc, cell: absint.iv(it[0], it[1])}
                    args[3] = ("ref", {"l": cell, "p": []}) if "&" in item_ty else absint.iv(it[0], it[1])
                    ex.run(args)
                    rets = [r[1] for r in ex.returns]
                    if ex.failures or ex.unbounded or ex.blind or not rets or not all(absint.is_int(r) for r in rets):
                        ok = False
                        break
                    acc = absint.iv(min(r[1] for r in rets), max(r[2] for r in rets))
                    rounds += 1
                if ok and rounds == n:
                    cache[key] = "D-fold: at most %d round(s) of the fold at %s (accumulator stays within [%d, %d]): no check of the closure can fail" % (n, pb.site(i), acc[1], acc[2])
    return cache[key]


def d_minhdr(site):
    """`&buf[1..]` (or `[k..]`, k <= 2) on the receive buffer of RxPacketStream::poll_next, directly or through a helper the
    buffer is handed to: the length parse runs only in the state that is entered with at least two bytes buffered
    (rule MINHDR decides that; the discharge is void while MINHDR fails)."""
    if site.kind != "index" or site.term is None or len(site.term["ops"]) != 2:
        return None
    body = site.body
    if not strip_generics(body.path).endswith("poll_next") or RXS_ not in body.path:
        return None
    o = body.origin(site.term["ops"][1], through_calls=False)
    if o[0] != "agg" or (o[2]["rv"].get("adt") or "").split("::")[-1] != "RangeFrom":
        return None
    k = body.fold(o[2]["rv"]["ops"][0])
    if k is None or k > 2:
        return None
    if not any(a[0] == "field" and a[1] == RXS_ and a[2] == "buf" for a in body.atoms(site.term["ops"][0])):
        return None
    return "D-linked[MINHDR] &buf[%d..] of the receive buffer: the length parse runs only in the state entered with size >= 2 (MINHDR), and the buffer holds at least `size` bytes" % k


def d_subid(site):
    """`VarSizeInt::try_from(id).unwrap()` / `NonZero::try_from(..).unwrap()` on the subscription identifier of subscribe():
    the value comes from the 32-bit counter that starts at 1 and only ever advances by one (SUBREG / IDALLOC decide
    that); zero or a value above 268 435 455 needs more than 2^28 subscribe() calls on one client, outside the stated
    domain of C11. However many conversions the value goes through, each of them rests on the same argument."""
    if site.kind != "unwrap" or site.term is None:
        return None
    body = site.body
    if not re.search(r"ContextHandle::subscribe", body.path):
        return None
    cur = site.operand
    ok_conv = False
    for _ in range(8):
        o = body.origin(cur, through_calls=False)
        if o[0] == "call":
            nm = callee_name(o[2]) or ""
            c = o[2].get("callee") or {}
            tgt = (c.get("self_ty") or "") + " " + " ".join(c.get("args") or [])
            if (nm.endswith("TryFrom::try_from") or nm.endswith("TryInto::try_into")) and ("VarSizeInt" in tgt or "NonZero" in tgt) and o[2]["ops"]:
                ok_conv = True
                cur = o[2]["ops"][0]
                continue
            if re.search(r"(Result::<[^>]*>::(unwrap|and_then|map)|Result::(unwrap|and_then|map)|From::from|Into::into|VarSizeInt::value)$", nm) and o[2]["ops"]:
                cur = o[2]["ops"][0]
                continue
        break
    at = body.atoms(site.operand)
    if not ok_conv:
        # the conversions chained with combinators (`try_from(v).and_then(NonZero::try_from).map(..)`), expanded by the
        # flattener into a value built on several branches
        ok_conv = any(a[0] == "call" and "try_from" in a[1] and ("VarSizeInt" in a[1] or "NonZero" in a[1]) for a in at) and "Result" in site.what
    if not ok_conv:
        return None
    from r_flow import _counter_fields
    ctx = _CTX[0]
    ctr = _counter_fields(ctx, 32) if ctx is not None else set()
    if any(a[0] == "call" and re.search(r"atomic::Atomic\w*(::<[^>]*>)?::fetch_add$", a[1]) for a in at) and any(a[0] == "field" and a[2] in ctr for a in at):
        return "D-linked[SUBREG] conversion of the subscription identifier taken from the 32-bit counter (starts at 1, +1 per subscribe()): fails only after more than 2^28 subscribe() calls (outside the domain of C11)"
    return None


def d_tablebit(site):
    """`x << bit` inside a private helper of the codec that folds a table of (flag, bit position) pairs into a byte
    (`pack_flags(base, &[(cond, 7), ..])`): the shift amount is the second component of a table entry, and every call
    of the helper in the crate hands over an array literal whose bit positions are constants below the width of the
    shifted type. Decided over all call sites; void as soon as one of them passes anything else."""
    if site.kind != "assert" or not str(site.extra.get("msg", "")).startswith("Overflow(Shl)"):
        return None
    ctx = _CTX[0]
    body = site.body
    if ctx is None or body.fn["kind"] != "closure":
        return None
    ops = site.extra.get("ops") or []
    if len(ops) != 2 or ops[1].get("k") == "const":
        return None
    # the amount is a component of the closure's last parameter (the table entry)
    at = body.atoms(ops[1])
    nparam = body.fn["arg_count"]
    if not any(a[0] == "param" and a[1] == nparam for a in at):
        return None
    parent = body.fn.get("parent") or re.sub(r"::\{closure#\d+\}$", "", body.path)
    pf = ctx.facts.fn(parent)
    if pf is None or pf["kind"] != "fn" or pf.get("vis") == "pub" or not parent.startswith("codec::"):
        return None
    slice_params = [k for k, t_ in enumerate(pf.get("sig_in") or []) if re.fullmatch(r"&('\w+ )?\[\(bool, u8\)\]", t_ or "")]
    if len(slice_params) != 1:
        return None
    k = slice_params[0]
    width = 8
    n_sites = 0
    for f_ in ctx.facts.fns:
        cb = ctx.world.body(f_["path"])
        for i, t in cb.calls():
            if strip_generics(callee_resolved(t) or callee_name(t) or "") != strip_generics(parent):
                continue
            n_sites += 1
            if k >= len(t["ops"]):
                return None
            cur = t["ops"][k]
            arr = None
            for _ in range(6):
                if cur.get("k") not in ("move", "copy") or [p for p in cur["pl"]["p"] if p != "deref"]:
                    return None
                ds = cb.whole_defs(cur["pl"]["l"])
                if len(ds) != 1 or ds[0][0] != "stmt":
                    return None
                rv = ds[0][3]["rv"]
                if rv["k"] == "agg" and rv.get("what") == "array":
                    arr = rv
                    break
                if rv["k"] in ("use", "cast"):
                    cur = rv["op"]
                elif rv["k"] == "ref":
                    cur = {"k": "copy", "pl": rv["pl"]}
                else:
                    return None
            if arr is None:
                return None
            for o in arr["ops"]:
                oo = cb.origin(o, through_calls=False)
                if oo[0] != "agg" or oo[2]["rv"].get("what") != "tuple" or len(oo[2]["rv"]["ops"]) != 2:
                    return None
                v = cb.fold(oo[2]["rv"]["ops"][1])
                if v is None or not (0 <= v < width):
                    return None
    if n_sites == 0:
        return None
    return "D-table: shift by a bit position taken from the table of %s; all %d call site(s) pass array literals whose positions are constants below %d" % (parent.split("::")[-1], n_sites, width)


def d_callsites(site):
    """An overflow / shift-range check inside a small private function whose arguments are constants at every call (the
    position of a byte: `septet(b2, 2)` computes `(b & 0x7f) << (7 * idx)`): the function body is interpreted abstractly
    (intervals) once per call site of the crate, with the constant arguments that call passes and the full range of their
    type for the others; the site is discharged when the check cannot fail at any of them."""
    if site.kind != "assert":
        return None
    ctx = _CTX[0]
    body = site.body
    f = body.fn
    if ctx is None or f["kind"] != "fn" or f.get("vis") == "pub" or body.fn.get("flat") or not (1 <= f["arg_count"] <= 4):
        return None
    RANGE = {"u8": (0, 255), "u16": (0, 65535), "u32": (0, 2 ** 32 - 1), "u64": (0, 2 ** 64 - 1), "usize": (0, 2 ** 64 - 1), "bool": (0, 1)}
    ptys = [body.locals[k]["ty"] for k in range(1, f["arg_count"] + 1)]
    if any(t_ not in RANGE for t_ in ptys):
        return None
    if len([1 for blk in body.blocks if not blk["cleanup"]]) > 40:
        return None
    import absint
    n_sites = 0
    for g in ctx.facts.fns:
        cb = ctx.world.body(g["path"])
        for i, t in cb.calls():
            if strip_generics(callee_resolved(t) or callee_name(t) or "") != strip_generics(body.path):
                continue
            if len(t["ops"]) != f["arg_count"]:
                return None
            n_sites += 1
            args = {}
            for k, o in enumerate(t["ops"]):
                v = cb.fold(o)
                lo, hi = RANGE[ptys[k]]
                args[k + 1] = absint.iv(v, v) if isinstance(v, int) and not isinstance(v, bool) and lo <= v <= hi else absint.iv(lo, hi)
            ex = absint.Explorer(body, max_bytes=0, max_states=600)
            try:
                ex.run(args)
            except Exception:
                return None
            if ex.unbounded or any(bb == site.bb for bb, _, _ in ex.failures):
                return None
    if n_sites == 0:
        return None
    return "D-callsites: the check cannot fail for the arguments of any of the %d call(s) of %s in the crate (constants as passed, full range of the type otherwise; interval interpretation of the body)" % (n_sites, short_ty(strip_generics(body.path)))


def d_rspack(site):
    """The `_ => unreachable!()` arm of the match a handle operation applies to the value its own oneshot receiver
    yields (written in the operation, in a closure of it, or in a private helper of the client layer that the
    operation calls, e.g. an extension trait `RxPacket::expect_puback`): the site is reached only on the edge "any
    other variant" of a match on an RxPacket that lists exactly one variant. RSP-VARIANT decides, on the operation with
    such helpers looked at in place, that the listed variant is the acknowledgement the standard prescribes for the
    request the operation enqueued; KEY and LOOKUP decide that the context completes a waiter only with the packet
    whose key equals the key registered for it. The discharge is void while any of them fails."""
    if site.kind != "panic":
        return None
    body = site.body
    ctx = _CTX[0]
    if ctx is None or ctx.layer_of(body.path) != "client":
        return None
    p = body.path
    in_op = bool(re.match(r"client::handle::ContextHandle::(ping|publish|subscribe|unsubscribe|disconnect)(::|$)", strip_generics(p)))
    if not in_op:
        root = re.sub(r"(::\{closure#\d+\})+$", "", p)
        in_op = any(root in (b_.fn.get("inlined") or []) or p in (b_.fn.get("inlined") or []) for b_ in ctx.handle_ops().values())
    if not in_op:
        return None
    from ctx import RXPACKET
    for sb in body.dominators(site.bb):
        si = body.switch_info(sb)
        if not si or si["kind"] != "discr" or si.get("adt") != RXPACKET or len(si["targets"]) != 1 or si["otherwise"] is None:
            continue
        tgt = si["targets"][0][1]
        if body.dominates(si["otherwise"], site.bb) and site.bb not in body.reachable_from(tgt, avoid=[sb]):
            return "D-linked[RSP-VARIANT,KEY,LOOKUP] the arm `any other packet` of the match on the awaited acknowledgement (only RxPacket::%s is listed): the waiter is completed only with the acknowledgement registered for its request" % si["variants"].get(si["targets"][0][0])
    return None


def d_authtx(site):
    """`self.authentication_method.unwrap()` / `self.authentication_data.unwrap()` in the encoder of AuthTx (whichever
    private function of the type holds it): the packet was built by AuthTxBuilder, whose validate() refuses a
    non-shortened AUTH lacking either (rule MANDATORY, AuthTxBuilder rows); the discharge is void while MANDATORY fails."""
    if site.kind != "unwrap" or site.operand is None:
        return None
    body = site.body
    p = re.sub(r"<'\w+>", "", strip_generics(body.path))
    if not (p.startswith("codec::auth::AuthTx::") or "codec::auth::AuthTx as core::utils::Encode" in p):
        return None
    fs = {a[2] for a in body.atoms(site.operand) if a[0] == "field" and re.sub(r"<.*$", "", a[1] or "").endswith("codec::auth::AuthTx")}
    if fs and fs <= {"authentication_method", "authentication_data"} and any(a[0] == "param" and a[1] == 1 for a in body.atoms(site.operand)):
        return "D-linked[MANDATORY] AuthTx.%s is present in every AuthTx that reaches the full encoding: AuthTxBuilder::validate refuses a non-shortened AUTH without it" % sorted(fs)[0]
    return None


def d_quota(site):
    """`send_quota + 1` on an edge establishing send_quota != / < remote_receive_maximum: safe under the invariant
    send_quota <= remote_receive_maximum <= 65535, which is what the QUOTA rules establish (linked)."""
    if site.kind != "assert" or not site.extra["msg"].startswith("Overflow(Add)"):
        return None
    body = site.body
    a, b = site.extra["ops"]
    if body.fold(b) != 1:
        return None
    if not any(x[0] == "field" and x[2] == "send_quota" and (x[1] or "").endswith("Connection") for x in body.atoms(a)):
        return None
    from r_quota import _inc_guard
    g = _inc_guard(body, site.bb)
    if g:
        return "D-linked[QUOTA-INC]: send_quota + 1 on the edge send_quota %s remote_receive_maximum (%s)" % (g[0][2], body.site(g[0][0]))
    return None


def d_posindex(site):
    """`deque[pos]` where pos was found by a position search over the same deque and the deque is not changed between the
    search and the access."""
    if site.kind != "index" or site.term is None or len(site.term["ops"]) < 2:
        return None
    body = site.body
    t = site.term
    cont_f = {(a[1], a[2]) for a in body.atoms(t["ops"][0]) if a[0] == "field" and "VecDeque" in _field_ty(body, a)}
    if not cont_f:
        return None
    searches = []
    for i, tt in body.calls(r"(client::utils::linear_search_by_key|Iterator::position|Iterator::rposition)$"):
        if not tt["ops"]:
            continue
        sf = {(a[1], a[2]) for a in body.atoms(tt["ops"][0]) if a[0] == "field"}
        if sf & cont_f and i != site.bb and site.bb in body.reachable_from(i):
            # the index value derives from this search's result
            if any(a[0] == "call" and a[1] == (callee_resolved(tt) or "") for a in body.atoms(t["ops"][1])):
                searches.append(i)
    if not searches:
        return None
    from effects import effects as _effects
    ctx = _CTX[0]
    effs = ctx.effects(body) if ctx is not None else []
    for sb in searches:
        between = {x for x in body.reachable_from(sb) if site.bb in body.reachable_from(x)} - {site.bb}
        for e in effs:
            if e.kind in ("Push", "Remove", "Clear", "OtherDeque") and e.bb in between and ({(SESSION_, f) for f in e.detail["fields"]} & cont_f):
                return None
    return "D-posindex: the index is the result of a position search over the same deque (%s), which is not modified between the search and the access" % sorted(f[1] for f in cont_f)


def d_keydomain(site):
    """Sites inside the two key functions (tx_action_id / rx_action_id): the `unreachable!` arms for packet types /
    QoS 0 and the unwrap of a PUBLISH's packet identifier. They are partial functions; VARIANT-DOMAIN shows that every
    call site passes a value inside the domain (linked: void while that rule is violated)."""
    p = strip_generics(site.body.path)
    if not re.search(r"client::utils::(tx_action_id|rx_action_id)$", p):
        return None
    if site.kind == "panic" and "unreachable code" in site.what:
        return "D-linked[VARIANT-DOMAIN]: unreachable arm of a key function; every call site passes a packet inside its domain"
    if site.kind == "unwrap" and site.operand is not None and any(a[0] == "field" and a[2] == "packet_identifier" for a in site.body.atoms(site.operand)):
        return "D-linked[VARIANT-DOMAIN]: packet identifier of a PUBLISH handed to tx_action_id only in the QoS 1 / QoS 2 branches, where it is set"
    return None


def d_varint(site):
    """Overflow / shift-range assertions inside VarSizeInt::try_from(&[u8]): VARINT-GUARD interprets the function over
    every input and shows that none of them can fail (linked)."""
    if site.kind == "assert" and re.search(VARINT_FN, site.body.path):
        return "D-linked[VARINT-GUARD]: arithmetic of the variable byte integer decoder, shown unfailing for every input by abstract interpretation"
    return None


SESSION_ = "client::context::Session"


def _field_ty(body, atom):
    adt = body.facts.adt(atom[1]) if body.facts else None
    if not adt:
        return ""
    for v in adt["variants"]:
        for f in v["fields"]:
            if f["name"] == atom[2]:
                return f["ty"]
    return ""


def load_ledger():
    p = os.path.join(VERIF, "rules", "panic_ledger.json")
    with open(p) as fh:
        return json.load(fh)


def panic_units(ctx, reach):
    """The reachable code as analysis units: every reachable function in flattened form (helpers of its own layer,
    awaited async helpers, combinator closures inlined), minus the functions that are covered by being inlined into
    another unit. A site that a refactoring moves into a new private helper therefore stays in the same unit, next to
    the guards that protect it."""
    cache = ctx.__dict__.setdefault("_panic_units", None)
    if cache is not None:
        return cache
    flats = {}
    for p in sorted(reach):
        raw = ctx.world.body(p)
        if raw is None or not raw.fn["file"].startswith("src/"):
            continue
        # the layers whose code is control flow around effects (client, io) are looked at in flattened form; the codec
        # and the primitives are straight-line decoders / encoders whose sites are discharged function by function
        if ctx.layer(p) not in ("client", "io"):
            flats[p] = raw
            continue
        try:
            flats[p] = ctx.flat(raw)
        except AnchorLost:
            flats[p] = raw
    covered = set()
    for p, b in flats.items():
        inl = set(b.fn.get("inlined", []))
        inl |= {q[:-len("::{closure#0}")] for q in inl if q.endswith("::{closure#0}")}
        covered |= (inl - {p})
    units = [b for p, b in sorted(flats.items()) if p not in covered]
    ctx.__dict__["_panic_units"] = units
    return units


def all_sites(ctx):
    _CTX[0] = ctx
    _LENFN.clear()
    reach = reachable_bodies(ctx)
    sites = []
    counters = {}       # ordinals are global per key text (closure numbers are normalised away)
    for body in panic_units(ctx, reach):
        p = body.path
        ctx.note(body)
        ss = enumerate_sites(ctx, body)
        for s_ in ss:
            base = "%s|%s|%s" % (fn_key(p), s_.kind, s_.what)
            counters[base] = counters.get(base, 0) + 1
            s_.key = "%s#%d" % (base, counters[base])
        sites += ss
    return reach, sites


def d_derive(site):
    if site.body.fn["from_expansion"] and site.kind == "panic" and "unreachable" in site.what and re.search(r" as std::(cmp|clone|fmt|hash|default)::", site.body.path):
        return "D-derive: compiler-generated arm of a derived impl (discriminants were compared equal before)"
    return None


def discharge(ctx, site, ledger):
    r = d_derive(site)
    if r:
        return r
    for f in (d_const, d_guard, d_range, d_posrange, d_fold, d_minhdr, d_subid, d_authtx, d_rspack, d_tablebit, d_callsites, d_memlen, d_lenfit, d_len, d_cmp, d_quota, d_posindex, d_keydomain, d_stream, d_varint):
        r = f(site)
        if r:
            return r
    r = d_build(ctx, site)
    if r:
        return r
    e = ledger.get(site.key)
    if e:
        return "ledger: " + e["reason"] + (" [-> %s]" % e["rule"] if e.get("rule") else "")
    return None


@rule("PANIC", floor=150, floor_release=90)
def panic_rule(ctx):
    """Every panic-capable site reachable from the inbound roots (RxPacketStream::poll_next, connect,
    authorize, run) is discharged by a dominating guard, a direct length comparison, constant folding,
    the in-memory-length argument, or a named ledger entry with a reason."""
    ledger = load_ledger()["entries"]
    reach, sites = all_sites(ctx)
    out = []
    used = set()
    auto_links = set()
    for s_ in sites:
        r = discharge(ctx, s_, ledger)
        if r and r.startswith("ledger"):
            used.add(s_.key)
        if r and r.startswith("D-linked["):
            auto_links |= {x.strip() for x in r[len("D-linked["):].split("]")[0].split(",")}
        out.append(Inst("PANIC", s_.key, r is not None, s_.site(), "%s site `%s` on %s: %s" % (s_.kind, s_.what, s_.prov or "-", r or "NOT discharged"),
                        "a dominating guard, a direct length comparison, constant folding, or a ledger entry with a reason"))
    import engine as _eng
    links = sorted({r_.strip() for k in used if ledger[k].get("rule") for r_ in ledger[k]["rule"].split(",")} | auto_links)
    for l in links:
        if l not in _eng.RULES:
            out.append(Inst("PANIC", "ledger-link:%s" % l, False, "rules/panic_ledger.json", "ledger entries rely on rule %s, which does not exist" % l, "every linked rule is implemented"))
            continue
        res = _eng.run_rule(l, ctx)
        bad = [r.key for r in res if not r.ok]
        out.append(Inst("PANIC", "ledger-link:%s" % l, not bad, "rules/panic_ledger.json",
                        "ledger entries rely on rule %s: %s" % (l, "holds (%d instances)" % len(res) if not bad else "FAILS for %s" % bad[:4]),
                        "a ledger justification is void while the rule it links to is violated"))
    stale = sorted(set(ledger) - used - {k for k in ledger if ledger[k].get("config") == "debug-only" and not ctx.facts.config["overflow_checks"]})
    ctx.analysed["panic_bodies"] = len(reach)
    ctx.analysed["panic_sites"] = len(sites)
    ctx.analysed["ledger_entries_used"] = len(used)
    ctx.analysed["ledger_entries_stale"] = stale[:20]
    return out


def fixed_width_decoders(ctx):
    out = []
    for im in ctx.facts.impls:
        tr = im.get("trait")
        if not tr or not tr["path"].endswith("utils::TryDecode"):
            continue
        if im["self_ty"] in ("u8", "u16", "u32", "u64", "bool") or re.fullmatch(r"[ui]\d+", im["self_ty"]):
            for it in im["items"]:
                if it["kind"] == "fn" and it["name"] == "try_decode":
                    out.append((im["self_ty"], ctx.world.body(it["def"])))
    return out


WIDTH = {"u8": 1, "bool": 1, "u16": 2, "u32": 4, "u64": 8}


@rule("DECODE-WITNESS", floor=3)
def decode_witness(ctx):
    """Every fixed-width integer TryDecode impl proves that the input holds its width on the Ok path:
    a recognised length witness for N bytes dominates the Ok."""
    out = []
    for ty, body in fixed_width_decoders(ctx):
        ctx.note(body)
        n = WIDTH.get(ty)
        oks = []
        for i in sorted(body.reach):
            for st in body.blocks[i]["stmts"]:
                if st["k"] == "assign" and st["lhs"]["l"] == 0 and st["rv"]["k"] == "agg" and st["rv"].get("variant") == "Ok":
                    oks.append(i)
            t = body.term(i)
            if t["k"] == "call" and t["dest"]["l"] == 0 and not t["dest"]["p"]:
                oks.append(i)   # result produced by a call (e.g. `.map(..)` / `.ok_or(..)` chains)
        wit = []
        for i in oks:
            w = _witness(ctx, body, i, n)
            wit.append(w)
        ok = bool(oks) and all(w is not None for w in wit)
        out.append(Inst("DECODE-WITNESS", ty, ok, body.site(oks[0]) if oks else body.site(0),
                        "Ok path of <%s as TryDecode>::try_decode: %s" % (ty, [w or "no witness that the buffer holds %d byte(s)" % n for w in wit]),
                        "len() >= N / first() / get(..N) / first_chunk::<N> / try_from::<[u8;N]> / remaining() >= N dominating the Ok"))
    return out


def _witness(ctx, body, bb, n):
    # (1) dominating length comparison
    for gids, eff, other, d in _len_guards(body, bb):
        k = body.fold(other)
        if k is not None and ((eff == "Ge" and k >= n) or (eff == "Gt" and k >= n - 1)):
            return "len >= %d at %s" % (k if eff == "Ge" else k + 1, body.site(d))
    # (2) Option-returning accessor whose Some edge dominates, or whose result is mapped into the return value
    calls = []
    for i in body.dominators(bb) + [bb]:
        t = body.term(i)
        if t["k"] == "call":
            calls.append((i, t))
    ret_atoms = set()
    t = body.term(bb)
    if t["k"] == "call" and t["dest"]["l"] == 0:
        ret_atoms = body.atoms({"l": 0, "p": []})
    for st in body.blocks[bb]["stmts"]:
        if st["k"] == "assign" and st["lhs"]["l"] == 0:
            ret_atoms |= body.rv_atoms(st["rv"])
    for i, t in calls:
        nm = callee_name(t) or ""
        if re.search(r"slice::<impl \[T\]>::first$", nm) and n == 1:
            return "first() (Some only if 1 byte exists)"
        if re.search(r"slice::<impl \[T\]>::(first_chunk|split_first_chunk)$", nm):
            args = (t["callee"].get("args") or [])
            if any(a == str(n) for a in args):
                return "first_chunk::<%d>()" % n
        if re.search(r"slice::<impl \[T\]>::get$", nm):
            e = symex(body, t["ops"][1])
            if e[0] == "agg" and e[2] and sym_fold(e[2][-1]) is not None and sym_fold(e[2][-1]) >= n:
                return "get(..%d)" % sym_fold(e[2][-1])
            if sym_fold(e) is not None and sym_fold(e) >= n - 1:
                return "get(%d)" % sym_fold(e)
        if re.search(r"TryFrom::try_from$|TryInto::try_into$", nm):
            st_ = (t["callee"].get("self_ty") or "") + " ".join(t["callee"].get("args") or [])
            if re.search(r"\[u8; %d\]" % n, st_):
                return "<[u8; %d]>::try_from(slice)" % n
    return None


@rule("VARIANT-DOMAIN", floor=3)
def variant_domain(ctx):
    """A local function that panics for some variants of an enum parameter is only called with values
    whose variant set lies inside its domain; a match on a value arriving from outside (stream item)
    has no panicking arm."""
    out = []
    # partial functions over RxPacket / TxPacket
    for fn_re, adt in ((r"client::utils::rx_action_id$", RXPACKET), (r"client::utils::tx_action_id$", TXPACKET)):
        b = ctx.body(fn_re)
        sw, arms, otherwise, other_vs, si = match_arms(b, adt)
        panicking = set()
        if otherwise is not None:
            reach = b.reachable_from(otherwise)
            if any(b.is_panic_block(x) for x in reach) and not any(b.is_exit(x) for x in reach):
                panicking = set(other_vs)
        domain = set(arms) - panicking
        # call sites
        # each piece of client code once, where it takes effect (a private helper is looked at inside its caller)
        for _role, cb in ctx.client_units():
            for i, t in cb.calls(fn_re.replace("$", "") + "$"):
                vs = _variant_set(cb, t["ops"][0], i, adt, ctx)
                bad = sorted(vs - domain) if vs is not None else ["<unknown>"]
                nm = short_ty(strip_generics(cb.path).replace("::{closure#0}", ""))
                arm = ""
                if vs == {"Publish"} and adt == TXPACKET:
                    from r_key import _qos_branch
                    q = _qos_branch(cb, i)
                    out.append(Inst("VARIANT-DOMAIN", "tx_action_id@%s:publish-qos:%s" % (nm, q), q in ("AtLeastOnce", "ExactlyOnce"), cb.site(i),
                                    "tx_action_id(TxPacket::Publish(..)) is called in the QoS branch %s" % q, "QoS 1 / QoS 2 only (the QoS 0 arm of tx_action_id panics)"))
                out.append(Inst("VARIANT-DOMAIN", "%s@%s:%s" % (short_ty(fn_re.strip("$")), nm, ",".join(bad) if bad else "inside-domain#%d" % len([o for o in out if "@%s:inside" % nm in o.key])),
                                not bad, cb.site(i),
                                "argument may be %s; %s panics for %s" % (sorted(vs) if vs is not None else "any variant", short_ty(fn_re.strip("$")), sorted(panicking) or "nothing"),
                                "argument variants inside the callee's domain %s" % sorted(domain)))
    return out


def _variant_set(body, op, bb, adt, ctx):
    """Variants the operand (a reference to an enum value) can have at block bb."""
    allv = {v["name"] for v in ctx.facts.adt(adt)["variants"]}
    o = body.origin(op, through_calls=False)
    # literal aggregate
    if o[0] == "agg" and o[2]["rv"].get("adt") == adt:
        return {o[2]["rv"]["variant"]}
    ids = _value_ids(body, op)
    if not ids:
        return None
    cur = set(allv)
    for (d, s_) in dominating_edges(body, bb):
        si = body.switch_info(d)
        if not si or si["kind"] != "discr" or si.get("adt") != adt:
            continue
        gid = _value_ids(body, {"k": "copy", "pl": si["place"]})
        if not (gid & ids):
            continue
        vals = body.edge_value(d, s_)
        names = set()
        for v in vals:
            if v == "otherwise":
                listed = {x for x, _ in si["targets"]}
                names |= {n for dv, n in si["variants"].items() if dv not in listed}
            else:
                names.add(si["variants"].get(v))
        cur &= names
    return cur


VARINT_FN = r"core::base_types::VarSizeInt as std::convert::TryFrom<&\[u8\]>>::try_from$"


def varint_exploration(ctx):
    """Abstract interpretation of VarSizeInt::try_from(&[u8]) over every input (rules/absint.py): cached per context."""
    ex = ctx.__dict__.get("_varint_ex")
    if ex is None:
        import absint
        b = ctx.body(VARINT_FN)
        ex = absint.Explorer(b, report_wrap=not ctx.facts.config.get("overflow_checks", True)).run()
        ctx.__dict__["_varint_ex"] = ex
    return ex


def _varint_undecided(rule_, key, b, ex):
    """The decoder is written with library calls whose results decide its branches (iterator adaptors such as
    take / position / fold): the interpreter follows explicit loops over `next()` only. Nothing is claimed for such a
    writing, and nothing is reported: the instance records that it was not decided."""
    calls = sorted({short_ty(c) for _, c in ex.blind})
    return Inst(rule_, key, True, b.site(ex.blind[0][0]), "NOT DECIDED for this writing of the decoder: its branches depend on %s, which the abstract interpreter does not model" % calls,
                "decided when the decoder is an explicit loop over the input bytes", {"undecided": True})


@rule("VARINT-GUARD", floor=1)
def varint_guard(ctx):
    """No overflow / shift-range check inside VarSizeInt::try_from(&[u8]) can fail, whatever the input bytes: the
    function is interpreted abstractly (bytes in [0, 255], every path followed separately, rules/absint.py), so the
    verdict does not depend on how the accumulation is written (running multiplier, shift count, ...)."""
    import absint
    b = ctx.body(VARINT_FN)
    ex = varint_exploration(ctx)
    out = []
    if ex.blind:
        return [_varint_undecided("VARINT-GUARD", "no-arithmetic-failure", b, ex)]
    bad = sorted({(m, n, b.site(bb)) for bb, m, n in ex.failures})
    out.append(Inst("VARINT-GUARD", "no-arithmetic-failure", not bad and not ex.unbounded and bool(ex.returns), b.site(0),
                    "%d abstract states explored, %d ways to return; checks that may fail: %s%s" % (ex.steps, len(ex.returns), [("%s after %d byte(s)" % (m, n), s_) for m, n, s_ in bad] or "none",
                                                                                              "; exploration not bounded: %s" % ex.unbounded[:2] if ex.unbounded else ""),
                    "no overflow-checked operation can fail and at most 5 bytes are looked at"))
    for m, n, s_ in bad:
        out.append(Inst("VARINT-GUARD", "%s@byte%d" % (m, n), False, s_, "%s can fail once %d byte(s) have been consumed (e.g. continuation bytes 0xff)" % (m, n),
                        "the bound on the running multiplier / shift is tested before it is used"))
    return out


@rule("VARINT-ERR", floor=1)
def varint_err(ctx):
    """VarSizeInt::try_from(&[u8]) reports an error other than InsufficientBufferSize only once five bytes have been
    looked at (four continuation bytes). The framer parses the length over the zero-padded read buffer: an error that a
    zero byte after a valid prefix could trigger would be mistaken for a malformed stream (premature end-of-stream)."""
    import absint
    b = ctx.body(VARINT_FN)
    ex = varint_exploration(ctx)
    out = []
    if ex.blind:
        return [_varint_undecided("VARINT-ERR", "running-out-of-bytes", b, ex)]
    first = {}
    for n, v, bb in ex.returns:
        d = absint.describe(v)
        if d[:1] == ["Err"]:
            name = d[1] if len(d) > 1 else "?"
            if name != "InsufficientBufferSize":
                if name not in first or n < first[name][0]:
                    first[name] = (n, bb)
    for name, (n, bb) in sorted(first.items()):
        out.append(Inst("VARINT-ERR", name, n >= 5, b.site(bb), "error %s can be returned after %d byte(s)" % (name, n),
                        "no error on `valid prefix + zero padding`: errors other than InsufficientBufferSize only from the fifth byte on"))
    errs_short = [n for n, v, bb in ex.returns if absint.describe(v)[:2] == ["Err", "InsufficientBufferSize"]]
    out.append(Inst("VARINT-ERR", "running-out-of-bytes", set(errs_short) >= {0, 1, 2, 3}, b.site(0),
                    "InsufficientBufferSize is returned when the input ends after %s byte(s)" % sorted(set(errs_short)), "a length field cut short is reported as such (the framer reads on)"))
    return out


@rule("VARINT-OK", floor=4)
def varint_ok(ctx):
    """A variable byte integer of k bytes (k = 1..4) decodes to the k-byte state, and nothing else decodes."""
    import absint
    b = ctx.body(VARINT_FN)
    ex = varint_exploration(ctx)
    if ex.blind:
        return [_varint_undecided("VARINT-OK", "bytes=%d" % k_, b, ex) for k_ in (1, 2, 3, 4)]
    want = {1: "SingleByte", 2: "TwoByte", 3: "ThreeByte", 4: "FourByte"}
    got = {}
    for n, v, bb in ex.returns:
        d = absint.describe(v)
        if d[:1] == ["Ok"]:
            got.setdefault(n, set()).add(d[-1])
    out = []
    for k in sorted(set(want) | set(got)):
        ok = got.get(k) == {want.get(k)}
        out.append(Inst("VARINT-OK", "bytes=%d" % k, ok, b.site(0), "after %d byte(s) the decoder can return Ok(%s)" % (k, sorted(got.get(k, [])) or "nothing"), "Ok(%s)" % want.get(k, "nothing")))
    return out


