"""Self-test of the rule engine on recorded positive examples (fixtures/): for every checker mutant whose
expected rule belongs to the property being checked, rebuild the mutant's fact base from the recorded
baseline + delta and require the expected rule to report the expected instance. A rule that no longer
fires on its positive example makes the check fail (machinery broken), independently of /repo."""
import gzip
import json
import os
import re

import engine
from engine import Inst
from facts import Facts
from ctx import Ctx

FIX = os.path.join(engine.VERIF, "fixtures")
_base = None


def _baseline():
    global _base
    if _base is None:
        with gzip.open(os.path.join(FIX, "baseline.json.gz"), "rt") as fh:
            _base = json.load(fh)
    return _base


def _facts_for(mid):
    base = _baseline()
    with gzip.open(os.path.join(FIX, "%s.json.gz" % mid), "rt") as fh:
        delta = json.load(fh)
    changed = {f["path"]: f for f in delta["changed_fns"]}
    removed = set(delta["removed_fns"])
    fns = []
    seen = set()
    for f in base["fns"]:
        if f["path"] in removed:
            continue
        if f["path"] in changed:
            fns.append(changed[f["path"]])
            seen.add(f["path"])
        else:
            fns.append(f)
    for p, f in changed.items():
        if p not in seen:
            fns.append(f)
    d = dict(base)
    d["fns"] = fns
    for k in ("adts", "impls", "consts"):
        if k in delta:
            d[k] = delta[k]
    return Facts(data=d)


def run(prop, spec, tier):
    idx_p = os.path.join(FIX, "index.json")
    if not os.path.exists(idx_p):
        return [Inst("SELFTEST", "fixtures-missing", False, fact="fixtures/index.json not found", kind="machinery error")]
    out = []
    idx = json.load(open(idx_p))
    for e in idx:
        exp = [(p, rx) for p, rx in e["expect"] if p == prop]
        if not exp:
            continue
        try:
            ctx = Ctx(None, tier, facts=_facts_for(e["id"]))
            keys = []
            for rid in spec["rules"]:
                if rid in engine.RULES:
                    keys += [r.key for r in engine.run_rule(rid, ctx) if not r.ok]
            for p, rx in exp:
                hit = [k for k in keys if re.search(rx, k)]
                out.append(Inst("SELFTEST", "%s" % e["id"], bool(hit), "fixtures/%s.json.gz" % e["id"],
                                "recorded mutant %s: expected instance /%s/ %s" % (e["id"], rx, "reported as %s" % hit[0] if hit else "NOT reported (rule engine no longer fires on its positive example)"),
                                "every rule fires on its recorded positive example"))
        except Exception as ex:  # noqa
            out.append(Inst("SELFTEST", "%s:error" % e["id"], False, fact="self-test crashed: %r" % (ex,), kind="machinery error"))
    return out
