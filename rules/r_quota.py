"""QUOTA (C10) and MAXSIZE (C12) rules over the context actor."""
import re
from engine import rule, Inst, AnchorLost
from ctx import match_arms, arm_of, arm_region, RXPACKET, CTXMSG, short_ty, fmt_atoms
from cond import Cond, dominating_edges, field_pred
from effects import CONNECTION, SESSION
from mir import Body, callee_name, place_fields
from pathutil import traced_paths, exit_kind, is_err_block
from r_ack import FORBIDDEN_CALL_PARTS, _decision_atoms
from spec import variant_specs, variants_reaching


def type_guards(ctx, body):
    """Branches of the form `packet[0] >> 4 == <T as PacketID>::PACKET_ID`: returns
    {packet_type_name: (cond_bb, true_succ)}"""
    types = {v: k for k, v in ctx.spec("packets")["types"].items()}
    out = {}
    for b in sorted(body.reach):
        c = Cond(body, b)
        if c.kind != "cmp" or c.op not in ("Eq", "Ne"):
            continue
        for x, y in ((c.a, c.b), (c.b, c.a)):
            val = None
            if x.get("k") == "const" and x.get("uneval") and x["uneval"]["name"] == "PACKET_ID" and isinstance(x["uneval"]["eval"], int):
                val = x["uneval"]["eval"]
            elif x.get("k") == "const" and isinstance(x.get("val"), int) and not isinstance(x.get("val"), bool) and y.get("k") != "const":
                val = x["val"]          # an arm of `match packet_type { PublishTx::PACKET_ID => .. }` (the value, the name is gone)
            if val is not None:
                ya = body.atoms(y)
                if any(a[0] == "field" and a[2] == "packet" for a in ya) and val in types:
                    succ = c.true_succ if c.op == "Eq" else c.false_succ
                    other = c.false_succ if c.op == "Eq" else c.true_succ
                    out[types.get(val, str(val))] = (b, succ, other)
    return out


class QW:
    """One write to Connection.send_quota. (body, bb, st) is where the statement is; (top, top_bb) is where it
    takes effect in a handler: the statement itself, or the call site of the local helper that contains it."""
    def __init__(self, body, bb, st, kind, top=None, top_bb=None, via=None):
        self.body, self.bb, self.st, self.kind = body, bb, st, kind
        self.top, self.top_bb, self.via = top or body, bb if top_bb is None else top_bb, via

    def __iter__(self):     # (body, bb, st, kind) view used by older call sites
        return iter((self.top, self.top_bb, self.st, self.kind))

    def line(self):
        return "%s:%d" % (self.body.fn["file"], self.st["line"])


def quota_writes(ctx):
    """All writes to Connection.send_quota in the crate, attributed to handler call sites when they live in a
    local helper function."""
    raw = []
    hp = ctx.inbound_handler()
    hm = ctx.outbound_handler()
    # the handlers are looked at in flattened form (helpers, closures and combinators inlined): a write that lives in
    # a helper inlined there is seen at the place where it takes effect, and the helper's own body is not counted again
    inlined = set(hp.fn.get("inlined", [])) | set(hm.fn.get("inlined", []))
    bodies = [hp, hm]
    try:
        hc = ctx.flat(ctx.body(r"client::context::Context::<[^>]*>::handle_connack$"))      # with a `reset(max)` helper in place
        inlined |= set(hc.fn.get("inlined", []))
        bodies.append(hc)
    except AnchorLost:
        hc = None
    for f in ctx.facts.fns:
        if "context" not in f["path"] and "client" not in f["path"]:
            continue
        if f["path"] in (hp.path, hm.path) or f["path"] in inlined or (hc is not None and f["path"] == hc.path):
            continue
        bodies.append(ctx.world.body(f["path"]))
    for body in bodies:
        for i in sorted(body.reach):
            for st in body.blocks[i]["stmts"]:
                if st["k"] != "assign":
                    continue
                fs = place_fields(st["lhs"])
                if not fs or fs[-1] != (CONNECTION, "send_quota"):
                    continue
                rv = st["rv"]
                kind = "other"
                src = rv
                # checked arithmetic: `(*_4).send_quota = move _128.0` with _128 = Sub!(F, 1)
                if rv["k"] == "use" and rv["op"]["k"] in ("move", "copy"):
                    o = body.origin({"l": rv["op"]["pl"]["l"], "p": []}, through_calls=False)
                    if o[0] == "rv":
                        src = o[2]["rv"]
                if src["k"] == "bin" and src["op"] in ("Sub", "Add"):
                    isf = field_pred(body, "send_quota", "Connection")
                    one = body.fold(src["b"])
                    if isf(src["a"]) and one == 1:
                        kind = "dec" if src["op"] == "Sub" else "inc"
                elif any(a[0] == "field" and (a[2] == "remote_receive_maximum" or (a[2] == "receive_maximum" and (a[1] or "").endswith("ConnackRx"))) for a in body.rv_atoms(rv)):
                    kind = "reset"
                raw.append(QW(body, i, st, kind))
    out = []
    for w in raw:
        if w.body.path in (hp.path, hm.path) or w.body.path.endswith("::handle_connack") or w.body.fn["kind"] != "fn":
            out.append(w)
            continue
        sites = []
        for top in (hp, hm):
            for i, t in top.calls():
                c = t.get("callee") or {}
                if (c.get("resolved") or c.get("def")) == w.body.path:
                    sites.append((top, i))
        if not sites:
            out.append(w)
        for top, i in sites:
            out.append(QW(w.body, w.bb, w.st, w.kind, top, i, w.body.path))
    return out


@rule("QUOTA-WRITERS", floor=4)
def quota_writers(ctx):
    """Q1/Q8: the send quota is written only by handle_connack (F := M), one guarded decrement in the
    outbound handler and guarded increments in the inbound handler."""
    out = []
    hp = ctx.inbound_handler()
    hm = ctx.outbound_handler()
    for w in quota_writes(ctx):
        body, bb, st, kind = w.top, w.top_bb, w.st, w.kind
        ctx.note(body)
        where = body.path
        ok = (kind == "dec" and where == hm.path) or (kind == "inc" and where == hp.path) or \
             (kind == "reset" and where.endswith("::handle_connack"))
        out.append(Inst("QUOTA-WRITERS", "%s:%s" % (where.split("::")[-1] if not where.endswith("}") else where.split("::")[-2], kind), ok,
                        w.line(),
                        "write of kind '%s' in %s%s" % (kind, where, " (through helper %s)" % w.via.split("::")[-1] if w.via else ""), "dec only in outbound handler, inc only in inbound handler, reset only in handle_connack"))
    # Q8 remote_receive_maximum provenance
    hc = ctx.flat(ctx.body(r"client::context::Context::<[^>]*>::handle_connack$"))       # a `reset(max)` helper is looked at in place
    # the quota of a new connection is the whole Receive Maximum: what an earlier connection left in the session
    # (stored packets, waiters) takes no slot away before it is re-sent
    for i in sorted(hc.reach):
        for st in hc.blocks[i]["stmts"]:
            if st["k"] == "assign" and place_fields(st["lhs"]) and place_fields(st["lhs"])[-1] == (CONNECTION, "send_quota"):
                at = hc.rv_atoms(st["rv"])
                other_f = sorted({"%s.%s" % (a[1].split("::")[-1], a[2]) for a in at if a[0] == "field" and not str(a[1]).startswith("std::")
                                  and not a[1].endswith("ConnackRx") and not a[1].endswith("Connection")})      # (atoms over-approximate within the two structs the handler is given)
                mixing = sorted({a[1].split("::")[-1] for a in at if a[0] == "call" and re.search(r"::(min|max|clamp|saturating_\w+|wrapping_\w+|checked_\w+|len)$", a[1])})
                out.append(Inst("QUOTA-WRITERS", "reset-is-R", not other_f and not mixing, "%s:%d" % (hc.fn["file"], st["line"]),
                                "send_quota is reset in handle_connack from %s%s" % (fmt_atoms(at, ("field",)), "; combined with %s" % mixing if mixing else ""),
                                "the quota of a new connection is the Receive Maximum of its CONNACK and nothing else"))
    found = False
    for i in sorted(hc.reach):
        for st in hc.blocks[i]["stmts"]:
            if st["k"] == "assign" and place_fields(st["lhs"]) and place_fields(st["lhs"])[-1] == (CONNECTION, "remote_receive_maximum"):
                at = hc.rv_atoms(st["rv"])
                ok = any(a[0] == "field" and a[2] == "receive_maximum" and a[1].endswith("ConnackRx") for a in at)
                found = True
                out.append(Inst("QUOTA-WRITERS", "M-from-connack", ok, "%s:%d" % (hc.fn["file"], st["line"]),
                                "remote_receive_maximum derives from %s" % fmt_atoms(at, ("field",)), "ConnackRx.receive_maximum"))
    if not found:
        raise AnchorLost("write to Connection.remote_receive_maximum in handle_connack")
    # ... and is nothing but that value: no other field (a value remembered from CONNECT), no constant, no min / max
    # takes part, and nobody else writes it
    hc_family = set(hc.fn.get("inlined") or [])
    for _, ub in ctx.client_units():
        if ub.path in hc_family or ub.path.replace("::{closure#0}", "") in hc_family:
            continue            # a helper of handle_connack (`quota.reset(max)`): looked at in place there
        ub2 = hc if ub.path.endswith("::handle_connack") else ub
        for i in sorted(ub2.reach):
            for st in ub2.blocks[i]["stmts"]:
                if st["k"] == "assign" and place_fields(st["lhs"]) and place_fields(st["lhs"])[-1] == (CONNECTION, "remote_receive_maximum"):
                    at = ub2.rv_atoms(st["rv"])
                    in_hc = ub2.path.endswith("::handle_connack") or any(p_.endswith("::handle_connack") for p_ in (ub2.fn.get("inlined") or []) if ub2.blocks[i].get("src", {}).get("fn", "").endswith("::handle_connack"))
                    other_f = sorted({"%s.%s" % (a[1].split("::")[-1], a[2]) for a in at if a[0] == "field" and not str(a[1]).startswith("std::") and not (a[2] == "receive_maximum" and a[1].endswith("ConnackRx"))})
                    consts = sorted({str(a[-1]) for a in at if a[0] in ("const", "uneval")})
                    mixing = sorted({a[1].split("::")[-1] for a in at if a[0] == "call" and re.search(r"::(min|max|clamp|saturating_\w+|wrapping_\w+|checked_\w+)$", a[1])})
                    ok = in_hc and not other_f and not consts and not mixing
                    out.append(Inst("QUOTA-WRITERS", "M-only-from-connack:%s" % (ub2.path.split("::")[-1] if not ub2.path.endswith("}") else ub2.path.split("::")[-2]), ok, "%s:%d" % (ub2.fn["file"], st["line"]),
                                    "remote_receive_maximum written in %s from %s%s%s" % (ub2.path.split("::")[-1] if not ub2.path.endswith("}") else ub2.path.split("::")[-2], fmt_atoms(at, ("field",)),
                                                                                   "; constants %s" % consts if consts else "", "; combined with %s" % mixing if mixing else ""),
                                    "R is the Receive Maximum of the CONNACK and nothing else (the value sent in CONNECT limits the other direction)"))
    return out


def _nonzero_edge(body, bb):
    """Dominating edges of bb that imply send_quota != 0 / == 0: returns list of (cond_bb, implies_nonzero)"""
    isf = field_pred(body, "send_quota", "Connection")
    out = []
    for (d, s_) in dominating_edges(body, bb):
        c = Cond(body, d)
        n = c.cmp_norm(isf)
        if not n:
            continue
        op, other = n
        k = body.fold(other)
        truth = c.holds_on(s_)
        if truth is None or k is None:
            continue
        eff = op if truth else {"Eq": "Ne", "Ne": "Eq", "Lt": "Ge", "Ge": "Lt", "Gt": "Le", "Le": "Gt"}[op]
        nonzero = (eff == "Ne" and k == 0) or (eff == "Gt" and k >= 0) or (eff == "Ge" and k >= 1)
        zero = (eff == "Eq" and k == 0) or (eff == "Lt" and k == 1) or (eff == "Le" and k == 0)
        out.append((d, s_, "nonzero" if nonzero else ("zero" if zero else "other")))
    return out


@rule("QUOTA-DEC", floor=3)
def quota_dec(ctx):
    """Q2/Q3/Q7: the decrement is guarded by F != 0 whose F == 0 edge completes the request with
    QuotaExceeded and performs no write / registration; it lies in region(PUBLISH) and precedes the
    PUBLISH write there; the quota is consulted nowhere else in the outbound handler."""
    hm = ctx.outbound_handler()
    effs = ctx.effects(hm)
    from outpaths import ArmPaths
    ap = ArmPaths(ctx, hm, "AwaitAck")
    if "PUBLISH" not in ap.classes:
        raise AnchorLost("PUBLISH type test (packet[0] >> 4 == PublishTx::PACKET_ID) in the outbound handler")
    gbb = [b for ty, b, _, _ in ap.sites if ty == "PUBLISH"][0]
    gsucc = [y for ty, b, y, _ in ap.sites if ty == "PUBLISH"][0]
    region = ap.only("PUBLISH")            # blocks that only a PUBLISH reaches (path-sensitive)
    on_publish = ap.blocks_of("PUBLISH")
    decs = [(w.top, w.top_bb, w.st) for w in quota_writes(ctx) if w.kind == "dec" and w.top.path == hm.path]
    dec_ws = [w for w in quota_writes(ctx) if w.kind == "dec" and w.top.path == hm.path]
    out = []
    if len(decs) != 1:
        out.append(Inst("QUOTA-DEC", "one-decrement", False, hm.site(gbb), "%d decrements of send_quota in the outbound handler" % len(decs),
                        "exactly one"))
        return out
    _, dbb, dst = decs[0]
    site = "%s:%d" % (hm.fn["file"], dst["line"])
    out.append(Inst("QUOTA-DEC", "in-publish-region", dbb in region, site, "decrement in block bb%d, reached by packet classes %s" % (dbb, ap.class_of_block(dbb)),
                    "only QoS>0 PUBLISH consumes quota"))
    ne = [x for x in _nonzero_edge(hm, dbb) if x[2] == "nonzero"]
    if not ne and dec_ws[0].via:
        inner = [x for x in _nonzero_edge(dec_ws[0].body, dec_ws[0].bb) if x[2] == "nonzero"]
        ne = [(dbb, None, "nonzero")] if inner and False else ne
    out.append(Inst("QUOTA-DEC", "guarded-nonzero", bool(ne), site,
                    "decrement dominated by edge(s) implying send_quota != 0: %s" % [(hm.site(d)) for d, _, _ in ne],
                    "F - 1 only when F > 0 (never wraps / panics)"))
    # zero edge: Complete(Err QuotaExceeded), no TxWrite/Push
    if ne:
        d, s_, _ = ne[0]
        zero_succ = [x for x in hm.succ(d) if x != s_]
        for z in zero_succ:
            reg = hm.reachable_from(z)
            in_reg = [e for e in effs if e.inner_bb in reg and not e.via or (e.bb in reg)]
            comp = [e for e in in_reg if e.kind == "Complete"]
            bad = [e for e in in_reg if e.kind in ("TxWrite", "Push", "FieldWrite")]
            okc = len(comp) == 1 and comp[0].detail["variant"] == "Err" and any(a[0] == "variant" and a[2] == "QuotaExceeded" for a in comp[0].detail["payload"])
            out.append(Inst("QUOTA-DEC", "zero-edge-refuses", okc and not bad, hm.site(z),
                            "F == 0 edge: completions=%s, other effects=%s" % ([(e.kind, e.detail.get("variant")) for e in comp], [e.kind for e in bad]),
                            "Complete(Err QuotaExceeded) and nothing written or registered"))
    # Q3: every TxWrite in region(PUBLISH) is dominated by the decrement
    for e in effs:
        if e.kind == "TxWrite" and e.bb in on_publish:
            pre, _n = ap.precedes("PUBLISH", {dbb}, e.bb)
            out.append(Inst("QUOTA-DEC", "write-after-dec", pre, e.site(),
                            "PUBLISH write at bb%d %s preceded by the decrement on every PUBLISH path" % (e.bb, "is" if pre else "is NOT"),
                            "every QoS>0 PUBLISH put on the wire consumed one slot"))
    # ... and conversely a slot is taken only for a PUBLISH that is then put on the wire: on every path that takes the
    # slot and returns normally (not through a failed write) the PUBLISH write follows
    from pathutil import exit_kind
    wbs = {e.bb for e in effs if e.kind == "TxWrite" and e.bb in on_publish}
    fol, nfol = ap.followed_by("PUBLISH", dbb, wbs, only_ok=lambda p_: exit_kind(hm, p_) == "ok", same_block=True)
    out.append(Inst("QUOTA-DEC", "dec-followed-by-write", fol, site,
                    "on %d normal PUBLISH path(s) through the decrement the PUBLISH write %s" % (nfol, "always follows" if fol else "does NOT always follow (a refusal after the decrement leaks the slot)"),
                    "a slot is consumed only by a PUBLISH that goes on the wire"))
    # Q7: reads of send_quota outside region(PUBLISH)
    outside = []
    for b in sorted(hm.reach):
        if b in region:
            continue
        for st in hm.blocks[b]["stmts"]:
            if st["k"] == "assign":
                srcs = []
                rv = st["rv"]
                for key in ("op", "a", "b", "pl"):
                    if key in rv and isinstance(rv[key], dict):
                        srcs.append(rv[key])
                for s_ in srcs:
                    pl = s_.get("pl", s_)
                    if isinstance(pl, dict) and "p" in pl and (CONNECTION, "send_quota") in place_fields(pl):
                        outside.append("%s:%d" % (hm.fn["file"], st["line"]))
    out.append(Inst("QUOTA-DEC", "quota-read-only-for-publish", not outside, hm.site(gbb),
                    "send_quota read outside region(PUBLISH): %s" % (outside or "none"), "QoS 0 publishes and other operations are never limited"))
    return out


def _inc_guard(body, bb):
    """Dominating edges implying F != M or F < M."""
    isf = field_pred(body, "send_quota", "Connection")
    ism = field_pred(body, "remote_receive_maximum", "Connection")
    res = []
    for (d, s_) in dominating_edges(body, bb):
        c = Cond(body, d)
        n = c.cmp_norm(isf)
        if not n:
            continue
        op, other = n
        truth = c.holds_on(s_)
        if truth is None or not ism(other):
            continue
        eff = op if truth else {"Eq": "Ne", "Ne": "Eq", "Lt": "Ge", "Ge": "Lt", "Gt": "Le", "Le": "Gt"}[op]
        if eff in ("Ne", "Lt"):
            res.append((d, s_, eff))
    return res


@rule("QUOTA-INC", floor=2)
def quota_inc(ctx):
    """Q4/Q5/Q6: increments are `F + 1` on an edge implying F < M; the arms that release a slot are
    exactly PUBACK, PUBCOMP and PUBREC under reason >= 0x80; the release does not depend on the
    awaiting_ack lookup or on the completion having been delivered and precedes every `?` of its arm."""
    hp = ctx.inbound_handler()
    sw, arms, otherwise, other_vs, _ = match_arms(hp, RXPACKET)
    inc_ws = [w for w in quota_writes(ctx) if w.kind == "inc" and w.top.path == hp.path]
    out = []
    inc_arms = {}
    for w in inc_ws:
        bb, st = w.top_bb, w.st
        site = w.line()
        arm = arm_of(hp, arms, otherwise, bb)
        if arm == "otherwise":
            # the `other` arm: which variants can reach here is decided by further tests
            arm = _refine_other(hp, bb, other_vs, ctx)
        for arm1 in str(arm).split("|"):      # a body shared by `A | B` patterns belongs to both arms
            inc_arms.setdefault(arm1, []).append((bb, st))
        g = _inc_guard(hp, bb)
        g_in_helper = _inc_guard(w.body, w.bb) if w.via else []
        out.append(Inst("QUOTA-INC", "arm=%s:bounded" % arm, bool(g) or bool(g_in_helper), site,
                        "increment guarded by %s" % ([("F %s M" % e, hp.site(d)) for d, _, e in g] + [("F %s M" % e, w.body.site(d)) for d, _, e in g_in_helper] or "nothing comparing F with M"),
                        "F + 1 only when F < M (never above Receive Maximum, never overflows)"))
        # Q6: control dependence
        deps = hp.control_dep_closure(bb)
        bad = []
        for (d, s_) in deps:
            atoms, si = _decision_atoms(hp, d)
            calls = {a[1] for a in atoms if a[0] == "call"}
            for c in calls:
                if any(p in c for p in FORBIDDEN_CALL_PARTS):
                    bad.append("::".join(c.split("::")[-2:]))
        out.append(Inst("QUOTA-INC", "arm=%s:independent" % arm, not bad, site,
                        "increment control dependent on lookup/delivery results: %s" % (sorted(set(bad)) or "none"),
                        "a late acknowledgement of an abandoned operation still frees its slot (C15)"))
        # precedes every `?` exit of its arm
        entry = arms.get(str(arm).split("|")[0]) if str(arm).split("|")[0] in arms else otherwise
        if entry is not None:
            reg = arm_region(hp, entry)
            gblocks = [d for d, _, _ in g] or [bb]
            # what can run for this kind of packet (code behind the join of the arms that other kinds use -- the
            # acknowledgement writes of a staged handler -- is not part of this arm)
            vs_ = [v_ for v_ in str(arm).split("|") if v_ in variant_specs(ctx, hp, RXPACKET, sw)]
            if vs_:
                can_run = set().union(*[variant_specs(ctx, hp, RXPACKET, sw)[v_].reach for v_ in vs_])
                reg = {b for b in reg if b in can_run}
            errs = [b for b in reg if is_err_block(hp, b) and not any(hp.dominates(gb, b) for gb in gblocks)]
            out.append(Inst("QUOTA-INC", "arm=%s:before-exits" % arm, not errs, site,
                            "error exits of the arm not preceded by the release: %s" % ([hp.site(b) for b in errs] or "none"),
                            "the slot is freed before any early return of the arm"))
    want = {"Puback", "Pubcomp", "Pubrec"}
    got = set(inc_arms)
    for a in sorted(want | got):
        if a in want and a in got:
            if a == "Pubrec":
                # must be under reason >= 0x80
                for bb, st in inc_arms[a]:
                    with variant_specs(ctx, hp, RXPACKET, sw)["Pubrec"].pinned():
                        ok, fact = _under_thresh(ctx, hp, bb)
                    out.append(Inst("QUOTA-INC", "arm=Pubrec:only-on-failure", ok, "%s:%d" % (hp.fn["file"], st["line"]), fact,
                                    "PUBREC frees the slot only when its reason is >= 0x80"))
            else:
                out.append(Inst("QUOTA-INC", "arm=%s:releases" % a, True, "%s:%d" % (hp.fn["file"], inc_arms[a][0][1]["line"]),
                                "%s frees one slot" % a, "spec/acks.json quota_release"))
        elif a in want:
            out.append(Inst("QUOTA-INC", "arm=%s:no-release" % a, False, hp.site(arms.get(a, otherwise)),
                            "no increment of send_quota for inbound %s" % a + (" (reason >= 0x80)" if a == "Pubrec" else ""),
                            "spec/acks.json quota_release: %s" % ctx.spec("acks")["quota_release"]))
        else:
            out.append(Inst("QUOTA-INC", "arm=%s:unexpected-release" % a, False, "%s:%d" % (hp.fn["file"], inc_arms[a][0][1]["line"]),
                            "increment of send_quota for inbound %s" % a, "only PUBACK, PUBCOMP, failing PUBREC free a slot"))
    return out


def _refine_other(hp, bb, other_vs, ctx=None):
    """Inside the catch-all arm: look for a dominating discriminant test on an RxPacket value."""
    r = _refine_other1(hp, bb, other_vs)
    if r == "otherwise" and ctx is not None:
        # ... or the arm consults a table (`AckEffects::of(&packet)`, a second match on the same packet) and tests the
        # flags of the answer: the kinds of packet for which the block can run at all
        sw = match_arms(hp, RXPACKET)[0]
        vs = [v for v in variants_reaching(ctx, hp, RXPACKET, sw, bb) if v in other_vs]
        if vs and set(vs) != set(other_vs):
            return "|".join(vs)
    return r


def _refine_other1(hp, bb, other_vs):
    for (d, s_) in dominating_edges(hp, bb):
        si = hp.switch_info(d)
        if si and si["kind"] == "discr" and si.get("adt") == RXPACKET:
            vals = hp.edge_value(d, s_)
            names = [si["variants"].get(v) for v in vals if v != "otherwise"]
            if len(names) == 1:
                return names[0]
    return "otherwise"


def _under_thresh(ctx, body, bb):
    thr = ctx.spec("reasons")["failure_threshold"]
    for (d, s_) in dominating_edges(body, bb):
        c = Cond(body, d)
        n = c.cmp_norm(field_pred(body, "reason"))
        if not n:
            continue
        op, other = n
        k = body.fold(other)
        truth = c.holds_on(s_)
        if truth is None or k is None:
            continue
        eff = op if truth else {"Eq": "Ne", "Ne": "Eq", "Lt": "Ge", "Ge": "Lt", "Gt": "Le", "Le": "Gt"}[op]
        if (eff == "Ge" and k == thr) or (eff == "Gt" and k == thr - 1):
            return True, "increment on the edge reason %s 0x%02x at %s" % (eff, k, body.site(d))
        return False, "increment on the edge reason %s 0x%02x at %s" % (eff, k, body.site(d))
    return False, "increment for PUBREC is not guarded by a comparison of its reason with 0x80"


# ------------------------------------------------------------------------------------ MAXSIZE

@rule("MAXSIZE-PRED", floor=3)
def maxsize_pred(ctx):
    """M1: validate_packet_size accepts iff the maximum is absent or len <= max."""
    b = ctx.flat(ctx.body(r"client::context::Context::<[^>]*>::validate_packet_size$"))
    out = []
    n = 0
    rows = set()
    # the limit is read from Connection.remote_max_packet_size inside the function, or handed in as an Option parameter
    # that every caller fills from that field
    limit_params = set()
    limit_enums = {}
    for ety, ea in ctx.facts.adts.items():
        if ety.startswith("client::") and ea["kind"] == "enum" and len(ea["variants"]) == 2 and sorted(len(v["fields"]) for v in ea["variants"]) == [0, 1] \
                and [f["ty"] for v in ea["variants"] for f in v["fields"]][0] in ("u32", "usize", "core::properties::MaximumPacketSize"):
            limit_enums[ety] = [vi for vi, v in enumerate(ea["variants"]) if not v["fields"]][0]
    for k in range(1, b.fn["arg_count"] + 1):
        ty = b.locals[k]["ty"]
        ety = re.sub(r"^&('\w+ )?(mut )?", "", ty).strip()
        ea = ctx.facts.adts.get(ety)
        if ea is not None and ea["kind"] == "enum" and len(ea["variants"]) == 2 and sorted(len(v["fields"]) for v in ea["variants"]) == [0, 1] \
                and [f["ty"] for v in ea["variants"] for f in v["fields"]][0] in ("u32", "usize", "core::properties::MaximumPacketSize"):
            # the limit as an enum of its own (`enum PacketSizeLimit { Unlimited, AtMost(u32) }`): Option under another name
            limit_enums[ety] = [vi for vi, v in enumerate(ea["variants"]) if not v["fields"]][0]
        if ("Option<" in ty and ("u32" in ty or "MaximumPacketSize" in ty)) or ety in limit_enums:
            callers_ok = []
            for _, ub in ctx.client_units():
                for i, t in ub.calls(r"Context::validate_packet_size$"):
                    callers_ok.append(len(t["ops"]) >= k and any(x[0] == "field" and x[2] == "remote_max_packet_size" for x in ub.atoms(t["ops"][k - 1])))
            if callers_ok and all(callers_ok):
                limit_params.add(k)

    def is_max(at):
        return any(x[0] == "field" and x[2] == "remote_max_packet_size" for x in at) or any(x[0] == "param" and x[1] in limit_params for x in at)
    slice_params = {k for k in range(1, b.fn["arg_count"] + 1) if b.locals[k]["ty"].replace(" ", "") in ("&[u8]", "&'a[u8]") or b.locals[k]["ty"].endswith("[u8]")}
    for path in b.paths(0):
        if not b.feasible(path):
            continue
        n += 1
        res = None
        for bb in path:
            for st in b.blocks[bb]["stmts"]:
                if st["k"] == "assign" and st["lhs"]["l"] == 0 and st["rv"]["k"] == "agg":
                    res = st["rv"]["variant"]
        absent = None
        fits = None
        for a, s_ in zip(path, path[1:]):
            c = Cond(b, a)
            truth = c.holds_on(s_)
            if truth is None:
                if c.kind == "discr" and (c.si.get("adt") == "std::option::Option" or c.si.get("adt") in limit_enums) and is_max(b.atoms(c.si["place"])):
                    vals = b.edge_value(a, s_)
                    listed = [v for v, _ in c.si["targets"]]
                    none_ = 0 if c.si.get("adt") == "std::option::Option" else limit_enums[c.si["adt"]]
                    absent = (none_ in vals) or ("otherwise" in vals and none_ not in listed)
                continue
            if c.kind == "call" and c.callee == "is_none" and is_max(b.atoms(c.args[0])):
                absent = truth ^ c.neg
            elif c.kind == "cmp":
                def is_len(op):
                    at = b.atoms(op)
                    # the length of the packet itself: nothing but `len()` of the slice parameter (through borrows /
                    # lossless conversions) flows into the compared value -- no size recomputed from the packet's bytes,
                    # no constant term
                    if any(x[0] == "call" and not re.search(r"(::len|as_ref|deref|borrow|::from|::into|try_from|try_into|unwrap\w*|expect)$", x[1]) for x in at):
                        return False
                    if any(x[0] in ("const", "uneval") for x in at):
                        return False
                    return any(x[0] == "call" and x[1].endswith("::len") for x in at) and any(x[0] == "param" and x[1] in slice_params for x in at)
                nn = c.cmp_norm(is_len)
                if nn and is_max(b.atoms(nn[1])):
                    op = nn[0]
                    if op in ("Le", "Gt"):
                        fits = truth if op == "Le" else (not truth)
                    elif op in ("Lt", "Ge"):
                        fits = ("strict", truth if op == "Lt" else (not truth))
                    else:
                        fits = ("eq", truth)
        if isinstance(fits, tuple):
            out.append(Inst("MAXSIZE-PRED", "comparison", False, b.site(path[-1]),
                            "size comparison is %s, not `len <= max`" % ("strict (<)" if fits[0] == "strict" else "equality"), "L <= M accepted, L > M refused (exact at L = M)"))
            return out
        want = "Ok" if (absent is True or fits is True) else ("Err" if (absent is False and fits is False) else None)
        rows.add((absent, fits, res, want))
    for absent, fits, res, want in sorted(rows, key=str):
        out.append(Inst("MAXSIZE-PRED", "row:absent=%s:fits=%s" % (absent, fits), want is not None and res == want, b.site(0),
                        "path with max absent=%s, len<=max=%s returns %s" % (absent, fits, res),
                        "Ok iff max absent or len <= max; else Err(MaximumPacketSizeExceeded)"))
    # error type
    errs = [a for i in b.reach for st in b.blocks[i]["stmts"] if st["k"] == "assign" for a in b.rv_atoms(st["rv"]) if a[0] == "variant"]
    out.append(Inst("MAXSIZE-PRED", "error-type", any(a[2] == "MaximumPacketSizeExceeded" for a in errs), b.site(0),
                    "error variants constructed: %s" % sorted({a[2] for a in errs if a[2] not in ("Ok", "Err")}), "MaximumPacketSizeExceeded"))
    ctx.analysed["paths"] += n
    return out


@rule("MAXSIZE-FIRST", floor=9)
def maxsize_first(ctx):
    """M2/M3: in each arm of the outbound handler the size check dominates every effect, its Err
    edge completes the request with that error and does nothing else, and the checked slice is the
    slice that is written."""
    hm = ctx.outbound_handler()
    sw, arms, otherwise, other_vs, _ = match_arms(hm, CTXMSG)
    effs = ctx.effects(hm)
    out = []
    for arm, entry in sorted(arms.items()):
        reg = arm_region(hm, entry)
        vcalls = [(i, t) for i, t in hm.calls(r"Context::validate_packet_size$") if i in reg]
        hoisted = not vcalls
        if not vcalls:
            # checked once for all kinds of message, before the dispatch on the kind
            vcalls = [(i, t) for i, t in hm.calls(r"Context::validate_packet_size$") if hm.dominates(i, entry)]
        if len(vcalls) != 1:
            out.append(Inst("MAXSIZE-FIRST", "arm=%s:validate-call" % arm, False, hm.site(entry), "%d validate_packet_size calls in the arm" % len(vcalls), "exactly one"))
            continue
        vb, vt = vcalls[0]
        arm_effs = [e for e in effs if e.bb in reg and e.kind in ("TxWrite", "Push", "Complete", "FieldWrite", "Remove", "Clear")]
        late = [e for e in arm_effs if not hm.dominates(vb, e.bb)]
        out.append(Inst("MAXSIZE-FIRST", "arm=%s:dominates-effects" % arm, not late and bool(arm_effs), hm.site(vb),
                        "%d effects in the arm, not dominated by the size check: %s" % (len(arm_effs), [(e.kind, e.site()) for e in late] or "none"),
                        "size check before any bookkeeping or write"))
        # Err edge
        sw_bb = vt["t"]
        si = hm.switch_info(sw_bb) if sw_bb is not None else None
        def _of_check(sx):
            if not (sx and sx["kind"] == "discr" and sx.get("place") and set(sx["variants"].values()) <= {"Ok", "Err"}):
                return False
            o = hm.origin(sx["place"], through_calls=False)
            return bool(o) and o[0] == "call" and o[1] == vb
        if not _of_check(si):
            si = None
            # the result is kept in a local and matched on later (inside the arm)
            for j in sorted(reg):
                sj = hm.switch_info(j)
                if sj and sj["kind"] == "discr" and set(sj["variants"].values()) <= {"Ok", "Err"}:
                    o = hm.origin(sj["place"], through_calls=False) if sj.get("place") else None
                    if o and o[0] == "call" and o[1] == vb:
                        sw_bb, si = j, sj
                        break
        err_succ = None
        if si and si["kind"] == "discr":
            for v, s_ in si["targets"]:
                if si["variants"].get(v) == "Err":
                    err_succ = s_
            if err_succ is None and si["otherwise"] is not None and len(si["targets"]) == 1 and si["variants"].get(si["targets"][0][0]) == "Ok":
                err_succ = si["otherwise"]
        if err_succ is None:
            out.append(Inst("MAXSIZE-FIRST", "arm=%s:err-edge" % arm, False, hm.site(vb), "result of the size check is not matched on", "Err edge must refuse the request"))
            continue
        ok_succ = [s_ for s_ in hm.succ(sw_bb) if s_ != err_succ]
        ereg = hm.reachable_from(err_succ, avoid=ok_succ)
        e_effs = [e for e in effs if e.bb in ereg and e.kind in ("TxWrite", "Push", "Complete", "FieldWrite", "Remove", "Clear")]
        comp = [e for e in e_effs if e.kind == "Complete"]
        other = [e for e in e_effs if e.kind != "Complete"]
        okc = len(comp) == 1 and comp[0].detail["variant"] == "Err" and any(a[0] == "call" and a[1].endswith("validate_packet_size") for a in comp[0].detail["payload"])
        out.append(Inst("MAXSIZE-FIRST", "arm=%s:err-edge" % arm, okc and not other, hm.site(err_succ),
                        "Err edge: completions=%s other effects=%s" % ([(e.detail.get("variant")) for e in comp], [(e.kind, e.site()) for e in other] or "none"),
                        "exactly Complete(Err e) with the size error, nothing written, no quota / registration left behind"))
        # M3 same slice
        va = hm.atoms(vt["ops"][1])
        vfield = {(a[1], a[2]) for a in va if a[0] == "field" and a[2] == "packet"}
        for e in [e for e in effs if e.kind == "TxWrite" and e.bb in reg]:
            wfield = {(a[1], a[2]) for a in e.detail["buf"] if a[0] == "field" and a[2] == "packet"}
            wd = {a[1] for a in e.detail["buf"] if a[0] == "downcast"}
            out.append(Inst("MAXSIZE-FIRST", "arm=%s:same-slice:%s" % (arm, e.site().split(":")[-1] if False else len([x for x in out if "same-slice" in x.key and ("arm=%s:" % arm) in x.key])),
                            bool(vfield) and (vfield == wfield or (hoisted and bool(wfield) and wfield <= vfield)) and arm in wd, e.site(),
                            "checked slice from %s, written slice from %s of variant %s" % (sorted(vfield), sorted(wfield), sorted(wd - {"Some", "Ok", "Err", "Ready", "Continue", "Break"})),
                            "the bytes validated are the bytes written (msg.packet of this arm)"))
    return out


@rule("MAXSIZE-SOURCE", floor=1)
def maxsize_source(ctx):
    """M4: remote_max_packet_size is written only by handle_connack from connack.maximum_packet_size."""
    out = []
    n = 0
    for f in ctx.facts.fns:
        if not f["path"].startswith("client::"):
            continue
        body = ctx.world.body(f["path"])
        if body.path.endswith("::handle_connack"):
            body = ctx.flat(body)       # a value object filled from the CONNACK first (`BrokerLimits::from(connack)`) is looked at in place
        for i in sorted(body.reach):
            for st in body.blocks[i]["stmts"]:
                if st["k"] == "assign" and place_fields(st["lhs"]) and place_fields(st["lhs"])[-1] == (CONNECTION, "remote_max_packet_size"):
                    n += 1
                    at = body.rv_atoms(st["rv"])
                    ok = body.path.endswith("::handle_connack") and any(a[0] == "field" and a[2] == "maximum_packet_size" and a[1].endswith("ConnackRx") for a in at)
                    out.append(Inst("MAXSIZE-SOURCE", "writer:%s" % body.path.split("::")[-1], ok, "%s:%d" % (body.fn["file"], st["line"]),
                                    "written in %s from %s" % (body.path, fmt_atoms(at, ("field",))), "handle_connack, from ConnackRx.maximum_packet_size"))
                    # nothing but that value: a constant standing in for "no limit announced" is a limit the server never set
                    fb = ctx.flat(body)
                    pure = True
                    why = []
                    for i2 in sorted(fb.reach):
                        for st2 in fb.blocks[i2]["stmts"]:
                            if st2["k"] == "assign" and place_fields(st2["lhs"]) and place_fields(st2["lhs"])[-1] == (CONNECTION, "remote_max_packet_size"):
                                at2 = fb.rv_atoms(st2["rv"])
                                cs = sorted({str(a[-1]) for a in at2 if a[0] in ("const", "uneval")})
                                of = sorted({"%s.%s" % (a[1].split("::")[-1], a[2]) for a in at2 if a[0] == "field" and not str(a[1]).startswith("std::") and not (a[2] == "maximum_packet_size" and a[1].endswith("ConnackRx"))})
                                lit_none = st2["rv"]["k"] == "agg" and st2["rv"].get("variant") == "None"
                                if (cs or of) and not lit_none:
                                    pure = False
                                    why += cs + of
                    # whether M is recorded hangs on nothing but the CONNACK's own Maximum Packet Size: a store that is
                    # skipped because another property is present (`if let Some(sei) .. else if let Some(m) ..`) loses M
                    if body.path.endswith("::handle_connack") and not any(o_.key.endswith("store-hangs-on-own-property-only") for o_ in out):
                        foreign = set()
                        for i2 in sorted(fb.reach):
                            if not any(st2["k"] == "assign" and place_fields(st2["lhs"]) and place_fields(st2["lhs"])[-1] == (CONNECTION, "remote_max_packet_size") for st2 in fb.blocks[i2]["stmts"]):
                                continue
                            for (a_, s_) in fb.control_dep_closure(i2):
                                t_ = fb.term(a_)
                                if t_["k"] != "switch":
                                    continue
                                for x in fb.atoms(t_["op"]):
                                    if x[0] == "field" and str(x[1]).endswith("ConnackRx") and x[2] != "maximum_packet_size":
                                        foreign.add("ConnackRx.%s" % x[2])
                        out.append(Inst("MAXSIZE-SOURCE", "store-hangs-on-own-property-only", not foreign, "%s:%d" % (body.fn["file"], st["line"]),
                                        "whether the limit is stored depends on %s" % (sorted(foreign) if foreign else "the CONNACK's Maximum Packet Size only"),
                                        "M is recorded whenever the CONNACK announces it, whatever else the CONNACK carries"))
                    if not any(o_.key.endswith("source-pure") for o_ in out):
                        out.append(Inst("MAXSIZE-SOURCE", "source-pure", pure, "%s:%d" % (body.fn["file"], st["line"]),
                                        "the stored limit is %s" % ("the announced value or none" if pure else "mixed with %s" % sorted(set(why))),
                                        "M is the Maximum Packet Size of the CONNACK; absent means no limit"))
    return out
