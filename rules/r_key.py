"""C05: KEY, LOOKUP, FIFO / who-may-mutate, REGISTRATION, MSGKIND."""
import re
from engine import rule, Inst, AnchorLost
from ctx import match_arms, arm_of, arm_region, RXPACKET, TXPACKET, CTXMSG, short_ty, fmt_atoms
from cond import Cond, dominating_edges
from effects import SESSION, effects
from mir import Body, callee_name, callee_resolved, symex, sym_or_terms, sym_fold, sym_leaves, _symex_rv, place_fields, int_widening
from pathutil import traced_paths, exit_kind
from r_quota import type_guards

QOS = "core::base_types::QoS"


def strip_generics_(p):
    from mir import strip_generics
    return strip_generics(p)


def _sym_atoms(body, e):
    """Provenance atoms of the places at the leaves of a symbolic expression."""
    out = set()
    for l in sym_leaves(e):
        if l[0] == "place":
            out |= body.atoms({"l": l[4], "p": []})
    return out


def key_table(ctx, fn_regex, adt):
    """{(variant, qos|None): {'tag':(value,shift), 'id':(field,variant,shift)|None, 'bb':..}}"""
    b = ctx.flat(ctx.body(fn_regex), inline=r"::(tx_action_id|rx_action_id)$")      # helpers that compute the bit layout are inlined
    table = {}

    def ret_defs(local, depth=0):
        """(block, statement) pairs that compute the function's result: assignments of the return place, looked through
        a newtype wrapper / a move of a local that is itself assigned once per arm (`ActionId(match p { .. })`)."""
        out_ = []
        for d in b.whole_defs(local):
            if d[0] != "stmt":
                continue
            rv = d[3]["rv"]
            inner = None
            if rv["k"] == "use" and rv["op"].get("k") in ("move", "copy") and not rv["op"]["pl"]["p"]:
                inner = rv["op"]["pl"]["l"]
            elif rv["k"] == "agg" and rv.get("what") == "adt" and len(rv["ops"]) == 1 and rv.get("variant") not in ("Some", "Ok", "Err") \
                    and rv["ops"][0].get("k") in ("move", "copy") and not rv["ops"][0]["pl"]["p"]:
                inner = rv["ops"][0]["pl"]["l"]
            if inner is not None and depth < 4 and len(b.whole_defs(inner)) > 1:
                out_ += ret_defs(inner, depth + 1)
            else:
                out_.append((d[1], d[3]))
        return out_
    def const_selectors(rv):
        """Locals in the cone of the result that are given a constant on several branches (`let tag = match qos { .. }`)."""
        found, seen_, work_ = [], set(), []
        for k_ in ("op", "a", "b"):
            if isinstance(rv.get(k_), dict):
                work_.append(rv[k_])
        work_ += rv.get("ops", [])
        while work_:
            o = work_.pop()
            if o.get("k") not in ("move", "copy"):
                continue
            l = o["pl"]["l"]
            if l in seen_ or l <= b.fn["arg_count"]:
                continue
            seen_.add(l)
            ds = b.whole_defs(l)
            if len(ds) > 1 and all(d[0] == "stmt" and d[3]["rv"]["k"] in ("use", "cast") and (b.fold(d[3]["rv"]["op"]) is not None) for d in ds):
                found.append((l, ds))
                continue
            for d in ds:
                if d[0] == "stmt":
                    r2 = d[3]["rv"]
                    for k_ in ("op", "a", "b"):
                        if isinstance(r2.get(k_), dict):
                            work_.append(r2[k_])
                    work_ += r2.get("ops", [])
                elif d[0] == "call":
                    work_ += d[2]["ops"]
        return found
    jobs = []
    for i, st in ret_defs(0):
        sels = const_selectors(st["rv"])
        if len(sels) == 1:
            # one entry per value of the selector, judged under the conditions of the branch that chose it
            for d in sels[0][1]:
                jobs.append((i, st, {sels[0][0]: [d]}, d[1]))
        else:
            jobs.append((i, st, None, i))
    for i, st, pin, cond_bb in jobs:
        if True:
            b.__dict__["_pin"] = pin
            try:
                e = _symex_rv(b, st["rv"], 0)
            finally:
                b.__dict__["_pin"] = None
            while e[0] == "agg" and len(e[2]) == 1 and e[1] not in ("Some", "Ok", "Err"):
                e = e[2][0]             # a newtype around the key (`ActionId(bits)`): the bits
            variant = None
            qos = None
            for (d, s_) in sorted(set(dominating_edges(b, i)) | set(dominating_edges(b, cond_bb))):
                si = b.switch_info(d)
                if not si or si["kind"] != "discr":
                    continue
                vals = [v for v in b.edge_value(d, s_) if v != "otherwise"]
                if si.get("adt") == adt and len(vals) == 1:
                    variant = si["variants"].get(vals[0])
                if si.get("adt") == QOS and len(vals) == 1:
                    qos = si["variants"].get(vals[0])
            tag = None
            idt = None
            extra = []
            for x, sh in sym_or_terms(e):
                v = sym_fold(x)
                if v == 0:
                    continue        # a constant zero term contributes no bits (e.g. "no identifier" passed to a layout helper)
                if v is not None:
                    names = [l for l in sym_leaves(x) if l[0] == "uneval"]
                    tag = (v, sh, names[0][2] if names else None)
                    continue
                leaves = [l for l in sym_leaves(x) if l[0] == "place"]
                flds = [(f, l[3]) for l in leaves for f in l[2]]
                pid = [(f, d) for f, d in flds if f[1] == "packet_identifier"]
                if pid:
                    idt = (pid[0][0][1], pid[0][1][0] if pid[0][1] else None, sh)
                else:
                    extra.append((x, sh))
            table[(variant, qos)] = {"tag": tag, "id": idt, "extra": extra, "bb": i, "line": st["line"]}
    return b, table


@rule("KEY", floor=14)
def key(ctx):
    """tx_action_id(K) == rx_action_id(A) exactly when A is the acknowledgement type the standard
    prescribes for K and both carry the same packet identifier; the key is injective (tag and
    identifier bit ranges are disjoint, tags of distinct acknowledgement types are distinct)."""
    tb, tx = key_table(ctx, r"client::utils::tx_action_id$", TXPACKET)
    rb, rx = key_table(ctx, r"client::utils::rx_action_id$", RXPACKET)
    types = ctx.spec("packets")["types"]
    req = ctx.spec("acks")["request_to_ack"]
    out = []
    rx_by_variant = {k[0]: v for k, v in rx.items()}
    for K, A in sorted(req.items()):
        kv, _, kq = K.partition("/")
        t = tx.get((kv, kq or None))
        r = rx_by_variant.get(A)
        site = "%s:%s" % (tb.fn["file"], t["line"] if t else tb.fn["line"])
        if t is None or r is None:
            out.append(Inst("KEY", "%s->%s:missing" % (K, A), False, site, "no key arm for %s" % (K if t is None else A), "both sides must compute a key"))
            continue
        want = types[A.upper()]
        ok_tag = t["tag"] and r["tag"] and t["tag"][0] == want and r["tag"][0] == want and t["tag"][1] == r["tag"][1]
        out.append(Inst("KEY", "%s->%s:tag" % (K, A), bool(ok_tag), site,
                        "tx tag=%s rx tag=%s" % (t["tag"], r["tag"]), "type of %s = %d, same shift on both sides" % (A, want)))
        if A == "Pingresp":
            ok_id = t["id"] is None and r["id"] is None and not t["extra"] and not r["extra"]
            out.append(Inst("KEY", "%s->%s:id" % (K, A), ok_id, site, "tx id=%s rx id=%s" % (t["id"], r["id"]), "PINGREQ/PINGRESP carry no identifier"))
        else:
            ok_id = t["id"] is not None and r["id"] is not None and t["id"][2] == r["id"][2] and t["id"][1] == kv and r["id"][1] == A \
                and not t["extra"] and not r["extra"]
            out.append(Inst("KEY", "%s->%s:id" % (K, A), bool(ok_id), site, "tx id=%s rx id=%s extra=%s/%s" % (t["id"], r["id"], len(t["extra"]), len(r["extra"])),
                            "identifier term from the packet's own packet_identifier, same shift on both sides"))
            if t["tag"] and t["id"]:
                s_t, s_i = t["tag"][1], t["id"][2]
                disjoint = (s_i + 16 <= s_t) or (s_t + 4 <= s_i)
                out.append(Inst("KEY", "%s->%s:disjoint" % (K, A), disjoint, site, "tag bits [%d,%d) id bits [%d,%d)" % (s_t, s_t + 4, s_i, s_i + 16),
                                "bit ranges of the 4-bit type and the 16-bit identifier must not overlap"))
    # the shifts are performed in a type wide enough to hold the shifted value (tag: 4 bits, identifier: 16 bits)
    for b_, nm_ in ((tb, "tx"), (rb, "rx")):
        for i in sorted(b_.reach):
            for st in b_.blocks[i]["stmts"]:
                if st["k"] != "assign" or st["rv"]["k"] != "bin" or st["rv"]["op"] != "Shl":
                    continue
                sh = b_.fold(st["rv"]["b"])
                ty = b_.locals[st["lhs"]["l"]]["ty"] if not st["lhs"]["p"] else None
                at = b_.atoms(st["rv"]["a"])
                is_id = any(a[0] == "field" and a[2] == "packet_identifier" for a in at)
                width = {"u8": 8, "u16": 16, "u32": 32, "u64": 64, "usize": 64, "i32": 32}.get(ty)
                need = (sh or 0) + (16 if is_id else 4)
                if sh is None or width is None:
                    continue
                ok_w = width >= need
                if not ok_w or is_id:
                    out.append(Inst("KEY", "%s:shift-width:%s<<%d:%s" % (nm_, "id" if is_id else "tag", sh, ty), ok_w, "%s:%d" % (b_.fn["file"], st["line"]),
                                    "%s << %d is computed in %s (%d bits), needs %d bits" % ("identifier" if is_id else "tag", sh, ty, width, need),
                                    "the shifted value is not truncated (key stays injective)"))
    # no narrowing integer cast anywhere in the key computation (closures included): `id as u8 as usize` keeps the
    # shift in a wide type and still loses identifier bits
    W = {"u8": 8, "i8": 8, "u16": 16, "i16": 16, "u32": 32, "i32": 32, "u64": 64, "i64": 64, "usize": 64, "isize": 64, "u128": 128, "i128": 128}
    for b0, nm_ in ((tb, "tx"), (rb, "rx")):
        bodies = [b0] + [ctx.world.body(c) for c in ctx.facts.children.get(b0.path, []) if c not in b0.fn.get("inlined", [])]
        narrowing = []
        ncast = 0
        for b_ in bodies:
            for i in sorted(b_.reach):
                if b_.term(i)["k"] == "call" and int_widening(b_.term(i)) is not None:
                    ncast += 1          # `usize::from(x)`: the lossless conversions are the only ones that exist
                for st in b_.blocks[i]["stmts"]:
                    if st["k"] != "assign" or st["rv"]["k"] != "cast" or st["rv"].get("kind") != "IntToInt":
                        continue
                    op = st["rv"]["op"]
                    src = op.get("ty") if op["k"] == "const" else (b_.locals[op["pl"]["l"]]["ty"] if not op["pl"]["p"] else None)
                    if op["k"] == "const" and op.get("uneval"):
                        src = src or "u8"
                    ncast += 1
                    ws, wd = W.get(src), W.get(st["rv"]["ty"])
                    if ws is None or wd is None or wd < ws:
                        narrowing.append("%s:%d %s as %s" % (b_.fn["file"], st["line"], src, st["rv"]["ty"]))
        out.append(Inst("KEY", "%s:no-narrowing-cast" % nm_, not narrowing and ncast > 0, "%s:%d" % (b0.fn["file"], b0.fn["line"]),
                        "%d integer casts in the key computation, narrowing: %s" % (ncast, narrowing or "none"),
                        "identifier and tag reach the key with all their bits"))
    # distinct tags on the rx side
    tags = {}
    for (v, q), e in rx.items():
        if e["tag"]:
            tags.setdefault(e["tag"][0], []).append(v)
    dup = {k: v for k, v in tags.items() if len(v) > 1}
    out.append(Inst("KEY", "rx-tags-distinct", not dup, "%s:%d" % (rb.fn["file"], rb.fn["line"]), "rx tags: %s" % {k: v for k, v in sorted(tags.items())},
                    "distinct acknowledgement types map to distinct tags"))
    # every rx arm's tag equals the type of its own variant
    for (v, q), e in sorted(rx.items(), key=str):
        if v is None:
            continue
        want = types.get(v.upper())
        out.append(Inst("KEY", "rx:%s:own-type" % v, bool(e["tag"]) and e["tag"][0] == want, "%s:%d" % (rb.fn["file"], e["line"]),
                        "rx_action_id(%s) tag=%s" % (v, e["tag"]), "type value %s" % want))
    return out


@rule("LOOKUP", floor=8)
def lookup(ctx):
    """Every Complete(Ok pkt) of the inbound handler sends on the sender removed from awaiting_ack at
    the position found by linear_search_by_key(awaiting_ack, rx_action_id(pkt)) of the same pkt;
    linear_search_by_key is 'first index whose .0 == key'."""
    hp = ctx.inbound_handler()
    effs = ctx.effects(hp)
    out = []
    comps = [e for e in effs if e.kind == "Complete" and not e.via]
    for e in comps:
        s = e.detail["sender"]
        calls = {a[1] for a in s if a[0] == "call"}
        fields = {a[2] for a in s if a[0] == "field" and a[1] == SESSION}
        closures = {a[1] for a in s if a[0] == "closure"}
        removes = False
        for c in closures:
            cb = ctx.world.body(c)
            if cb is None:
                continue
            for x in effects(ctx.world, cb, 0):
                if x.kind == "Remove" and x.detail["how"] == "keyed":
                    removes = True
        for a in s:
            if a[0] == "call" and a[1].endswith("VecDeque::remove"):
                removes = True
        has_search = any(c.endswith("linear_search_by_key") or c.endswith("Iterator::position") for c in calls)
        # search + removal packaged in a local helper `h(&mut deque, key)`
        for c in calls:
            hb = ctx.world.body(c) if ctx.facts.fn(c) else None
            if hb is None:
                for f_ in ctx.facts.fns:
                    if strip_generics_(f_["path"]) == c and f_["kind"] == "fn":
                        hb = ctx.world.body(f_["path"])
            if hb is None or hb.fn["kind"] != "fn" or hb.fn["arg_count"] != 2:
                continue
            inner = effects(ctx.world, hb, 2)
            rm = [x for x in inner if x.kind == "Remove" and x.detail["how"] == "keyed"]
            srch = [t for i, t in hb.calls(r"linear_search_by_key$")]
            if rm and srch:
                from effects import _collect_env_idx
                i0, i1 = set(), set()
                _collect_env_idx(hb, srch[0]["ops"][0], i0, set())
                _collect_env_idx(hb, srch[0]["ops"][1], i1, set())
                if i0 == {0} and i1 == {1}:
                    removes = True
                    has_search = True
        has_key = any(c.endswith("rx_action_id") for c in calls)
        ok = e.detail["variant"] == "Ok" and fields == {"awaiting_ack"} and removes and has_search and has_key
        # same packet: base local of rx_action_id's argument == base local of the payload
        same = False
        pay_local = None
        o = hp.origin(e.term["ops"][1], through_calls=False)
        if o[0] == "agg":
            pay_local = hp.base_local(o[2]["rv"]["ops"][0])
        key_locals = set()
        for i, t in hp.calls(r"client::utils::rx_action_id$"):
            if hp.dominates(i, e.inner_bb):
                key_locals.add(hp.base_local(t["ops"][0]))
        same = pay_local is not None and pay_local in key_locals
        out.append(Inst("LOOKUP", "complete@%s" % _armname(hp, e), ok and same, e.site(),
                        "sender from Session.%s via %s, keyed remove=%s, key of same packet=%s" % (sorted(fields), sorted("::".join(c.split("::")[-1:]) for c in calls if "search" in c or "action_id" in c), removes, same),
                        "sender <= awaiting_ack.remove(linear_search_by_key(awaiting_ack, rx_action_id(pkt))) and Complete(Ok(pkt))"))
    # what a search is: the helper (looked at once), or `deque.iter().position(|e| key_of(e) == key)` written at the site
    ls_fn = ctx.facts.find(r"client::utils::linear_search_by_key$")
    if ls_fn:
        ls = ctx.body(r"client::utils::linear_search_by_key$")
        o = None
        for d in ls.whole_defs(0):
            if d[0] == "call":
                o = d[2]
        ok, fact = position_semantics(ctx, ls, o, need_param=1) if o is not None else (False, "return value is not produced by Iterator::position")
        out.append(Inst("LOOKUP", "linear_search_by_key", ok, ls.site(0), fact, "first index (front to back) whose key equals the searched key"))
    n = 0
    for i, t in hp.calls(r"Iterator::position$"):
        recv = hp.atoms(t["ops"][0])
        flds = sorted({a[2] for a in recv if a[0] == "field" and a[1] == SESSION})
        if not flds:
            continue
        ok, fact = position_semantics(ctx, hp, t)
        out.append(Inst("LOOKUP", "search@%s:%s#%d" % (_armname_bb(hp, i), ",".join(flds), n), ok, hp.site(i), fact, "first index (front to back) whose key equals the searched key"))
        n += 1
    if not ls_fn and n == 0:
        raise AnchorLost("neither a search helper nor an inline position search in the inbound handler")
    # every kind of acknowledgement is completed through such a lookup, in an arm of its own or in one shared arm
    from ctx import match_arms, RXPACKET
    from spec import variant_specs
    sw = match_arms(hp, RXPACKET)[0]
    specs = variant_specs(ctx, hp, RXPACKET, sw)
    good = [o_ for o_ in out if o_.key.startswith("complete@") and o_.ok]
    good_bbs = [e.inner_bb for e in comps]
    for v in ("Puback", "Pubrec", "Pubcomp", "Suback", "Unsuback", "Pingresp"):
        sp = specs.get(v)
        if sp is None:
            continue
        reached = [e for e in comps if e.inner_bb in sp.reach and e.detail["variant"] == "Ok"]
        out.append(Inst("LOOKUP", "kind=%s:completed" % v, bool(reached), hp.site(reached[0].inner_bb) if reached else hp.site(sw),
                        "an inbound %s %s" % (v, "reaches the completion at %s" % sorted({e.site() for e in reached}) if reached else "reaches no completion of a waiting operation"),
                        "the acknowledgement is handed to the operation that waits for it"))
    return out


def position_semantics(ctx, body, t, need_param=None):
    """The call terminator is `X.iter().position(|elem| key_of(elem) == key)` with a plain front-to-back iteration."""
    if t is None or not (callee_name(t) or "").endswith("Iterator::position"):
        return False, "return value is not produced by Iterator::position"
    recv = body.atoms(t["ops"][0])
    adaptors = sorted(a[1].split("::")[-1] for a in recv if a[0] == "call" and not a[1].endswith("VecDeque::iter")
                      and not re.search(r"(Deref::deref|AsRef::as_ref|Borrow::borrow|IntoIterator::into_iter)$", a[1]))
    iter_ok = any(a[0] == "call" and a[1].endswith("VecDeque::iter") for a in recv) and not adaptors \
        and (need_param is None or any(a[0] == "param" and a[1] == need_param for a in recv))
    clo = [a[1] for a in body.atoms(t["ops"][1]) if a[0] == "closure"]
    if not clo:
        return False, "predicate is not a closure"
    cb = ctx.world.body(clo[0])
    e0 = symex(cb, {"l": 0, "p": []})
    if e0[0] == "bin" and e0[1] == "Eq":
        e0 = ("call", "PartialEq::eq", [e0[2], e0[3]])
    if not (e0[0] == "call" and e0[1].endswith("PartialEq::eq")):
        return False, "predicate is %s, not a plain equality" % (e0[:2],)
    a, b_ = e0[2]

    # one side is (a component / the key accessor of) the element handed to the predicate, the other the searched key
    # captured by the closure
    def from_elem(x):
        return any(l[4] == 2 for l in sym_leaves(x) if l[0] == "place") or any(a_[0] == "param" and a_[1] == 2 for a_ in _sym_atoms(cb, x))

    def from_key(x):
        return any(l[4] == 1 for l in sym_leaves(x) if l[0] == "place")
    f0 = (from_elem(a) and not from_key(a)) or (from_elem(b_) and not from_key(b_))
    up = (from_key(a) and not from_elem(a)) or (from_key(b_) and not from_elem(b_))
    fact = "position(|elem| key_of(elem) == key) over deque.iter(): element-side=%s captured-key=%s plain-iter=%s%s" % (f0, up, iter_ok, " (adaptors: %s)" % adaptors if adaptors else "")
    return iter_ok and f0 and up, fact


def _armname_bb(hp, bb):
    sw, arms, otherwise, other_vs, _ = match_arms(hp, RXPACKET)
    return arm_of(hp, arms, otherwise, bb)


def _armname(hp, e):
    sw, arms, otherwise, other_vs, _ = match_arms(hp, RXPACKET)
    return arm_of(hp, arms, otherwise, e.bb)


MUTATORS = {
    # (function role, kind, field) -> allowed 'how'
    ("outbound", "Push", "awaiting_ack"): {"back"},
    ("outbound", "Push", "subscriptions"): {"back"},
    ("outbound", "Push", "retrasmit_queue"): {"back"},
    ("inbound", "Remove", "awaiting_ack"): {"keyed"},
    ("inbound", "Remove", "retrasmit_queue"): {"keyed"},
    ("inbound", "Remove", "subscriptions"): {"keyed"},
    ("reset_session", "Clear", "awaiting_ack"): {None},
    ("reset_session", "Clear", "subscriptions"): {None},
    ("reset_session", "Clear", "retrasmit_queue"): {None},
}


def session_mutations(ctx):
    """All Push/Remove/Clear/OtherDeque effects on Session collections, crate wide; each piece of code is looked at
    once, where it takes effect (ctx.client_units)."""
    out = []
    for role, body in ctx.client_units():
        for e in effects(ctx.world, body, 2, helpers=False):
            if e.kind in ("Push", "Remove", "Clear", "OtherDeque") and e.detail["fields"]:
                out.append((role, e))
    return out


def _on_expired_edge(run, bb):
    """The block of run() executes only on the edge on which session_expired(..) returned true."""
    for (d, s_) in run.control_dep_closure(bb):
        c = Cond(run, d)
        if c.kind == "call" and (c.callee or "").endswith("session_expired"):
            t = c.holds_on(s_)
            if t is not None and (t ^ bool(c.neg)):
                return True
    return False


@rule("FIFO", floor=13)
def fifo(ctx):
    """Each Session collection is mutated only by the enumerated (function, effect) pairs: push_back
    in the outbound handler, keyed remove in the inbound handler, clear in reset_session."""
    out = []
    run = ctx.run_body()
    for role, e in session_mutations(ctx):
        for fld in sorted(e.detail["fields"]):
            how = e.detail.get("how")
            allowed = MUTATORS.get((role, e.kind, fld))
            if allowed is None and e.kind == "Clear" and role == "run" and not e.via and _on_expired_edge(run, e.bb):
                # the session reset written out inside run() instead of a helper: allowed exactly where the helper may be
                # called, on the edge on which the resumed session has expired (RESUME-ORDER decides the rest)
                allowed = {None}
            if allowed is None and fld not in ("awaiting_ack", "subscriptions", "retrasmit_queue"):
                # inbound-only bookkeeping collections (e.g. the set of unreleased inbound QoS 2 identifiers)
                allowed = {("inbound", "Push"): {"back"}, ("inbound", "Remove"): {"keyed", "retain"}, ("reset_session", "Clear"): {None}}.get((role, e.kind))
            if role == "inbound" and e.kind == "Remove" and fld == "awaiting_ack" and not e.via:
                # a waiter whose caller has gone away is removed like any other: one that stays registered answers to the
                # next acknowledgement with the same key (every ping shares one) and shadows the waiters behind it
                hp_ = ctx.inbound_handler()
                from cond import Cond as _Cond
                dep = []
                for (d_, s_) in hp_.control_dep_closure(e.bb):
                    t_ = hp_.term(d_)
                    if t_["k"] == "switch" and any(a[0] == "call" and re.search(r"::(is_canceled|is_closed|poll_canceled|is_connected_to)$", a[1]) for a in hp_.atoms(t_["op"])):
                        dep.append(hp_.site(d_))
                out.append(Inst("FIFO", "inbound:Remove(awaiting_ack):independent-of-cancellation", not dep, e.site(),
                                "the removal of the found waiter %s" % ("does not hang on whether its caller still listens" if not dep else "hangs on the cancellation test at %s" % sorted(set(dep))),
                                "an acknowledgement removes the waiter it finds, listening or not"))
            ok = allowed is not None and how in allowed
            out.append(Inst("FIFO", "%s:%s(%s):%s" % (role, e.kind, fld, e.detail["method"]), ok, e.site(),
                            "%s.%s(..) in %s" % (fld, e.detail["method"], role),
                            "allowed mutators: push_back (outbound), keyed remove (inbound), clear (reset_session)"))
    return out


@rule("REGISTRATION", floor=2)
def registration(ctx):
    """In the outbound handler every normal path of an acknowledgement-expecting arm that writes the
    packet registers exactly one (msg.action_id, msg.response_channel) in awaiting_ack, and no refusal
    path registers anything."""
    hm = ctx.outbound_handler()
    sw, arms, otherwise, other_vs, _ = match_arms(hm, CTXMSG)
    effs = [e for e in ctx.effects(hm) if e.kind in ("TxWrite", "Push", "Complete")]
    out = []
    for arm in ("AwaitAck", "Subscribe"):
        if arm not in arms:
            raise AnchorLost("arm %s of the outbound dispatch" % arm)
        n = 0
        bad = {}
        for path, tr in traced_paths(ctx, hm, arms[arm], effs):
            if exit_kind(hm, path) != "ok":
                continue
            n += 1
            w = [e for e in tr if e.kind == "TxWrite"]
            p = [e for e in tr if e.kind == "Push" and "awaiting_ack" in e.detail["fields"]]
            c = [e for e in tr if e.kind == "Complete"]
            if w:
                good = len(w) == 1 and len(p) == 1 and not c
                if good:
                    at = set().union(*p[0].detail["args"]) if p[0].detail["args"] else set()
                    f = {a[2] for a in at if a[0] == "field" and a[1].startswith("client::message::")}
                    good = {"action_id", "response_channel"} <= f
                if not good:
                    bad.setdefault(("written", len(w), len(p), len(c)), path)
            else:
                if p or len(c) != 1:
                    bad.setdefault(("refused", len(w), len(p), len(c)), path)
        ctx.analysed["paths"] += n
        if not bad:
            out.append(Inst("REGISTRATION", "arm=%s" % arm, n > 0, hm.site(arms[arm]), "%d normal paths: written => one registration of (action_id, response_channel); refused => one completion, no registration" % n,
                            "registration on send, none on refusal"))
        for k, path in bad.items():
            out.append(Inst("REGISTRATION", "arm=%s:%s:writes=%d:registrations=%d:completions=%d" % ((arm,) + k), False, hm.site(path[-1]),
                            "path (%s) with %d writes, %d awaiting_ack registrations, %d completions" % k,
                            "written => exactly one registration and no completion; refused => one completion, no registration",
                            {"path_blocks": path[:80]}))
    return out


def _agg_of(body, op):
    o = body.origin(op, through_calls=False)
    if o[0] == "agg":
        return o[2]["rv"], o[1]
    return None, None


@rule("MSGKIND", floor=8)
def msgkind(ctx):
    """Per handle operation: the message kind, the action id (tx_action_id of the very packet that was
    encoded into the message's buffer), one oneshot channel per Enqueue, build()? before Enqueue."""
    want = {
        "disconnect": [("FireAndForget", None)],
        "ping": [("AwaitAck", "Pingreq")],
        "subscribe": [("Subscribe", "Subscribe")],
        "unsubscribe": [("AwaitAck", "Unsubscribe")],
        "publish": [("FireAndForget", None), ("AwaitAck", "Publish"), ("AwaitAck", "Publish"), ("AwaitAck", "Pubrel")],
    }
    out = []
    for name, body in ctx.handle_ops().items():
        effs = [e for e in ctx.effects(body) if e.kind == "Enqueue"]
        got = []
        chans = []
        for e in effs:
            agg, _ = _agg_of(body, e.term["ops"][1])
            if agg is None or agg.get("adt") != CTXMSG:
                out.append(Inst("MSGKIND", "%s:enqueue-shape" % name, False, e.site(), "enqueued value is not a ContextMessage literal", "ContextMessage::<Kind>{..}"))
                continue
            kind = agg["variant"]
            inner, _ = _agg_of(body, agg["ops"][0])
            tx_variant = None
            ok_same = True
            ok_chan = False
            buf_local = None
            if inner is not None:
                fields = dict(zip(inner["fields"], inner["ops"]))
                # response channel: from its own oneshot::channel()
                rc = fields.get("response_channel")
                if rc is not None:
                    ats = body.atoms(rc)
                    o = body.origin(rc, through_calls=False)
                    # `_4 = move _6.0` with _6 = oneshot::channel()
                    src = None
                    for a in ats:
                        if a[0] == "call" and a[1].endswith("oneshot::channel"):
                            src = a
                    ch_local = None
                    cur = rc
                    for _ in range(6):
                        if cur.get("k") == "const":
                            break
                        ds = body.whole_defs(cur["pl"]["l"])
                        if len(ds) == 1 and ds[0][0] == "stmt" and ds[0][3]["rv"]["k"] == "use" and ds[0][3]["rv"]["op"].get("k") != "const":
                            cur = ds[0][3]["rv"]["op"]
                            continue
                        if len(ds) == 1 and ds[0][0] == "call":
                            ch_local = (cur["pl"]["l"], callee_name(ds[0][2]))
                        break
                    ok_chan = ch_local is not None and ch_local[1].endswith("oneshot::channel")
                    chans.append(ch_local)
                pk = fields.get("packet")
                if pk is not None:
                    buf_local = body.base_local(pk)
                    po = body.origin(pk)
                    if po[0] == "call" and (callee_name(po[2]) or "").endswith("BytesMut::split"):
                        buf_local = body.base_local(po[2]["ops"][0])
                aid = fields.get("action_id")
                if aid is not None:
                    o = body.origin(aid, through_calls=False)
                    if o[0] == "call" and (callee_name(o[2]) or "").endswith("tx_action_id"):
                        targ, _ = _agg_of(body, o[2]["ops"][0])
                        if targ is not None and targ.get("adt") == TXPACKET:
                            tx_variant = targ["variant"]
                            pkt_local = body.base_local(targ["ops"][0])
                            # the packet wrapped in the TxPacket once (`let packet = TxPacket::Publish(..)`) and then both
                            # keyed and encoded through the wrapper: the wrapper is that packet
                            wrap_locals = {pkt_local}
                            oo = body.origin(o[2]["ops"][0], through_calls=False)
                            if oo[0] == "agg" and not oo[2]["lhs"]["p"]:
                                wrap_locals.add(oo[2]["lhs"]["l"])
                            # the same packet local must be the receiver of the encode into buf_local
                            enc_ok = False
                            for i, t, k in body.calls_with_mut_ref_to(buf_local) if buf_local is not None else []:
                                if (callee_name(t) or "").endswith("Encode::encode") and body.base_local(t["ops"][0]) in wrap_locals:
                                    enc_ok = True
                            ok_same = enc_ok
                    else:
                        ok_same = False
                elif kind != "FireAndForget":
                    ok_same = False
            got.append((kind, tx_variant))
            out.append(Inst("MSGKIND", "%s:%s(%s):same-packet" % (name, kind, tx_variant), ok_same, e.site(),
                            "action id = tx_action_id(TxPacket::%s(p)) with p %s the packet encoded into the message buffer" % (tx_variant, "being" if ok_same else "NOT being") if kind != "FireAndForget" else "fire-and-forget message carries no key",
                            "key computed from the packet that is sent"))
            out.append(Inst("MSGKIND", "%s:%s(%s):own-channel" % (name, kind, tx_variant), ok_chan, e.site(),
                            "response channel from %s" % (chans[-1],), "a fresh oneshot::channel() per request"))
            # build()? dominates
            builds = [i for i, t in body.calls(r"(Opts|Builder)(::<[^>]*>)?::build$")]
            dom = [i for i in builds if body.dominates(i, e.inner_bb)]
            out.append(Inst("MSGKIND", "%s:%s(%s):build-first" % (name, kind, tx_variant), bool(dom), e.site(),
                            "%d build() calls dominate the enqueue" % len(dom), "a request missing a mandatory part is refused before the context sees it"))
        w = want[name]
        ok = sorted(got, key=str) == sorted(w, key=str)
        out.append(Inst("MSGKIND", "%s:kinds" % name, ok, body.site(0), "enqueues %s" % got, "expected %s" % w))
        if len(set(chans)) != len(chans):
            out.append(Inst("MSGKIND", "%s:channel-shared" % name, False, body.site(0), "two messages share one oneshot channel: %s" % chans, "one channel per message"))
    # publish: kind per QoS branch (whichever `match` on the QoS the enqueue sits under: the QoS may be matched more
    # than once, e.g. once to allocate the identifier and once for the exchange)
    pb = ctx.handle_ops()["publish"]
    b = None
    per = {}
    for e in [e for e in ctx.effects(pb) if e.kind == "Enqueue"]:
        agg, _ = _agg_of(pb, e.term["ops"][1])
        q = None
        for (d, s_) in dominating_edges(pb, e.inner_bb):
            si = pb.switch_info(d)
            if not si or si["kind"] != "discr" or si.get("adt") != QOS:
                continue
            vals = pb.edge_value(d, s_)
            names = [si["variants"].get(v) for v in vals if v != "otherwise"]
            if "otherwise" in vals:
                listed = {si["variants"][v] for v, _ in si["targets"]}
                names = [x for x in si["variants"].values() if x not in listed]
            if len(names) == 1:
                q = names[0]
                b = d
        per.setdefault(q or "otherwise", []).append(agg["variant"] if agg else "?")
    if b is None:
        raise AnchorLost("match on QoS in ContextHandle::publish")
    wantq = {"AtMostOnce": ["FireAndForget"], "AtLeastOnce": ["AwaitAck"], "ExactlyOnce": ["AwaitAck", "AwaitAck"]}
    out.append(Inst("MSGKIND", "publish:per-qos", per == wantq, pb.site(b), "per QoS branch: %s" % per, "%s" % wantq))
    return out


@rule("RSP-VARIANT", floor=6)
def rsp_variant(ctx):
    """Each handle operation that waits for an acknowledgement matches, on the value its own oneshot
    receiver yields, exactly the acknowledgement variant the standard prescribes for the request it
    enqueued with the matching sender (spec/acks.json); the response is built from that packet moved
    whole. With KEY/LOOKUP this is why the `unreachable!` arms of those matches cannot be reached."""
    req = ctx.spec("acks")["request_to_ack"]
    out = []
    for name, body in ctx.handle_ops().items():
        # enqueued messages: channel local -> expected acknowledgement
        expect = {}
        for e in [e for e in ctx.effects(body) if e.kind == "Enqueue"]:
            agg, _ = _agg_of(body, e.term["ops"][1])
            if agg is None:
                continue
            inner, _ = _agg_of(body, agg["ops"][0])
            if inner is None:
                continue
            fields = dict(zip(inner["fields"], inner["ops"]))
            rc = fields.get("response_channel")
            ch = _channel_local(body, rc) if rc is not None else None
            aid = fields.get("action_id")
            want = None
            if aid is not None:
                o = body.origin(aid, through_calls=False)
                if o[0] == "call" and (callee_name(o[2]) or "").endswith("tx_action_id"):
                    targ, _ = _agg_of(body, o[2]["ops"][0])
                    if targ is not None:
                        v = targ["variant"]
                        if v == "Publish":
                            q = _qos_branch(body, e.inner_bb)
                            want = req.get("Publish/%s" % q)
                        else:
                            want = req.get(v)
            if ch is not None:
                expect[ch] = (want, e)
        for a in body.awaits():
            t = body.term(a["poll_bb"])
            st = (t["callee"].get("self_ty") or "") + " " + (t["callee"].get("resolved") or "")
            if "oneshot::Receiver" not in st:
                continue
            ch = _channel_local(body, t["ops"][0])
            want, enq = expect.get(ch, (None, None))
            # the match applied to the awaited value: in the flattened body (closures of map/and_then inlined, `let else`,
            # plain `match` all look alike) the first switch on an RxPacket discriminant after this await and before
            # the next await of a completion
            matched = None
            whole = None
            site = body.site(a["poll_bb"])
            later = [x["ready_bb"] for x in body.awaits() if x is not a and body.dominates(a["ready_bb"], x["ready_bb"]) and x["ready_bb"] != a["ready_bb"]
                     and "oneshot::Receiver" in ((body.term(x["poll_bb"])["callee"].get("self_ty") or "") + " " + (body.term(x["poll_bb"])["callee"].get("resolved") or ""))]
            cands = []
            for sb in sorted(body.reach):
                si = body.switch_info(sb)
                if not si or si["kind"] != "discr" or si.get("adt") != RXPACKET:
                    continue
                if not body.dominates(a["ready_bb"], sb) or any(body.dominates(l_, sb) for l_ in later):
                    continue
                cands.append((sb, si))
            for sb, si in cands:
                listed = [si["variants"].get(v, str(v)) for v, _ in si["targets"]]
                if len(listed) != 1:
                    matched = "+".join(sorted(listed)) or "none"
                    site = body.site(sb)
                    continue
                matched = listed[0]
                site = body.site(sb)
                entry = si["targets"][0][1]
                pl = si["place"]
                whole = False
                for x in body.reachable_from(entry):
                    if not body.dominates(entry, x):
                        continue
                    for st_ in body.blocks[x]["stmts"]:
                        if st_["k"] == "assign" and st_["rv"]["k"] == "use" and st_["rv"]["op"].get("k") in ("move", "copy"):
                            q = st_["rv"]["op"]["pl"]
                            if q["l"] == pl["l"] and len(q["p"]) == len(pl["p"]) + 2 and isinstance(q["p"][-2], dict) and q["p"][-2].get("dc") == matched:
                                whole = True
                break
            if want is None and matched is None:
                continue        # fire-and-forget: nothing to match
            ok = matched == want and (bool(whole) or want == "Pingresp")    # PINGRESP has no content to carry
            out.append(Inst("RSP-VARIANT", "%s:%s" % (name, want or "none"), ok, site,
                            "the request expects %s; the awaited value is matched against RxPacket::%s and the response %s" % (want, matched, "is built from that packet" if whole else "is NOT built from it"),
                            "spec/acks.json request_to_ack; response carries the acknowledgement's content"))
    return out


def _channel_local(body, op):
    """Local holding the (sender, receiver) pair of the oneshot::channel() this endpoint belongs to."""
    cur = op
    for _ in range(16):
        if cur is None or cur.get("k") == "const":
            return None
        pl = cur["pl"]
        rest = [p_ for p_ in pl["p"] if p_ != "deref"]
        ds = body.whole_defs(pl["l"])
        if len(ds) != 1 and len(rest) >= 2 and isinstance(rest[0], dict) and "dc" in rest[0] and isinstance(rest[1], dict) and "f" in rest[1]:
            # the payload of `Ok((message, receiver))` after a `?`: the literal(s) of that variant (the Err side holds nothing of ours)
            lit = body._variant_literal_ops(pl["l"], rest)
            if lit is not None and len(lit[0]) == 1 and lit[0][0].get("k") != "const":
                o = lit[0][0]
                cur = {"k": "copy", "pl": {"l": o["pl"]["l"], "p": list(o["pl"]["p"]) + list(lit[1])}}
                continue
        if len(ds) != 1:
            return None
        d = ds[0]
        if d[0] == "call":
            nm = callee_name(d[2]) or ""
            if nm.endswith("oneshot::channel"):
                return pl["l"]
            if nm in Body.PASS_THROUGH and d[2]["ops"] and not rest:
                cur = d[2]["ops"][0]
                continue
            return None
        if d[0] == "stmt":
            rv = d[3]["rv"]
            if rv["k"] == "use":
                o = rv["op"]
                if o.get("k") == "const":
                    return None
                cur = {"k": "copy", "pl": {"l": o["pl"]["l"], "p": list(o["pl"]["p"]) + rest}}
                continue
            if rv["k"] in ("ref",):
                cur = {"k": "copy", "pl": {"l": rv["pl"]["l"], "p": list(rv["pl"]["p"]) + rest}}
                continue
            if rv["k"] == "agg" and rv.get("what") == "adt" and rv.get("variant") and len(rest) >= 2 and isinstance(rest[0], dict) and rest[0].get("dc") == rv["variant"] \
                    and isinstance(rest[1], dict) and "f" in rest[1] and rest[1]["f"] < len(rv["ops"]):
                o = rv["ops"][rest[1]["f"]]
                if o.get("k") == "const":
                    return None
                cur = {"k": "copy", "pl": {"l": o["pl"]["l"], "p": list(o["pl"]["p"]) + rest[2:]}}
                continue
            if rv["k"] == "agg" and rv.get("what") == "tuple" and rest and isinstance(rest[0], dict) and "f" in rest[0] and rest[0]["f"] < len(rv["ops"]):
                # the pair a constructor hands back (`(message, receiver)`): the component that is read
                o = rv["ops"][rest[0]["f"]]
                if o.get("k") == "const":
                    return None
                cur = {"k": "copy", "pl": {"l": o["pl"]["l"], "p": list(o["pl"]["p"]) + rest[1:]}}
                continue
        return None
    return None


def _poll_operand_of(body, op):
    """From the value produced by an await (`(_poll as Ready).0` moved around), the operand that was polled."""
    cur = op
    for _ in range(12):
        if cur is None or cur.get("k") == "const":
            return None
        pl = cur["pl"]
        ds = body.whole_defs(pl["l"])
        if len(ds) != 1:
            return None
        d = ds[0]
        if d[0] == "call":
            nm = callee_name(d[2]) or ""
            if nm.endswith("Future::poll"):
                return d[2]["ops"][0]
            if d[2]["ops"] and (nm in Body.PASS_THROUGH or nm.endswith("Try::branch") or nm.endswith("Result::map") or nm.endswith("Result::and_then")):
                cur = d[2]["ops"][0]
                continue
            return None
        if d[0] == "stmt" and d[3]["rv"]["k"] in ("use", "ref"):
            rv = d[3]["rv"]
            cur = rv["op"] if rv["k"] == "use" else {"k": "copy", "pl": rv["pl"]}
            continue
        return None
    return None


def _qos_branch(body, bb):
    for (d, s_) in dominating_edges(body, bb):
        si = body.switch_info(d)
        if si and si["kind"] == "discr" and si.get("adt") == QOS:
            vals = body.edge_value(d, s_)
            names = [si["variants"].get(v) for v in vals if v != "otherwise"]
            if "otherwise" in vals:
                listed = {si["variants"].get(v) for v, _ in si["targets"]}
                names += [x for x in si["variants"].values() if x not in listed]
            if len(names) == 1:
                return names[0]
    return None


@rule("ENCODE-ONCE", floor=8)
def encode_once(ctx):
    """Every buffer handed to the context in a ContextMessage received exactly one `encode` since it was
    created, `split()` off or cleared - on every path (one request = one packet; forward dataflow over the
    handle operation)."""
    out = []
    for name, body in ctx.handle_ops().items():
        enq = [e for e in ctx.effects(body) if e.kind == "Enqueue"]
        for k, e in enumerate(enq):
            agg, _ = _agg_of(body, e.term["ops"][1])
            inner, _ = _agg_of(body, agg["ops"][0]) if agg else (None, None)
            if inner is None:
                continue
            pk = dict(zip(inner["fields"], inner["ops"])).get("packet")
            if pk is None:
                continue
            # the message buffer: a BytesMut local, possibly the result of `B.split()` / `B.clone()`
            src = body.origin(pk)
            via = "moved"
            B = body.base_local(pk)
            take_bb = None
            if src[0] == "call":
                nm = callee_name(src[2]) or ""
                if nm.endswith("BytesMut::split") or nm.endswith("Clone::clone") or nm.endswith("BytesMut::split_to") or nm.endswith("BytesMut::split_off"):
                    via = nm.split("::")[-1]
                    B = body.base_local(src[2]["ops"][0])
                    take_bb = src[1]
            target = take_bb if take_bb is not None else e.inner_bb
            # forward dataflow: number of encodes into B since the last reset, as a set of {0,1,2}
            IN = {0: {0}}
            work = [0]
            while work:
                b = work.pop()
                S = set(IN[b])
                t = body.term(b)
                if b == target:
                    pass
                if t["k"] == "call" and b != target:
                    nm = callee_name(t) or ""
                    refs_B = any(o.get("k") != "const" and body.base_local(o) == B for o in t["ops"])
                    if t["dest"]["l"] == B and not t["dest"]["p"]:
                        S = {0}                                        # B (re)created by a call result
                    elif refs_B and nm.endswith("Encode::encode"):
                        S = {min(x + 1, 2) for x in S}
                    elif refs_B and (nm.endswith("BytesMut::split") or nm.endswith("BytesMut::clear") or nm.endswith("BytesMut::truncate")):
                        S = {0}
                for st in body.blocks[b]["stmts"]:
                    if st["k"] == "assign" and st["lhs"]["l"] == B and not st["lhs"]["p"] and b != target:
                        S = {0}
                for s_ in body.succ(b):
                    old = IN.get(s_)
                    new = S | (old or set())
                    if old is None or new != old:
                        IN[s_] = new
                        work.append(s_)
            got = IN.get(target, set())
            out.append(Inst("ENCODE-ONCE", "%s#%d" % (name, k), got == {1}, e.site(),
                            "message buffer (%s of local _%s) holds %s encoded packet(s) when it is handed over" % (via, B, sorted(got)),
                            "exactly one encoded packet per message on every path"))
    return out


@rule("ENQUEUE-ALWAYS", floor=5)
def enqueue_always(ctx):
    """Every way a handle operation can finish other than through a `?` error passes through the
    enqueue of its request: an operation never reports completion without having handed a request to
    the context."""
    from r_exits import exits
    out = []
    for name, body in ctx.handle_ops().items():
        enq = [e.inner_bb for e in ctx.effects(body) if e.kind == "Enqueue"]
        bad = []
        n = 0
        for x in exits(ctx, body):
            if x["kind"] == "residual":
                continue
            n += 1
            if not any(body.dominates(b, x["bb"]) for b in enq):
                bad.append(body.site(x["bb"]))
        out.append(Inst("ENQUEUE-ALWAYS", name, not bad and n > 0, body.site(0), "%d non-error exits, not preceded by an enqueue: %s" % (n, bad or "none"),
                        "completion is reported only for a request that was handed to the context"))
    return out
