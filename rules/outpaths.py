"""Path-sensitive view of the outbound handler: every feasible path through an arm is classified by what the
packet-type tests on it say (`packet[0] >> 4 == <T as PacketID>::PACKET_ID`), so that a rule can speak about "what
happens to a PUBLISH" without caring whether the code has one `if PUBLISH {..} else if PUBREL {..} else {..}` ladder
or tests the type several times around shared statements."""
from cond import Cond
from ctx import match_arms, CTXMSG
from engine import AnchorLost


def packet_type_const(x, y, types):
    """The packet type value if operand x is the constant side of a packet-type test against operand y: the associated
    constant `<T as PacketID>::PACKET_ID`, or the bare value an arm of `match packet_type { PublishTx::PACKET_ID => .. }`
    leaves behind (only values that are packet types count)."""
    if x.get("k") != "const":
        return None
    if x.get("uneval") and x["uneval"]["name"] == "PACKET_ID" and isinstance(x["uneval"]["eval"], int):
        return x["uneval"]["eval"]
    v = x.get("val")
    if isinstance(v, int) and not isinstance(v, bool) and y.get("k") != "const" and v in types and not x.get("uneval"):
        return v
    return None


def type_guard_sites(ctx, body):
    """[(type name, cond block, successor when the packet IS of that type, successor when it is not)]"""
    types = {v: k for k, v in ctx.spec("packets")["types"].items()}
    out = []
    for b in sorted(body.reach):
        c = Cond(body, b)
        if c.kind != "cmp" or c.op not in ("Eq", "Ne"):
            continue
        for x, y in ((c.a, c.b), (c.b, c.a)):
            v_ = packet_type_const(x, y, types)
            if v_ is not None:
                if any(a[0] == "field" and a[2] == "packet" for a in body.atoms(y)):
                    yes = c.true_succ if c.op == "Eq" else c.false_succ
                    no = c.false_succ if c.op == "Eq" else c.true_succ
                    out.append((types.get(v_, str(v_)), b, yes, no))
    return out


class ArmPaths:
    def __init__(self, ctx, body, arm, cap=20000):
        self.body = body
        sw, arms, otherwise, _, _ = match_arms(body, CTXMSG)
        if arm not in arms:
            raise AnchorLost("arm %s of the outbound dispatch" % arm)
        self.entry = arms[arm]
        self.sites = type_guard_sites(ctx, body)
        edge = {}
        for ty, b, yes, no in self.sites:
            edge[(b, yes)] = (ty, True)
            edge[(b, no)] = (ty, False)
        self.paths = []        # (blocks, class)
        types = {v: k for k, v in ctx.spec("packets")["types"].items()}
        self._types = types
        for path in body.paths(self.entry, cap=cap):
            if not body.feasible(path):
                continue
            verdict = self._simulate(path)
            if verdict is None:
                continue        # infeasible: a flag set on this path contradicts the branch taken on it
            pos, neg = verdict
            if len(pos) > 1 or (pos & neg):
                continue        # a packet has one type: contradictory tests
            cls = sorted(pos)[0] if pos else ("OTHER" if neg else "UNTESTED")
            self.paths.append((path, cls))
        ctx.analysed["paths"] += len(self.paths)
        self.classes = sorted({c for _, c in self.paths})

    def _type_test(self, rv):
        """(type, polarity) if rv is `packet[0] >> 4 == <T as PacketID>::PACKET_ID` (or !=)."""
        if rv["k"] != "bin" or rv["op"] not in ("Eq", "Ne"):
            return None
        for x, y in ((rv["a"], rv["b"]), (rv["b"], rv["a"])):
            v_ = packet_type_const(x, y, self._types)
            if v_ is not None:
                if any(a[0] == "field" and a[2] == "packet" for a in self.body.atoms(y)):
                    return (self._types.get(v_, str(v_)), rv["op"] == "Eq")
        return None

    def _simulate(self, path):
        """Walk the path keeping, for boolean locals, what was last stored in them on this path: a constant or the value
        of a packet-type test. A branch on such a local is then decided (constant: the other edge is infeasible) or
        classifies the path (type test). Returns (types the packet is, types it is not) or None if infeasible."""
        body = self.body
        env = {}
        pos, neg = set(), set()
        for k, b in enumerate(path):
            blk = body.blocks[b]
            for st in blk["stmts"]:
                if st["k"] != "assign" or st["lhs"]["p"]:
                    if not st["lhs"]["p"]:
                        env.pop(st["lhs"]["l"], None)
                    continue
                l = st["lhs"]["l"]
                rv = st["rv"]
                val = None
                if rv["k"] == "use":
                    o = rv["op"]
                    if o.get("k") == "const" and isinstance(o.get("val"), bool):
                        val = ("const", o["val"])
                    elif o.get("k") in ("move", "copy") and not o["pl"]["p"]:
                        val = env.get(o["pl"]["l"])
                elif rv["k"] == "bin":
                    tt = self._type_test(rv)
                    if tt:
                        val = ("type", tt[0], tt[1])
                elif rv["k"] == "un" and rv["op"] == "Not" and rv["a"].get("k") in ("move", "copy") and not rv["a"]["pl"]["p"]:
                    v0 = env.get(rv["a"]["pl"]["l"])
                    if v0 and v0[0] == "const":
                        val = ("const", not v0[1])
                    elif v0 and v0[0] == "type":
                        val = ("type", v0[1], not v0[2])
                if val is None:
                    env.pop(l, None)
                else:
                    env[l] = val
            t = blk["term"]
            if t["k"] == "call" and not t["dest"]["p"]:
                env.pop(t["dest"]["l"], None)
            if t["k"] == "switch" and t.get("ty") == "bool" and k + 1 < len(path) and t["op"].get("k") in ("move", "copy") and not t["op"]["pl"]["p"]:
                v = env.get(t["op"]["pl"]["l"])
                if v is None:
                    continue
                nxt = path[k + 1]
                false_t = [bb for val_, bb in t["targets"] if val_ == 0]
                taken_true = not (false_t and nxt == false_t[0] and nxt != t["otherwise"])
                if false_t and false_t[0] == t["otherwise"]:
                    continue
                if v[0] == "const":
                    if v[1] != taken_true:
                        return None
                elif v[0] == "type":
                    is_ty = (taken_true == v[2])
                    (pos if is_ty else neg).add(v[1])
        return pos, neg

    def blocks_of(self, cls):
        out = set()
        for p, c in self.paths:
            if c == cls:
                out |= set(p)
        return out

    def only(self, cls):
        """Blocks that lie on paths of class cls and on no path of another class."""
        mine = self.blocks_of(cls)
        for c in self.classes:
            if c != cls:
                mine -= self.blocks_of(c)
        return mine

    def class_of_block(self, b):
        cs = sorted({c for p, c in self.paths if b in p})
        return cs

    def precedes(self, cls, a_blocks, b):
        """On every path of class cls that contains b, a block of a_blocks occurs before b. Returns (holds, n paths)."""
        a_blocks = set(a_blocks)
        n = 0
        for p, c in self.paths:
            if c != cls or b not in p:
                continue
            n += 1
            i = p.index(b)
            if not (set(p[:i]) & a_blocks) and b not in a_blocks:
                return False, n
        return n > 0, n

    def followed_by(self, cls, a, b_blocks, only_ok=None, same_block=False):
        """On every path of class cls that contains a (and ends normally), a block of b_blocks occurs after a.
        same_block: a is a statement and the b's are terminators, so b in the block of a itself comes after a."""
        b_blocks = set(b_blocks)
        if same_block and a in b_blocks:
            n = sum(1 for p, c in self.paths if c == cls and a in p and (only_ok is None or only_ok(p)))
            return n > 0, n
        n = 0
        for p, c in self.paths:
            if c != cls or a not in p:
                continue
            if only_ok is not None and not only_ok(p):
                continue
            n += 1
            i = p.index(a)
            if not (set(p[i + 1:]) & b_blocks):
                return False, n
        return n > 0, n
