"""Role-based anchors: private functions, structs and fields that the rules refer to by their name on the
pinned tree are located by *what they are* (signature, field types, data flow). If one of them has been
renamed, the fact base is rewritten to the canonical name before the rules run, so a pure rename does not
raise an alarm. Public API names (Context::run/connect/authorize/new/set_up, ContextHandle::*) are not
covered: renaming those is an API change."""
import json
import re

CTX = "client::context::"


def _fns(d, pred):
    return [f for f in d["fns"] if pred(f)]


def _ctx_impl_fn(f):
    return f["kind"] == "fn" and (f.get("impl_self") or "").startswith("client::context::Context<") and not f.get("impl_trait")


def _is_async(d, f):
    return any(g["path"] == f["path"] + "::{closure#0}" and g["kind"] == "coroutine" for g in d["_by_parent"].get(f["path"], []))


def detect(d):
    """Returns {"structs": {canonical: actual}, "fns": {canonical: actual_name}, "utils": {...}, "fields": {(struct, canonical): actual}}"""
    out = {"structs": {}, "fns": {}, "utils": {}, "fields": {}}
    d["_by_parent"] = {}
    for f in d["fns"]:
        if f.get("parent"):
            d["_by_parent"].setdefault(f["parent"], []).append(f)
    # ---- structs of client::context
    session = connection = None
    for a in d["adts"]:
        if not a["path"].startswith(CTX) or a["kind"] != "struct":
            continue
        ftys = [x["ty"] for x in a["variants"][0]["fields"]]
        if sum(1 for t in ftys if t.startswith("std::collections::VecDeque<")) >= 3:
            session = a
        if any(t == "std::option::Option<std::time::SystemTime>" for t in ftys):
            connection = a
    if session is not None:
        out["structs"]["Session"] = session["path"].split("::")[-1]
        for x in session["variants"][0]["fields"]:
            t = x["ty"]
            if "oneshot::Sender<" in t:
                out["fields"][("Session", "awaiting_ack")] = x["name"]
            elif "UnboundedSender<codec::packet::RxPacket>" in t:
                out["fields"][("Session", "subscriptions")] = x["name"]
            elif t == "std::collections::VecDeque<(usize, bytes::Bytes)>":
                out["fields"][("Session", "retrasmit_queue")] = x["name"]
    if connection is not None:
        out["structs"]["Connection"] = connection["path"].split("::")[-1]
        u16s = []
        for x in connection["variants"][0]["fields"]:
            t = x["ty"]
            if t == "std::option::Option<std::time::SystemTime>":
                out["fields"][("Connection", "disconnection_timestamp")] = x["name"]
            elif t == "u32":
                out["fields"][("Connection", "session_expiry_interval")] = x["name"]
            elif t == "std::option::Option<u32>":
                out["fields"][("Connection", "remote_max_packet_size")] = x["name"]
            elif t == "u16":
                u16s.append(x["name"])
    s_name = out["structs"].get("Session", "Session")
    c_name = out["structs"].get("Connection", "Connection")
    S, C = CTX + s_name, CTX + c_name
    # ---- functions of the Context impl, by signature
    for f in _fns(d, _ctx_impl_fn):
        sig = f.get("sig_in", [])
        ret = f.get("sig_out") or ""
        nm = f["name"]
        asy = _is_async(d, f)
        if asy and any(t == "codec::packet::RxPacket" for t in sig):
            out["fns"]["handle_packet"] = nm
        elif asy and any(t == "client::message::ContextMessage" for t in sig):
            out["fns"]["handle_message"] = nm
        elif asy and len(sig) == 2 and sig[1] == "core::base_types::NonZero<u16>":
            out["fns"]["ack"] = nm
        elif not asy and sig == ["&" + C, "&[u8]"] and ret.startswith("std::result::Result<(), "):
            out["fns"]["validate_packet_size"] = nm
        elif not asy and len(sig) == 2 and sig[0] == "&mut " + C and sig[1] == "&codec::connack::ConnackRx":
            out["fns"]["handle_connack"] = nm
        elif not asy and sig == ["&mut " + S] and ret == "()":
            out["fns"]["reset_session"] = nm
    preds = [f for f in _fns(d, _ctx_impl_fn) if f.get("sig_in") == ["&" + C] and f.get("sig_out") == "bool"]
    if len(preds) == 2:
        preds.sort(key=lambda f: len(f["blocks"]))
        out["fns"]["is_reconnect"] = preds[0]["name"]
        out["fns"]["session_expired"] = preds[1]["name"]
    # ---- client::utils
    for f in d["fns"]:
        if f["kind"] != "fn" or not f["path"].startswith("client::utils::"):
            continue
        sig = f.get("sig_in", [])
        ret = f.get("sig_out") or ""
        if len(sig) == 1 and sig[0].startswith("&codec::packet::RxPacket") and ret == "usize":
            out["utils"]["rx_action_id"] = f["name"]
        elif len(sig) == 1 and sig[0].startswith("&codec::packet::TxPacket") and ret == "usize":
            out["utils"]["tx_action_id"] = f["name"]
        elif len(sig) == 2 and sig[0].startswith("&std::collections::VecDeque<(K, V)>") and ret == "std::option::Option<usize>":
            out["utils"]["linear_search_by_key"] = f["name"]
    # ---- the two u16 fields of Connection: handle_connack assigns quota := receive maximum
    if connection is not None:
        hc = [f for f in d["fns"] if f["name"] == out["fns"].get("handle_connack", "handle_connack") and _ctx_impl_fn(f)]
        if hc and len(u16s) == 2:
            quota = rmax = None
            for b in hc[0]["blocks"]:
                for st in b["stmts"]:
                    if st["k"] != "assign":
                        continue
                    lp = [p for p in st["lhs"]["p"] if isinstance(p, dict) and "f" in p]
                    if not lp or lp[-1].get("adt") != C or lp[-1].get("n") not in u16s:
                        continue
                    rv = st["rv"]
                    if rv["k"] == "use" and rv["op"].get("k") in ("copy", "move") and not rv["op"]["pl"]["p"]:
                        # through one temporary: `_t = (*c).M; (*c).F = move _t`
                        tl = rv["op"]["pl"]["l"]
                        for b2 in hc[0]["blocks"]:
                            for st2 in b2["stmts"]:
                                if st2["k"] == "assign" and st2["lhs"]["l"] == tl and not st2["lhs"]["p"] and st2["rv"]["k"] == "use" \
                                        and st2["rv"]["op"].get("k") in ("copy", "move"):
                                    rv = st2["rv"]
                    if rv["k"] == "use" and rv["op"].get("k") in ("copy", "move"):
                        rp = [p for p in rv["op"]["pl"]["p"] if isinstance(p, dict) and "f" in p]
                        if rp and rp[-1].get("adt") == C and rp[-1].get("n") in u16s and rp[-1]["n"] != lp[-1]["n"]:
                            quota, rmax = lp[-1]["n"], rp[-1]["n"]
            if quota and rmax:
                out["fields"][("Connection", "send_quota")] = quota
                out["fields"][("Connection", "remote_receive_maximum")] = rmax
    return out


def renames(roles):
    """[(kind, canonical, actual)] for every role whose actual name differs from the canonical one."""
    out = []
    for k, v in roles["structs"].items():
        if k != v:
            out.append(("struct", k, v))
    for k, v in roles["fns"].items():
        if k != v:
            out.append(("fn", k, v))
    for k, v in roles["utils"].items():
        if k != v:
            out.append(("util", k, v))
    for (s, k), v in roles["fields"].items():
        if k != v:
            out.append(("field", (s, k), v))
    return out


def canonicalise_text(text, roles):
    """Rewrite the serialised fact base so that every detected role carries its canonical name."""
    rn = renames(roles)
    if not rn:
        return text, []
    for kind, canon, actual in rn:
        if kind == "struct":
            text = re.sub(r"client::context::%s(?=[\"\s,>\)\]\}:]|$)" % re.escape(actual), "client::context::" + canon, text)
    for kind, canon, actual in rn:
        if kind == "fn":
            text = re.sub(r"(client::context::Context(?:::<[^>\"]*>)?::)%s(?=[\"\:])" % re.escape(actual), r"\g<1>" + canon, text)
        elif kind == "util":
            text = re.sub(r"(client::utils::)%s(?=[\"\:])" % re.escape(actual), r"\g<1>" + canon, text)
    for kind, canon, actual in rn:
        if kind == "field":
            s, k = canon
            adt = "client::context::" + s
            text = text.replace('"n":"%s","adt":"%s"' % (actual, adt), '"n":"%s","adt":"%s"' % (k, adt))
            text = re.sub(r'("name":"\w+__)%s(")' % re.escape(actual), r"\g<1>" + k + r"\g<2>", text)

            def fix_fields(m):
                inner = m.group(2).replace('"%s"' % actual, '"%s"' % k)
                return m.group(1) + inner + m.group(3)
            text = re.sub(r'("adt":"%s","variant":"[^"]*","vi":\d+,"args":\[[^\]]*\],"fields":\[)([^\]]*)(\])' % re.escape(adt), fix_fields, text)
    return text, rn


def load_canonical(path):
    if path.endswith(".gz"):
        import gzip
        with gzip.open(path, "rt") as fh:
            text = fh.read()
    else:
        with open(path) as fh:
            text = fh.read()
    d = json.loads(text)
    roles = detect(d)
    text2, rn = canonicalise_text(text, roles)
    if rn:
        d = json.loads(text2)
        for f in d["fns"]:
            last = f["path"].split("::")[-1]
            if f["kind"] == "fn" and re.fullmatch(r"\w+", last):
                f["name"] = last
        for kind, canon, actual in rn:
            if kind == "field":
                s_, k = canon
                for a in d["adts"]:
                    if a["path"] == "client::context::" + s_:
                        for x in a["variants"][0]["fields"]:
                            if x["name"] == actual:
                                x["name"] = k
    d.pop("_by_parent", None)
    d["_roles"] = {"detected": {"structs": roles["structs"], "fns": roles["fns"], "utils": roles["utils"],
                                "fields": {"%s.%s" % k: v for k, v in roles["fields"].items()}},
                   "renamed": [[k, str(c), a] for k, c, a in rn]}
    return d
