"""Role-based anchors: private functions, structs and fields that the rules refer to by the name they have on
the pinned tree are located by *what they are* (shape of a struct, types of its fields, signature of a function,
data flow), anywhere in the crate. If one of them has been renamed or moved to another module / turned from an
associated function into a method of the struct it works on, the fact base is rewritten to the canonical path
before the rules run, so that a rename or a move does not raise an alarm.

Public API names (Context, Context::run/connect/authorize/new/set_up, ContextHandle and its operations, the codec
packet types) are taken as they are: renaming those is an API change. `impl Context` blocks may live in any
module."""
import json
import re

CTX = "client::context::"
SESSION = "client::context::Session"
CONNECTION = "client::context::Connection"
MSG = "client::message::"


def _is_async(by_parent, f):
    return any(g["path"] == f["path"] + "::{closure#0}" and g["kind"] == "coroutine" for g in by_parent.get(f["path"], []))


def _layer(path):
    if path.startswith("<") and path.lstrip("<").split("::")[0] not in ("client", "codec", "core", "io"):
        m = re.search(r" as ([a-z_]+)::", path)
        if m and m.group(1) in ("client", "codec", "core", "io"):
            return m.group(1)
    return path.lstrip("<").split("::")[0]


def _field_role_session(ty, adts):
    """Which Session collection a field of this type is."""
    if not ty.startswith("std::collections::VecDeque<"):
        return None
    inner = ty[len("std::collections::VecDeque<"):-1]
    texts = [inner]
    # queue of a named crate struct: look at that struct's field types
    a = adts.get(inner)
    if a is not None and a["kind"] == "struct":
        texts += [x["ty"] for x in a["variants"][0]["fields"]]
    blob = " ".join(texts)
    if "oneshot::Sender<" in blob:
        return "awaiting_ack"
    if re.search(r"UnboundedSender<codec::(packet::RxPacket|publish::PublishRx)>", blob):
        return "subscriptions"
    if "bytes::Bytes" in blob:
        return "retrasmit_queue"
    if inner == "u16":
        return "unreleased"
    return None


def _is_limit_enum(a):
    """`enum PacketSizeLimit { Unlimited, AtMost(u32) }`: an optional u32 under a name of its own."""
    return a is not None and a["kind"] == "enum" and _layer(a["path"]) == "client" and len(a["variants"]) == 2 \
        and sorted(len(v["fields"]) for v in a["variants"]) == [0, 1] and [f["ty"] for v in a["variants"] for f in v["fields"]][0] == "u32"


def flatten_embedded_request(d):
    """Normal form: the (encoded packet, response channel) pair that every message to the context carries, factored out
    into a private struct of its own and embedded in the message payloads (`AwaitAck { action_id, request: Request<RxPacket> }`)
    is, in the fact base, the two plain fields of each payload struct: `msg.request.packet` -> `msg.packet`, the literal
    `AwaitAck { action_id, request: Request { packet, response_channel } }` -> `AwaitAck { action_id, packet, response_channel }`.
    The struct itself (a payload of its own when used directly, its methods) stays."""
    adts = {a["path"]: a for a in d["adts"]}
    S = None
    for a in d["adts"]:
        if a["kind"] == "struct" and a["path"].startswith(MSG) and len(a["variants"][0]["fields"]) == 2:
            tys = sorted(re.sub(r"<.*$", "", x["ty"]) for x in a["variants"][0]["fields"])
            if tys == ["bytes::BytesMut", "futures::futures_channel::oneshot::Sender"]:
                S = a
    if S is None:
        return None
    sp = S["path"]
    snames = [x["name"] for x in S["variants"][0]["fields"]]
    owners = {}
    for a in d["adts"]:
        if a is S or a["kind"] != "struct" or _layer(a["path"]) != "client":
            continue
        for x in a["variants"][0]["fields"]:
            if re.sub(r"<.*$", "", x["ty"]) == sp:
                owners[a["path"]] = (a, x)
    if not owners:
        return None

    def fix_place(pl):
        pr = pl["p"]
        out = []
        j = 0
        while j < len(pr):
            p = pr[j]
            nxt = pr[j + 1] if j + 1 < len(pr) else None
            if isinstance(p, dict) and "f" in p and p.get("adt") in owners and p.get("n") == owners[p["adt"]][1]["name"] \
                    and isinstance(nxt, dict) and "f" in nxt and nxt.get("adt") == sp:
                out.append({"f": 200 + snames.index(nxt["n"]), "n": nxt["n"], "adt": p["adt"], "ty": nxt.get("ty")})
                j += 2
                continue
            out.append(p)
            j += 1
        pl["p"] = out

    def walk(x):
        if isinstance(x, dict):
            if "l" in x and "p" in x and isinstance(x["p"], list) and isinstance(x["l"], int):
                fix_place(x)
                return
            for v in x.values():
                walk(v)
        elif isinstance(x, list):
            for v in x:
                walk(v)
    for f in d["fns"]:
        walk(f.get("blocks"))
        walk(f.get("debug"))
        # literals
        lits = {}
        for b in f.get("blocks") or []:
            for st in b["stmts"]:
                if st["k"] == "assign" and not st["lhs"]["p"] and st["rv"]["k"] == "agg" and st["rv"].get("adt") == sp:
                    lits.setdefault(st["lhs"]["l"], []).append(st["rv"])
        for b in f.get("blocks") or []:
            for st in b["stmts"]:
                rv = st.get("rv") if st["k"] == "assign" else None
                if rv and rv["k"] == "agg" and rv.get("adt") in owners:
                    fn_ = owners[rv["adt"]][1]["name"]
                    names = rv.get("fields") or []
                    if fn_ in names:
                        k = names.index(fn_)
                        o = rv["ops"][k]
                        if o.get("k") in ("move", "copy") and not o["pl"]["p"] and len(lits.get(o["pl"]["l"], [])) == 1:
                            inner = lits[o["pl"]["l"]][0]
                            order = inner.get("fields") or snames
                            rv["fields"] = names[:k] + list(order) + names[k + 1:]
                            rv["ops"] = rv["ops"][:k] + list(inner["ops"]) + rv["ops"][k + 1:]
    for path, (a, x) in owners.items():
        targ = re.search(r"<(.*)>$", x["ty"])
        fs = []
        for g in S["variants"][0]["fields"]:
            ty = g["ty"]
            if targ:
                ty = re.sub(r"(?<![\w:])T(?![\w:])", targ.group(1), ty)
            fs.append({"name": g["name"], "ty": ty, "pub": False})
        cf = a["variants"][0]["fields"]
        k = cf.index(x)
        a["variants"][0]["fields"] = cf[:k] + fs + cf[k + 1:]
    return {"embedded": sp, "owners": sorted(owners)}


def detect_structs(d):
    """{"adts": {actual_path: canonical_path}, "fields": {(canonical_adt, canonical_field): actual_field}}"""
    adts = {a["path"]: a for a in d["adts"]}
    out = {"adts": {}, "fields": {}}
    # public types of the core layer that the rules name by path, wherever in the layer they are defined (`core::qos::QoS`
    # re-exported from base_types): the type name is public API, the module is not
    for a in d["adts"]:
        if _layer(a["path"]) == "core" and a["path"].split("::")[-1] in ("QoS", "VarSizeInt", "NonZero", "UTF8String", "Binary") and a["path"].count("::") == 2 \
                and not a["path"].startswith("core::base_types::"):
            out["adts"][a["path"]] = "core::base_types::" + a["path"].split("::")[-1]
    # packet types of the codec layer that live in a child module of their packet's module (`codec::publish::tx::PublishTx`):
    # the rules name them `codec::<packet>::<Type>`
    have = {a["path"] for a in d["adts"]}
    for a in d["adts"]:
        parts = a["path"].split("::")
        if _layer(a["path"]) == "codec" and len(parts) > 3 and re.search(r"(Tx|Rx|TxBuilder|RxBuilder|Reason|TxBuilderError|RxBuilderError)$", parts[-1]):
            canon = "::".join(parts[:2] + parts[-1:])
            if canon not in have:
                out["adts"][a["path"]] = canon
    for a in d["adts"]:
        if a["kind"] != "struct" or _layer(a["path"]) != "io":
            continue
        fs = a["variants"][0]["fields"]
        ftys = [x["ty"] for x in fs]
        if len(fs) == 1 and re.fullmatch(r"[A-Z]\w*", ftys[0]) and any(
                f_["kind"] == "fn" and _strip_g(f_.get("impl_self") or "") == a["path"] and not f_.get("impl_trait") and any(t_.replace(" ", "") in ("&[u8]", "&'a[u8]") for t_ in (f_.get("sig_in") or []))
                for f_ in d["fns"]):
            out["adts"][a["path"]] = "io::packet_stream::TxPacketStream"
        elif any(t == "bytes::BytesMut" for t in ftys) and any(t.startswith("std::ops::Range<usize>") for t in ftys) and any(re.fullmatch(r"[A-Z]\w*", t) for t in ftys):
            out["adts"][a["path"]] = "io::packet_stream::RxPacketStream"
    for a in d["adts"]:
        if a["kind"] != "struct" or _layer(a["path"]) != "client":
            continue
        fs = a["variants"][0]["fields"]
        ftys = [x["ty"] for x in fs]
        if sum(1 for t in ftys if t.startswith("std::collections::VecDeque<")) >= 3:
            out["adts"][a["path"]] = SESSION
            for x in fs:
                r = _field_role_session(x["ty"], adts)
                if r:
                    out["fields"][(SESSION, r)] = x["name"]
        elif any(t == "std::option::Option<std::time::SystemTime>" for t in ftys) and not any("PacketStream" in t for t in ftys):
            out["adts"][a["path"]] = CONNECTION
            for x in fs:
                t = x["ty"]
                if t == "std::option::Option<std::time::SystemTime>":
                    out["fields"][(CONNECTION, "disconnection_timestamp")] = x["name"]
                elif t == "u32":
                    out["fields"][(CONNECTION, "session_expiry_interval")] = x["name"]
                elif t == "std::option::Option<u32>" or _is_limit_enum(adts.get(t)):
                    out["fields"][(CONNECTION, "remote_max_packet_size")] = x["name"]
        else:
            # payload structs of the messages handed to the context
            has_buf = any(t == "bytes::BytesMut" for t in ftys)
            one = [t for t in ftys if "oneshot::Sender<" in t]
            stream = [t for t in ftys if re.search(r"UnboundedSender<codec::(packet::RxPacket|publish::PublishRx)>", t)]
            if has_buf and len(one) == 1:
                if stream and len(fs) == 5:
                    canon = MSG + "Subscribe"
                elif not stream and len(fs) == 3:
                    canon = MSG + "AwaitAck"
                elif not stream and len(fs) == 2:
                    canon = MSG + "FireAndForget"
                else:
                    continue
                out["adts"][a["path"]] = canon
                others = []
                for x in fs:
                    t = x["ty"]
                    if t == "bytes::BytesMut":
                        out["fields"][(canon, "packet")] = x["name"]
                    elif "oneshot::Sender<" in t:
                        out["fields"][(canon, "response_channel")] = x["name"]
                    elif "UnboundedSender<" in t:
                        out["fields"][(canon, "stream")] = x["name"]
                    else:
                        others.append(x["name"])
                if others:
                    out["fields"][(canon, "action_id")] = others[0]
                if len(others) > 1:
                    out["fields"][(canon, "subscription_identifier")] = others[1]
    return out


def detect_fns(d):
    """{actual_full_path: canonical_full_path} for the private helper functions the rules name (struct paths in the
    fact base are canonical already)."""
    by_parent = {}
    for f in d["fns"]:
        if f.get("parent"):
            by_parent.setdefault(f["parent"], []).append(f)
    # the Context type and the generic parameter list its impls are printed with
    prefix = None
    for f in d["fns"]:
        if f["kind"] == "fn" and f["name"] == "run" and (f.get("impl_self") or "").startswith("client::context::Context<"):
            params = f["impl_self"][len("client::context::Context"):]
            prefix = "client::context::Context::" + params + "::"
    out = {}
    if prefix is None:
        return out, None
    S, C = "&mut " + SESSION, CONNECTION

    def put(f, name, pre=prefix):
        out[f["path"]] = pre + name
    preds = []
    for f in d["fns"]:
        if f["kind"] != "fn" or f.get("impl_trait") or "::test" in f["path"]:
            continue
        sig = f.get("sig_in") or []
        ret = f.get("sig_out") or ""
        lay = _layer(f["path"])
        asy = _is_async(by_parent, f)
        if (f.get("impl_self") or "").startswith("client::context::Context<") and f["name"] in ("run", "connect", "authorize", "new", "set_up"):
            put(f, f["name"])
            continue
        if lay == "client":
            if asy and any(t == "codec::packet::RxPacket" for t in sig):
                # the inbound handler: the async function of the client layer that takes a received packet by value
                # (its other parameters may be the three borrows, or one private struct that bundles them)
                put(f, "handle_packet")
            elif asy and any(t == "client::message::ContextMessage" for t in sig):
                put(f, "handle_message")
            elif asy and len(sig) in (2, 3) and sig[1] == "core::base_types::NonZero<u16>" and f.get("vis") != "pub" and "MqttError" in ret \
                    and (sig[0].startswith("&mut io::packet_stream::TxPacketStream") or sig[0].startswith("&mut client::")) \
                    and (len(sig) == 2 or re.fullmatch(r"[A-Z]\w*|codec::\w+::\w+Reason", sig[2])):
                # the acknowledgement helper: (transport, packet identifier[, reason code]) -> Result<(), MqttError>
                put(f, "ack")
            elif not asy and any(t.replace(" ", "") in ("&[u8]", "&'a[u8]") for t in sig) and ret.startswith("std::result::Result<(), ") and "MqttError" in ret and len(sig) == 2:
                put(f, "validate_packet_size")
            elif not asy and any(t == "&codec::connack::ConnackRx" for t in sig) and ret == "()" and any(C in t for t in sig):
                put(f, "handle_connack")
            elif not asy and sig == [S] and ret == "()":
                put(f, "reset_session")
            elif not asy and sig == ["&" + C] and ret == "bool":
                preds.append(f)
        if len(sig) == 1 and sig[0].startswith("&codec::packet::RxPacket") and not asy and ret and ("usize" == ret or ret.startswith("client::") or ret.startswith("codec::")) and "Result" not in ret:
            if lay in ("client", "codec") and not f["vis"] == "pub":
                out[f["path"]] = "client::utils::rx_action_id"
        elif len(sig) == 1 and sig[0].startswith("&codec::packet::TxPacket") and not asy and ret and ("usize" == ret or ret.startswith("client::") or ret.startswith("codec::")) and "Result" not in ret:
            if lay in ("client", "codec") and f["name"] not in ("packet_len",) and not f["vis"] == "pub":
                out[f["path"]] = "client::utils::tx_action_id"
        elif lay == "client" and len(sig) == 2 and sig[0].startswith("&std::collections::VecDeque<") and ret == "std::option::Option<usize>":
            out[f["path"]] = "client::utils::linear_search_by_key"
    if len(preds) == 2:
        preds.sort(key=lambda f: len(f["blocks"]))
        put(preds[0], "is_reconnect")
        put(preds[1], "session_expired")
    _codec_tx_helpers(d, out)
    # a role claimed by two functions is no role: leave both alone (the rules then see what is there)
    seen = {}
    for a, c in out.items():
        seen.setdefault(c, []).append(a)
    for c, acts in seen.items():
        if len(acts) > 1:
            for a in acts:
                if a != c:
                    del out[a]
    return out, prefix


def _quota_fields(d, fns):
    """(quota field, receive-maximum field) of Connection: the function that takes a &ConnackRx assigns one u16 field of
    Connection from the other."""
    conn = [a for a in d["adts"] if a["path"] == CONNECTION]
    hc_paths = [a for a, c in fns.items() if c.endswith("::handle_connack")]
    if not conn or not hc_paths:
        return None
    u16s = [x["name"] for x in conn[0]["variants"][0]["fields"] if x["ty"] == "u16"]
    if len(u16s) != 2:
        return None
    hc = [f for f in d["fns"] if f["path"] == hc_paths[0]]
    if not hc:
        return None
    blocks = hc[0]["blocks"]
    for b in blocks:
        for st in b["stmts"]:
            if st["k"] != "assign":
                continue
            lp = [p for p in st["lhs"]["p"] if isinstance(p, dict) and "f" in p]
            if not lp or lp[-1].get("adt") != CONNECTION or lp[-1].get("n") not in u16s:
                continue
            rv = st["rv"]
            if rv["k"] == "use" and rv["op"].get("k") in ("copy", "move") and not rv["op"]["pl"]["p"]:
                tl = rv["op"]["pl"]["l"]
                for b2 in blocks:
                    for st2 in b2["stmts"]:
                        if st2["k"] == "assign" and st2["lhs"]["l"] == tl and not st2["lhs"]["p"] and st2["rv"]["k"] == "use" \
                                and st2["rv"]["op"].get("k") in ("copy", "move"):
                            rv = st2["rv"]
            if rv["k"] == "use" and rv["op"].get("k") in ("copy", "move"):
                rp = [p for p in rv["op"]["pl"]["p"] if isinstance(p, dict) and "f" in p]
                if rp and rp[-1].get("adt") == CONNECTION and rp[-1].get("n") in u16s and rp[-1]["n"] != lp[-1]["n"]:
                    return lp[-1]["n"], rp[-1]["n"]
    return None


INT_TYS = ("u8", "u16", "u32", "u64", "usize")


def erase_counter_newtypes(d):
    """Normal form: a counter of Connection wrapped in a private newtype of its own (`send_quota: SendQuota` with
    `struct SendQuota(u16)` and methods `is_exhausted` / `dec` / `inc(limit)`) is, in the fact base, the plain integer
    field the rules speak about: `conn.F.0` -> `conn.F`; inside the methods of the newtype `self.0` is that same field (a
    reference to the newtype stands for a reference to the Connection it is part of); the literal `SendQuota(x)` is x.
    Returns the list of erased newtypes."""
    adts = {a["path"]: a for a in d["adts"]}
    conn = adts.get(CONNECTION)
    if conn is None:
        return []
    cf = conn["variants"][0]["fields"]
    done = []
    for fi, fld in enumerate(cf):
        T = adts.get(fld["ty"])
        if not (T and T["kind"] == "struct" and _layer(T["path"]) == "client" and len(T["variants"][0]["fields"]) == 1
                and T["variants"][0]["fields"][0]["ty"] in INT_TYS):
            continue
        # only one field of Connection may have this type (otherwise a &T does not say which field it is)
        if sum(1 for x in cf if x["ty"] == T["path"]) != 1:
            continue
        inner = T["variants"][0]["fields"][0]["ty"]
        tp = T["path"]

        def proj():
            return {"f": fi, "n": fld["name"], "adt": CONNECTION, "ty": inner}

        def fix_place(pl, whole_ok=False):
            out = []
            pr = pl["p"]
            j = 0
            while j < len(pr):
                p = pr[j]
                if isinstance(p, dict) and "f" in p and p.get("adt") == CONNECTION and p.get("n") == fld["name"]:
                    nxt = pr[j + 1] if j + 1 < len(pr) else None
                    if isinstance(nxt, dict) and "f" in nxt and nxt.get("adt") == tp:
                        out.append(proj())
                        j += 2
                        continue
                    if whole_ok and j == len(pr) - 1:
                        out.append(proj())
                        j += 1
                        continue
                    j += 1          # a reference to the newtype stands for the Connection it is part of
                    continue
                if isinstance(p, dict) and "f" in p and p.get("adt") == tp:
                    out.append(proj())
                    j += 1
                    continue
                out.append(p)
                j += 1
            pl["p"] = out

        def walk(x):
            if isinstance(x, dict):
                if "l" in x and "p" in x and isinstance(x["p"], list) and isinstance(x["l"], int):
                    fix_place(x)
                    return
                for v in x.values():
                    walk(v)
            elif isinstance(x, list):
                for v in x:
                    walk(v)
        for f in d["fns"]:
            for b in f.get("blocks") or []:
                for st in b["stmts"]:
                    if st["k"] == "assign" and st["rv"]["k"] == "agg" and st["rv"].get("adt") == tp and len(st["rv"]["ops"]) == 1:
                        st["rv"] = {"k": "use", "op": st["rv"]["ops"][0]}
                        walk(st["rv"])
                        fix_place(st["lhs"], whole_ok=True)
                    elif st["k"] == "assign" and st["rv"]["k"] == "use" and st["rv"]["op"].get("k") in ("move", "copy") \
                            and st["lhs"]["p"] and isinstance(st["lhs"]["p"][-1], dict) and st["lhs"]["p"][-1].get("adt") == CONNECTION and st["lhs"]["p"][-1].get("n") == fld["name"]:
                        # `connection.F = tmp` with tmp the (erased) literal
                        fix_place(st["lhs"], whole_ok=True)
                        walk(st["rv"])
                    else:
                        walk(st)
                walk(b.get("term"))
            walk(f.get("debug"))
            for l in f.get("locals") or []:
                if l.get("ty") == tp:
                    l["ty"] = inner
        fld["ty"] = inner
        done.append({"newtype": tp, "field": fld["name"], "inner": inner})
    return done


def flatten_quota_struct(d):
    """Normal form: the two u16 flow-control counters of Connection bundled in a private struct of their own
    (`send_quota: SendQuota { available, maximum }`, with methods that the handlers call) are rewritten, in the fact
    base, into the two plain fields of Connection the rules speak about: `conn.F.available` -> `conn.send_quota`,
    `conn.F.maximum` -> `conn.remote_receive_maximum`; inside the methods of the bundle `self.available` becomes the same
    field, and a reference to the bundle stands for the reference to the Connection it is part of. Which field is the
    quota is read off the code: the one that is written with arithmetic (x - 1, x + 1). Returns a description or None."""
    adts = {a["path"]: a for a in d["adts"]}
    conn = adts.get(CONNECTION)
    if conn is None:
        return None
    cf = conn["variants"][0]["fields"]
    if sum(1 for x in cf if x["ty"] == "u16") == 2:
        return None
    cand = None
    for x in cf:
        t = adts.get(x["ty"])
        if t and t["kind"] == "struct" and _layer(t["path"]) == "client" and len(t["variants"][0]["fields"]) == 2 and all(g["ty"] == "u16" for g in t["variants"][0]["fields"]):
            cand = (x, t)
    if cand is None:
        return None
    fld, T = cand
    names = [g["name"] for g in T["variants"][0]["fields"]]
    arith = {n: 0 for n in names}
    for f in d["fns"]:
        for b in f["blocks"]:
            for st in b["stmts"]:
                if st["k"] != "assign":
                    continue
                lp = [p for p in st["lhs"]["p"] if isinstance(p, dict) and "f" in p]
                if not lp or lp[-1].get("adt") != T["path"]:
                    continue
                rv = st["rv"]
                src = rv
                if rv["k"] == "use" and rv["op"].get("k") in ("move", "copy") and rv["op"]["pl"]["p"]:
                    # `x = move tmp.0` with tmp = CheckedSub(..)
                    tl = rv["op"]["pl"]["l"]
                    for b2 in f["blocks"]:
                        for st2 in b2["stmts"]:
                            if st2["k"] == "assign" and st2["lhs"]["l"] == tl and not st2["lhs"]["p"]:
                                src = st2["rv"]
                if src["k"] == "bin" and src["op"] in ("Add", "Sub"):
                    arith[lp[-1]["n"]] += 1
    quota = [n for n in names if arith[n] > 0]
    if len(quota) != 1:
        return None
    role = {quota[0]: "send_quota", [n for n in names if n != quota[0]][0]: "remote_receive_maximum"}

    def fix_place(pl):
        out = []
        pr = pl["p"]
        j = 0
        while j < len(pr):
            p = pr[j]
            if isinstance(p, dict) and "f" in p and p.get("adt") == CONNECTION and p.get("n") == fld["name"]:
                nxt = pr[j + 1] if j + 1 < len(pr) else None
                if isinstance(nxt, dict) and "f" in nxt and nxt.get("adt") == T["path"]:
                    out.append({"f": 100 + names.index(nxt["n"]), "n": role[nxt["n"]], "adt": CONNECTION, "ty": "u16"})
                    j += 2
                    continue
                j += 1          # a reference to the bundle stands for the Connection it is part of
                continue
            if isinstance(p, dict) and "f" in p and p.get("adt") == T["path"]:
                out.append({"f": 100 + names.index(p["n"]), "n": role[p["n"]], "adt": CONNECTION, "ty": "u16"})
                j += 1
                continue
            out.append(p)
            j += 1
        pl["p"] = out

    def walk(x):
        if isinstance(x, dict):
            if "l" in x and "p" in x and isinstance(x["p"], list) and isinstance(x["l"], int):
                fix_place(x)
                return
            for v in x.values():
                walk(v)
        elif isinstance(x, list):
            for v in x:
                walk(v)
    for f in d["fns"]:
        walk(f.get("blocks"))
        walk(f.get("debug"))
    conn["variants"][0]["fields"] = [x for x in cf if x is not fld] + [{"name": "send_quota", "ty": "u16", "pub": False}, {"name": "remote_receive_maximum", "ty": "u16", "pub": False}]
    return {"bundle": T["path"], "field": fld["name"], "roles": role}


def _strip_g(p):
    prev = None
    while prev != p:
        prev = p
        p = re.sub(r"::<[^<>]*>", "", p)
        p = re.sub(r"<[^<>]*>", "", p)
    return p


def _codec_tx_helpers(d, out):
    """The private helpers of the *Tx encoders by what they do: the length-prefix helpers (return VarSizeInt: the one
    the others are summed into is the remaining length, the others in the order encode() writes them: property length,
    will property length), the helper whose u8 result encode() writes directly (flags byte), the predicate methods."""
    by_path = {f["path"]: f for f in d["fns"]}
    enc_of = {}
    for f in d["fns"]:
        if f["kind"] == "fn" and f["name"] == "encode" and (f.get("impl_trait") or "").startswith("core::utils::Encode"):
            adt = _strip_g(f.get("impl_self") or "")
            if re.match(r"codec::\w+::\w+Tx$", adt):
                enc_of[adt] = f
    for adt, enc in enc_of.items():
        # inherent methods, and methods the type implements for a private trait of the codec (`impl Framed for PublishTx`)
        meths = [f for f in d["fns"] if f["kind"] == "fn" and _strip_g(f.get("impl_self") or "") == adt
                 and (not f.get("impl_trait") or (_strip_g(f["impl_trait"]).startswith("codec::")))]
        if not meths:
            continue
        mp = {m["path"]: m for m in meths}

        def callees(f):
            cs = []
            for b in f["blocks"]:
                t = b["term"]
                if t["k"] == "call" and t.get("callee"):
                    tgt_ = t["callee"].get("resolved") if t["callee"].get("resolved") in mp else t["callee"]["def"]
                    if tgt_ in mp:
                        cs.append(tgt_)
            return cs
        # the length-prefix helpers take `&self` only; plumbing with further parameters (`remaining_len_with(&self, plen)`)
        # is not a role of its own
        vs = [m for m in meths if m.get("sig_out") == "core::base_types::VarSizeInt" and len(m.get("sig_in") or []) == 1]
        prefix = None
        if vs:
            root = None
            for m in vs:
                others = {x["path"] for x in vs if x is not m}
                if not others or others & set(callees(m)):
                    root = m if (root is None or len(set(callees(m)) & others) > 0) else root
            if root is not None:
                prefix = root["path"][:root["path"].rfind("::") + 2]
                out[root["path"]] = prefix + "remaining_len"
                order = []
                for c in callees(enc):
                    if c in {x["path"] for x in vs} and c != root["path"] and c not in order:
                        order.append(c)
                for c, nm in zip(order, ("property_len", "will_property_len")):
                    out[c] = c[:c.rfind("::") + 2] + nm
        # flags byte: a u8 helper whose result encode() hands straight to the encoder
        u8s = [m for m in meths if m.get("sig_out") == "u8"]
        emitted = []
        for b in enc["blocks"]:
            t = b["term"]
            if t["k"] == "call" and t.get("callee") and t["callee"]["def"] in {m["path"] for m in u8s} and not t["dest"]["p"]:
                dl = t["dest"]["l"]
                for b2 in enc["blocks"]:
                    t2 = b2["term"]
                    if t2["k"] == "call" and re.search(r"(Encoder::encode|BufMut::put_u8)$", _strip_g((t2.get("callee") or {}).get("def", ""))) and \
                            any(o.get("k") in ("move", "copy") and o["pl"]["l"] == dl and not o["pl"]["p"] for o in t2["ops"]):
                        emitted.append(t["callee"]["def"])
        emitted = sorted(set(emitted))
        if len(emitted) == 1:
            m = mp[emitted[0]]
            pre = m["path"][:m["path"].rfind("::") + 2]
            out[m["path"]] = pre + ("fixed_hdr" if adt.endswith("PublishTx") else "payload_flags")
        # predicate methods (bool / 0-1 u8, not written themselves)
        preds_ = [m for m in meths if m.get("sig_out") in ("bool", "u8") and m["path"] not in emitted and len(m.get("sig_in") or []) == 1]
        canon_pred = {"codec::connect::ConnectTx": "will_flag", "codec::auth::AuthTx": "is_shortened"}.get(adt)
        if canon_pred and len(preds_) == 1:
            m = preds_[0]
            pre = m["path"][:m["path"].rfind("::") + 2]
            out[m["path"]] = pre + canon_pred


def _sub_path(text, actual, canon):
    if actual == canon:
        return text
    return re.sub(r"(?<![\w:])" + re.escape(actual) + r"(?![\w])", canon.replace("\\", "\\\\"), text)


def canonicalise_structs(text, st):
    renamed = []
    for actual, canon in sorted(st["adts"].items(), key=lambda kv: -len(kv[0])):
        if actual != canon:
            text = _sub_path(text, actual, canon)
            renamed.append(["struct", canon, actual])
    for (adt, k), actual in st["fields"].items():
        if actual == k:
            continue
        renamed.append(["field", "%s.%s" % (adt, k), actual])
        text = text.replace('"n":"%s","adt":"%s"' % (actual, adt), '"n":"%s","adt":"%s"' % (k, adt))
        text = re.sub(r'("name":"\w+__)%s(")' % re.escape(actual), r"\g<1>" + k + r"\g<2>", text)

        def fix_fields(m, actual=actual, k=k):
            inner = m.group(2).replace('"%s"' % actual, '"%s"' % k)
            return m.group(1) + inner + m.group(3)
        text = re.sub(r'("adt":"%s","variant":"[^"]*","vi":\d+,"args":\[[^\]]*\],"fields":\[)([^\]]*)(\])' % re.escape(adt), fix_fields, text)
    return text, renamed


RXSTREAM = "io::packet_stream::RxPacketStream"
STATE = "io::packet_stream::PacketStreamState"


def _flatten_bundle(d, owner, fld, T, role):
    """Rewrite, in the fact base, a private struct T that is the field `fld` of `owner` into plain fields of owner:
    `x.fld.f` -> `x.role[f]`; inside the methods of T `self.f` is that same field of owner (a reference to the bundle
    stands for a reference to the owner it is part of). role: {T field name: (owner field name, type)}."""
    names = [g["name"] for g in T["variants"][0]["fields"]]

    def fix_place(pl):
        out = []
        pr = pl["p"]
        j = 0
        while j < len(pr):
            p = pr[j]
            if isinstance(p, dict) and "f" in p and p.get("adt") == owner["path"] and p.get("n") == fld["name"]:
                nxt = pr[j + 1] if j + 1 < len(pr) else None
                if isinstance(nxt, dict) and "f" in nxt and nxt.get("adt") == T["path"]:
                    out.append({"f": 100 + names.index(nxt["n"]), "n": role[nxt["n"]][0], "adt": owner["path"], "ty": role[nxt["n"]][1]})
                    j += 2
                    continue
                j += 1
                continue
            if isinstance(p, dict) and "f" in p and p.get("adt") == T["path"]:
                out.append({"f": 100 + names.index(p["n"]), "n": role[p["n"]][0], "adt": owner["path"], "ty": role[p["n"]][1]})
                j += 1
                continue
            out.append(p)
            j += 1
        pl["p"] = out

    def walk(x):
        if isinstance(x, dict):
            if "l" in x and "p" in x and isinstance(x["p"], list) and isinstance(x["l"], int):
                fix_place(x)
                return
            for v in x.values():
                walk(v)
        elif isinstance(x, list):
            for v in x:
                walk(v)
    for f in d["fns"]:
        walk(f.get("blocks"))
        walk(f.get("debug"))
    cf = owner["variants"][0]["fields"]
    owner["variants"][0]["fields"] = [x for x in cf if x is not fld] + [{"name": role[n][0], "ty": role[n][1], "pub": False} for n in names]


def flatten_stream_buffer(d):
    """Normal form: the receive buffer and its fill counter bundled in a private struct of the module
    (`buf: RxBuffer { bytes: BytesMut, filled: usize }` with `advance` / `consume` / `take_front` ..) are the two plain
    fields of RxPacketStream the rules speak about."""
    adts = {a["path"]: a for a in d["adts"]}
    rs = adts.get(RXSTREAM)
    if rs is None:
        return None
    cf = rs["variants"][0]["fields"]
    if any(x["ty"] == "bytes::BytesMut" for x in cf):
        return None
    for x in cf:
        T = adts.get(x["ty"])
        if T and T["kind"] == "struct" and T["path"].startswith("io::packet_stream::") and sorted(g["ty"] for g in T["variants"][0]["fields"]) == ["bytes::BytesMut", "usize"]:
            role = {}
            for g in T["variants"][0]["fields"]:
                role[g["name"]] = ("buf", "bytes::BytesMut") if g["ty"] == "bytes::BytesMut" else ("size", "usize")
            _flatten_bundle(d, rs, x, T, role)
            return {"bundle": T["path"], "field": x["name"], "roles": {k: v[0] for k, v in role.items()}}
    return None


def detect_stream(d):
    """Fields of RxPacketStream by type, its state enum and the roles of the enum's variants by what the state's arm of
    poll_next does (reads from the transport / parses the length / hands out the packet).
    Returns {"fields": {canonical: actual}, "state_adt": actual path, "variants": {canonical: actual}}"""
    adts = {a["path"]: a for a in d["adts"]}
    rs = adts.get(RXSTREAM)
    if rs is None:
        return None
    out = {"fields": {}, "state_adt": None, "variants": {}}
    usizes = []
    for x in rs["variants"][0]["fields"]:
        t = x["ty"]
        if t == "bytes::BytesMut":
            out["fields"]["buf"] = x["name"]
        elif t == "usize":
            usizes.append(x["name"])
        elif t.startswith("std::ops::Range<usize>"):
            out["fields"]["packet"] = x["name"]
        elif t in adts and adts[t]["kind"] == "enum":
            out["fields"]["state"] = x["name"]
            out["state_adt"] = t
        elif re.fullmatch(r"[A-Z]\w*", t):
            out["fields"]["stream"] = x["name"]
    if len(usizes) == 1:
        out["fields"]["size"] = usizes[0]
    if not out["state_adt"]:
        return out
    by_path = {f["path"]: f for f in d["fns"]}
    pn = [f for f in d["fns"] if f["kind"] == "fn" and f["name"] == "poll_next" and (f.get("impl_self") or "").startswith(RXSTREAM + "<")]
    if not pn:
        return out
    pn = pn[0]
    blocks = pn["blocks"]

    def calls_in(fn, start, stops, depth=0):
        """Names of the callees reachable from block `start` of fn without entering a block of `stops` (one level into
        local helper methods of the stream)."""
        seen, stack, names = set(), [start], set()
        bl = fn["blocks"]
        while stack:
            i = stack.pop()
            if i in seen or i in stops or bl[i]["cleanup"]:
                continue
            seen.add(i)
            t = bl[i]["term"]
            if t["k"] == "call" and t.get("callee"):
                c = t["callee"]
                nm = (c.get("resolved") or c["def"])
                names.add(nm)
                if depth < 2 and nm in by_path and (by_path[nm].get("impl_self") or "").startswith(RXSTREAM) and by_path[nm]["name"] != "poll_next":
                    names |= calls_in(by_path[nm], 0, set(), depth + 1)
            for key in ("t", "otherwise"):
                if isinstance(t.get(key), int):
                    stack.append(t[key])
            for v, bb in t.get("targets", []):
                stack.append(bb)
        return names
    # the dispatch: a switch whose operand is the discriminant of the state enum
    variants = {v["discr"]: v["name"] for v in adts[out["state_adt"]]["variants"]}
    best = None
    for i, b in enumerate(blocks):
        t = b["term"]
        if t["k"] != "switch":
            continue
        if any(st["k"] == "assign" and st["rv"]["k"] == "discr" and st["rv"].get("adt") == out["state_adt"] for st in b["stmts"]):
            if best is None or len(t["targets"]) > len(best[1]["targets"]):
                best = (i, t)
    if best is None:
        return out
    i0, t0 = best
    entries = {v: bb for v, bb in t0["targets"]}
    listed = set(entries)
    rest = [v for v in variants if v not in listed]
    if t0.get("otherwise") is not None and len(rest) == 1:
        entries[rest[0]] = t0["otherwise"]
    for v, bb in entries.items():
        stops = {x for w, x in entries.items() if w != v} | {i0}
        names = calls_in(pn, bb, stops)
        role = None
        if any(n.endswith("::poll_read") for n in names):
            role = "Idle"
        elif any("VarSizeInt" in n and "try_from" in n for n in names):
            role = "ReadPacketLen"
        elif any(n.endswith("RxPacket as core::utils::TryDecode>::try_decode") or n.endswith("BytesMut::split_to") for n in names):
            role = "ReadPacketData"
        if role and role not in out["variants"] and v in variants:
            out["variants"][role] = variants[v]
    return out


def canonicalise_stream(text, sd):
    renamed = []
    if not sd:
        return text, renamed
    if sd.get("state_adt") and sd["state_adt"] != STATE:
        text = _sub_path(text, sd["state_adt"], STATE)
        renamed.append(["struct", STATE, sd["state_adt"]])
    fields = {(RXSTREAM, k): v for k, v in sd["fields"].items() if k != v}
    if fields:
        text, rn = canonicalise_structs(text, {"adts": {}, "fields": fields})
        renamed += rn
    for canon, actual in sd.get("variants", {}).items():
        if canon != actual:
            # variant names are bare identifiers in the fact base: the token is replaced wherever it stands as a whole string
            text = text.replace('"%s"' % actual, '"%s"' % canon)
            renamed.append(["variant", "%s::%s" % (STATE, canon), actual])
    return text, renamed


def optionlike_enums(d):
    """Normal form: a private two-variant enum of the client layer that is an Option under a name of its own
    (`enum Link { Fresh, Lost(SystemTime) }`, `enum PacketSizeLimit { Unlimited, AtMost(u32) }`: first a unit variant,
    then a variant with one unnamed field) is, in the fact base, the `Option<T>` it is isomorphic to: literals, matches,
    places and types are renamed (`Fresh` -> `None`, `Lost(t)` -> `Some(t)`; discriminants are 0 and 1 in both). The
    methods of the enum keep their paths (they are inlined where they are called). Returns the list of rewritten enums."""
    done = []
    for a in d["adts"]:
        if a["kind"] != "enum" or _layer(a["path"]) != "client" or len(a["variants"]) != 2:
            continue
        v0, v1 = a["variants"]
        if v0["fields"] or len(v1["fields"]) != 1 or not re.fullmatch(r"\d+", v1["fields"][0]["name"]) or v0.get("discr") != 0 or v1.get("discr") != 1:
            continue
        done.append((a["path"], v0["name"], v1["name"], v1["fields"][0]["ty"]))
    if not done:
        return []
    info = {p: (n0, n1, t) for p, n0, n1, t in done}
    pats = [(re.compile(r"(?<![\w:])" + re.escape(p) + r"(?![\w:])"), "std::option::Option<%s>" % t) for p, n0, n1, t in done]

    def fix_ty(t):
        if isinstance(t, str):
            for pat, rep in pats:
                t = pat.sub(rep, t)
        return t

    def fix_place(pl):
        pr = pl["p"]
        for j, p_ in enumerate(pr):
            if isinstance(p_, dict) and "f" in p_:
                if p_.get("adt") in info:
                    prev = pr[j - 1] if j else None
                    if isinstance(prev, dict) and "dc" in prev:
                        n0, n1, _ = info[p_["adt"]]
                        prev["dc"] = "Some" if prev["dc"] == n1 else ("None" if prev["dc"] == n0 else prev["dc"])
                    p_["adt"] = "std::option::Option"
                if "ty" in p_:
                    p_["ty"] = fix_ty(p_["ty"])

    def walk(x):
        if isinstance(x, dict):
            if "l" in x and "p" in x and isinstance(x["p"], list) and isinstance(x["l"], int):
                fix_place(x)
                return
            if x.get("k") == "agg" and x.get("adt") in info:
                n0, n1, t = info[x["adt"]]
                x["adt"] = "std::option::Option"
                x["variant"] = "Some" if x.get("variant") == n1 else "None"
                x["args"] = [t]
            elif x.get("k") == "discr" and x.get("adt") in info:
                x["adt"] = "std::option::Option"
            for k_ in ("ty", "self_ty"):
                if isinstance(x.get(k_), str):
                    x[k_] = fix_ty(x[k_])
            if isinstance(x.get("args"), list):
                x["args"] = [fix_ty(y) for y in x["args"]]
            for v in x.values():
                walk(v)
        elif isinstance(x, list):
            for v in x:
                walk(v)
    for f in d["fns"]:
        walk(f.get("blocks"))
        walk(f.get("debug"))
        for l in f.get("locals") or []:
            l["ty"] = fix_ty(l.get("ty"))
        if isinstance(f.get("sig_in"), list):
            f["sig_in"] = [fix_ty(t) for t in f["sig_in"]]
        for k_ in ("sig_out", "ret_ty"):
            if isinstance(f.get(k_), str):
                f[k_] = fix_ty(f[k_])
    for a in d["adts"]:
        for v in a["variants"]:
            for x in v["fields"]:
                x["ty"] = fix_ty(x["ty"])
    return [p for p, _, _, _ in done]


def split_struct_variants(d):
    """Normal form for enums of the client layer: a struct-like variant `E::V { a, b, c }` is rewritten as the tuple
    variant `E::V(V)` holding a struct `V { a, b, c }` (isomorphic: places `(x as V).b` become `((x as V).0).b`, the
    aggregate `E::V { .. }` becomes `E::V(V { .. })` through a fresh local). Returns the list of (enum, variant) split."""
    paths = {a["path"] for a in d["adts"]}
    split = {}      # (enum path, variant name) -> struct path
    new_adts = []
    for a in d["adts"]:
        if a["kind"] != "enum" or _layer(a["path"]) != "client":
            continue
        module = a["path"].rsplit("::", 1)[0]
        for v in a["variants"]:
            fs = v["fields"]
            if len(fs) < 2 or any(re.fullmatch(r"\d+", x["name"]) for x in fs):
                continue
            sp = module + "::" + v["name"]
            if sp in paths:
                continue
            paths.add(sp)
            split[(a["path"], v["name"])] = sp
            new_adts.append({"path": sp, "kind": "struct", "pub": False, "file": a["file"], "line": a["line"], "from_expansion": False, "synthetic": True,
                             "variants": [{"name": v["name"], "discr": 0, "fields": fs}]})
            v["fields"] = [{"name": "0", "ty": sp, "pub": False}]
    if not split:
        return []
    d["adts"].extend(new_adts)

    def fix_place(pl):
        pr = pl["p"]
        j = 0
        while j + 1 < len(pr):
            a_, b_ = pr[j], pr[j + 1]
            if isinstance(a_, dict) and "dc" in a_ and isinstance(b_, dict) and "f" in b_ and (b_.get("adt"), a_["dc"]) in split:
                sp = split[(b_["adt"], a_["dc"])]
                pr.insert(j + 1, {"f": 0, "n": "0", "adt": b_["adt"], "ty": sp})
                b_["adt"] = sp
                j += 2
            j += 1

    def walk(x):
        if isinstance(x, dict):
            if "l" in x and "p" in x and isinstance(x["p"], list) and isinstance(x["l"], int):
                fix_place(x)
                return
            for v in x.values():
                walk(v)
        elif isinstance(x, list):
            for v in x:
                walk(v)
    for f in d["fns"]:
        walk(f.get("blocks"))
        walk(f.get("debug"))
        for b in f.get("blocks") or []:
            out = []
            for st in b["stmts"]:
                rv = st.get("rv") if st.get("k") == "assign" else None
                if rv and rv.get("k") == "agg" and rv.get("what") == "adt" and (rv.get("adt"), rv.get("variant")) in split:
                    sp = split[(rv["adt"], rv["variant"])]
                    f["locals"].append({"ty": sp, "adt": sp, "user": False})
                    tmp = len(f["locals"]) - 1
                    out.append({"k": "assign", "lhs": {"l": tmp, "p": []}, "rv": {"k": "agg", "what": "adt", "adt": sp, "variant": rv["variant"], "vi": 0, "args": [], "fields": rv.get("fields"), "ops": rv["ops"]},
                                "line": st.get("line", 0), "exp": st.get("exp", False)})
                    rv["ops"] = [{"k": "move", "pl": {"l": tmp, "p": []}}]
                    rv["fields"] = ["0"]
                out.append(st)
            b["stmts"] = out
    return sorted(split)


def load_canonical(path):
    if path.endswith(".gz"):
        import gzip
        with gzip.open(path, "rt") as fh:
            text = fh.read()
    else:
        with open(path) as fh:
            text = fh.read()
    # facts are serialised without spaces after separators in the driver; normalise for the textual rewrites
    d = json.loads(text)
    oe = optionlike_enums(d)
    fer = flatten_embedded_request(d)
    if split_struct_variants(d) or oe or fer:
        text = json.dumps(d, separators=(",", ":"))
    st = detect_structs(d)
    text2, renamed = canonicalise_structs(text, st)
    if renamed:
        d = json.loads(text2)
        for (adt, k), actual in st["fields"].items():
            if actual != k:
                for a in d["adts"]:
                    if a["path"] == adt:
                        for x in a["variants"][0]["fields"]:
                            if x["name"] == actual:
                                x["name"] = k
        text2 = None
    fsb = flatten_stream_buffer(d)
    sd = detect_stream(d)
    if fsb:
        renamed.append(["bundle", fsb["bundle"], fsb["roles"]])
    if sd:
        t_s, rn_s = canonicalise_stream(json.dumps(d, separators=(",", ":")), sd)
        if rn_s:
            d = json.loads(t_s)
            renamed += rn_s
            for a in d["adts"]:
                if a["path"] == RXSTREAM:
                    for x in a["variants"][0]["fields"]:
                        for k, v in sd["fields"].items():
                            if x["name"] == v:
                                x["name"] = k
    en = erase_counter_newtypes(d)
    fq = flatten_quota_struct(d)
    for e_ in en:
        renamed.append(["newtype", e_["newtype"], e_["field"]])
    for e_ in oe:
        renamed.append(["option-like enum", e_, "std::option::Option"])
    if fer:
        renamed.append(["embedded", fer["embedded"], fer["owners"]])
    if fq:
        renamed.append(["bundle", fq["bundle"], fq["roles"]])
    fns, prefix = detect_fns(d)
    # the two u16 fields of Connection: handle_connack assigns quota := receive maximum
    q = None if fq else _quota_fields(d, fns)
    if q:
        pairs = {(CONNECTION, "send_quota"): q[0], (CONNECTION, "remote_receive_maximum"): q[1]}
        st["fields"].update(pairs)
        if any(k[1] != v for k, v in pairs.items()):
            t2, rn2 = canonicalise_structs(json.dumps(d, separators=(",", ":")), {"adts": {}, "fields": pairs})
            d = json.loads(t2)
            renamed += rn2
            for (adt, k), actual in pairs.items():
                if actual != k:
                    for a in d["adts"]:
                        if a["path"] == adt:
                            for x in a["variants"][0]["fields"]:
                                if x["name"] == actual:
                                    x["name"] = k
    moved = {a: c for a, c in fns.items() if a != c}
    if moved:
        t3 = json.dumps(d, separators=(",", ":"))
        for actual, canon in sorted(moved.items(), key=lambda kv: -len(kv[0])):
            t3 = _sub_path(t3, actual, canon)
            renamed.append(["fn", canon, actual])
        d = json.loads(t3)
        for f in d["fns"]:
            last = f["path"].split("::")[-1]
            if f["kind"] == "fn" and re.fullmatch(r"\w+", last):
                f["name"] = last
    d["_roles"] = {"detected": {"structs": st["adts"], "fns": fns, "fields": {"%s.%s" % k: v for k, v in st["fields"].items()}, "stream": sd},
                   "renamed": renamed}
    return d


# kept for callers that only want to know what was found
def detect(d):
    st = detect_structs(d)
    return {"structs": st["adts"], "fields": st["fields"]}
