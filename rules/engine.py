"""Rule registry, instance records, known-findings matching, evidence writing."""
import json
import os
import time
import traceback

VERIF = os.path.dirname(os.path.dirname(os.path.abspath(__file__)))

RULES = {}      # rule id -> (fn, meta)


class Inst:
    """One evaluated rule instance (obligation)."""
    __slots__ = ("rule", "key", "ok", "site", "fact", "oracle", "detail", "kind")

    def __init__(self, rule, key, ok, site="", fact="", oracle="", detail=None, kind=None):
        self.rule = rule
        self.key = "%s:%s" % (rule, key)
        self.ok = bool(ok)
        self.site = site
        self.fact = fact
        self.oracle = oracle
        self.detail = detail or {}
        self.kind = kind or ("holds" if ok else "violation")

    def to_json(self):
        return {"rule": self.rule, "key": self.key, "ok": self.ok, "kind": self.kind, "site": self.site,
                "fact": self.fact, "oracle": self.oracle, "detail": self.detail}


class AnchorLost(Exception):
    pass


def rule(rid, floor=0, doc="", floor_release=None):
    def deco(fn):
        RULES[rid] = (fn, {"floor": floor, "floor_release": floor_release, "doc": doc or (fn.__doc__ or "").strip()})
        return fn
    return deco


def run_rule(rid, ctx):
    """Returns list[Inst]; converts exceptions / missing anchors / floors into failing instances."""
    fn, meta = RULES[rid]
    cache = getattr(ctx, "_rule_cache", None)
    if cache is None:
        cache = ctx._rule_cache = {}
    if rid in cache:
        return list(cache[rid])
    out = []
    try:
        res = fn(ctx)
        out = list(res or [])
    except AnchorLost as e:
        out.append(Inst(rid, "anchor-lost:%s" % e, False, fact=str(e), kind="anchor lost",
                        oracle="the rule's anchor (type / function / field) must be found by role"))
    except KeyError as e:
        out.append(Inst(rid, "anchor-lost:%s" % str(e)[:120], False, fact="lookup failed: %s" % e, kind="anchor lost",
                        detail={"trace": traceback.format_exc()[-1500:]}))
    except Exception as e:  # machinery error: fail closed
        out.append(Inst(rid, "rule-crashed:%s" % type(e).__name__, False, fact="rule crashed: %r" % (e,),
                        kind="machinery error", detail={"trace": traceback.format_exc()[-3000:]}))
    n = len([i for i in out if i.kind not in ("anchor lost", "machinery error")])
    floor = meta["floor"]
    if meta.get("floor_release") is not None and not ctx.facts.config.get("overflow_checks", True):
        floor = meta["floor_release"]
    if n < floor:
        out.append(Inst(rid, "floor", False, fact="found %d instances" % n,
                        oracle="at least %d instances (hand count on the pinned tree)" % floor,
                        kind="anchor lost"))
    cache[rid] = list(out)
    return out


def load_known():
    p = os.path.join(VERIF, "known_findings.json")
    if not os.path.exists(p):
        return {"known": [], "fixed": []}
    with open(p) as fh:
        return json.load(fh)


def write_report(prop, inst, idx, extra=None):
    d = os.path.join(VERIF, "reports")
    os.makedirs(d, exist_ok=True)
    p = os.path.join(d, "%s-%02d-%s.json" % (prop, idx, inst.rule.replace("/", "_")))
    body = {"property": prop}
    body.update(inst.to_json())
    if extra:
        body.update(extra)
    with open(p, "w") as fh:
        json.dump(body, fh, indent=1, default=str)
    return p


def write_evidence(prop, tier, seed, insts, analysed, wall_s, violations, known_matched, explanation,
                   rules_run, assumptions, extra=None):
    d = os.path.join(VERIF, "evidence")
    os.makedirs(d, exist_ok=True)
    real = [i for i in insts]
    ok = [i for i in real if i.ok]
    distinct_sites = len({(i.rule, i.site, i.key) for i in real})
    samples = []
    seen_rules = set()
    for i in real:
        if i.rule not in seen_rules or not i.ok:
            seen_rules.add(i.rule)
            samples.append({"rule": i.rule, "key": i.key, "ok": i.ok, "site": i.site, "fact": i.fact, "oracle": i.oracle})
        if len(samples) >= 60:
            break
    cov = {
        "explanation": explanation,
        "obligations": len(real),
        "discharged": len(ok) + len(known_matched),
        "evaluations": len(real),
        "distinct_nontrivial": distinct_sites,
        "rule": "one evaluation = one rule instance (site x rule) decided on the MIR fact base; distinct = distinct (rule, site, key)",
        "samples": samples,
        "analysed": analysed,
        "rules": rules_run,
        "known_findings_matched": known_matched,
        "checker_cmd": "./check %s %s" % (prop, tier),
        "trusted_base": [
            "rustc nightly MIR construction (mir_built) and name/type resolution",
            "documented semantics of futures::channel (oneshot send consumes the sender; drop cancels) and of bytes (curated panicking API list)",
            "transcription of the MQTT 5 tables in spec/",
            "direction of each over-approximation as stated per rule in DESIGN.md",
        ],
        "exhaustive": True,
    }
    if extra:
        cov.update(extra)
    ev = {
        "property_id": prop,
        "tier": tier,
        "seed": seed,
        "level": "other",
        "coverage": cov,
        "assumptions": assumptions,
        "wall_s": round(wall_s, 2),
        "violations": violations,
    }
    p = os.path.join(d, "%s.json" % prop)
    tmp = p + ".tmp.%d" % os.getpid()
    with open(tmp, "w") as fh:
        json.dump(ev, fh, indent=1, default=str)
    os.replace(tmp, p)
    return p
