"""A small abstract interpreter for MIR bodies whose control flow is driven by a loop over input bytes (the variable
byte integer decoder). Values are intervals / enum literals / tuples; every path is followed separately (trace
partitioning: states are never joined), the unknown input enters through `Iterator::next` on the byte iterator, which
forks into "no more bytes" and "one more byte in [0, 255]". No solver is involved: branch feasibility is decided by
interval tests only. The exploration is bounded by the number of bytes consumed (`max_bytes`); a path that wants more
is reported, not followed.

What it yields for such a function:
  * every overflow / shift-range assertion that *can* fail for some input (with the path that gets there),
  * for every way the function returns: how many bytes had been consumed, and what is returned (Ok / Err, the
    enum literals inside, through `Into::into` / `From::from`).
"""
import re
from mir import callee_name, callee_resolved

BITS = {"u8": 8, "u16": 16, "u32": 32, "u64": 64, "usize": 64, "i8": 8, "i16": 16, "i32": 32, "i64": 64, "isize": 64, "bool": 1}
TOP = ("top",)


def iv(lo, hi):
    return ("int", lo, hi)


def is_int(v):
    return isinstance(v, tuple) and v[0] == "int"


class Explorer:
    def __init__(self, body, max_bytes=8, max_states=20000, report_wrap=False):
        self.b = body
        self.report_wrap = report_wrap      # build without overflow checks: a wrapping Add / Mul / Sub is reported instead
        self._cur = (None, 0)
        self.max_bytes = max_bytes
        self.max_states = max_states
        self.failures = []      # (block, message, bytes consumed)
        self.returns = []       # (bytes consumed, value of _0, block)
        self.unbounded = []
        self.blind = []         # (block, callee) where a branch is decided by the result of a call the interpreter does not model
        self._opaque = {}       # local -> callee whose (unmodelled) result it holds
        self.steps = 0

    # ------------------------------------------------------------------ values
    def ty_bits(self, ty):
        return BITS.get(ty)

    def read(self, env, pl):
        v = env.get(pl["l"], TOP)
        for p in pl["p"]:
            if p == "deref":
                if isinstance(v, tuple) and v[0] == "ref":
                    v = self.read(env, v[1])
                continue
            if isinstance(p, dict) and "dc" in p:
                if isinstance(v, tuple) and v[0] == "adt":
                    if v[2] != p["dc"]:
                        return TOP
                    continue
                return TOP
            if isinstance(p, dict) and "f" in p:
                if isinstance(v, tuple) and v[0] in ("adt", "tuple"):
                    fs = v[3] if v[0] == "adt" else v[1]
                    v = fs[p["f"]] if p["f"] < len(fs) else TOP
                    continue
                return TOP
            return TOP
        return v

    def operand(self, env, o):
        if o is None:
            return TOP
        if o.get("k") == "const":
            if o.get("uneval") and isinstance(o["uneval"].get("eval"), int):
                return iv(o["uneval"]["eval"], o["uneval"]["eval"])
            v = o.get("val")
            if isinstance(v, bool):
                return ("bool", v)
            if isinstance(v, int):
                return iv(v, v)
            if isinstance(v, str) and v.isdigit():
                return iv(int(v), int(v))
            return TOP
        return self.read(env, o["pl"])

    def write(self, env, pl, v):
        if not pl["p"]:
            env[pl["l"]] = v
            return
        if pl["p"] == ["deref"]:
            r = env.get(pl["l"])
            if isinstance(r, tuple) and r[0] == "ref":
                self.write(env, r[1], v)
            return
        # a field of a tuple / struct local
        base = env.get(pl["l"])
        p0 = pl["p"][0]
        if len(pl["p"]) == 1 and isinstance(p0, dict) and "f" in p0 and isinstance(base, tuple) and base[0] == "tuple":
            fs = list(base[1])
            while len(fs) <= p0["f"]:
                fs.append(TOP)
            fs[p0["f"]] = v
            env[pl["l"]] = ("tuple", fs)
            return
        env[pl["l"]] = TOP

    def binop(self, op, a, b, bits):
        if not (is_int(a) and is_int(b)):
            if op in ("Eq", "Ne", "Lt", "Le", "Gt", "Ge"):
                if isinstance(a, tuple) and a[0] == "bool" and isinstance(b, tuple) and b[0] == "bool" and a[1] is not None and b[1] is not None and op in ("Eq", "Ne"):
                    return ("bool", (a[1] == b[1]) == (op == "Eq"))
                return ("bool", None)
            return iv(0, (1 << bits) - 1) if bits else TOP
        al, ah, bl, bh = a[1], a[2], b[1], b[2]
        if op == "Add":
            return iv(al + bl, ah + bh)
        if op == "Sub":
            return iv(al - bh, ah - bl)
        if op == "Mul":
            c = [al * bl, al * bh, ah * bl, ah * bh]
            return iv(min(c), max(c))
        if op == "Shl":
            if bl == bh and 0 <= bl < 128:
                return iv(al << bl, ah << bl)
            return iv(0, ah << min(max(bh, 0), 128))
        if op == "Shr":
            if bl == bh and 0 <= bl < 128:
                return iv(al >> bl, ah >> bl)
            return iv(0, ah)
        if op == "BitAnd":
            if al == ah and bl == bh:
                return iv(al & bl, al & bl)
            m = min(ah, bh) if al >= 0 and bl >= 0 else max(ah, bh)
            return iv(0, m)
        if op in ("BitOr", "BitXor"):
            if al == ah and bl == bh:
                r = (al | bl) if op == "BitOr" else (al ^ bl)
                return iv(r, r)
            top = max(ah, bh)
            return iv(0 if op == "BitXor" else max(al, bl), (1 << top.bit_length()) - 1 if top > 0 else 0)
        if op in ("Div", "Rem"):
            if bl == bh and bl > 0:
                return iv(0, ah // bl) if op == "Div" else iv(0, min(ah, bl - 1))
            return iv(0, ah)
        if op in ("Eq", "Ne", "Lt", "Le", "Gt", "Ge"):
            def res(t, f):
                if t and not f:
                    return ("bool", True)
                if f and not t:
                    return ("bool", False)
                return ("bool", None)
            if op == "Eq":
                return res(not (ah < bl or bh < al), not (al == ah == bl == bh))
            if op == "Ne":
                return res(not (al == ah == bl == bh), not (ah < bl or bh < al))
            if op == "Lt":
                return res(al < bh, ah >= bl)
            if op == "Le":
                return res(al <= bh, ah > bl)
            if op == "Gt":
                return res(ah > bl, al <= bh)
            if op == "Ge":
                return res(ah >= bl, al < bh)
        return TOP

    def clip(self, v, bits):
        if is_int(v) and bits:
            lo, hi = v[1], v[2]
            if lo < 0 or hi > (1 << bits) - 1:
                return iv(0, (1 << bits) - 1)
        return v

    def rvalue(self, env, st):
        rv = st["rv"]
        k = rv["k"]
        lty = self.b.locals[st["lhs"]["l"]]["ty"] if not st["lhs"]["p"] else None
        if k == "use":
            return self.operand(env, rv["op"])
        if k in ("ref", "rawptr"):
            return ("ref", rv["pl"])
        if k == "cast":
            v = self.operand(env, rv["op"])
            bits = self.ty_bits(rv.get("ty"))
            if isinstance(v, tuple) and v[0] == "bool":
                return iv(0, 1) if v[1] is None else iv(int(v[1]), int(v[1]))
            if is_int(v) and bits:
                if v[2] > (1 << bits) - 1:
                    # truncation: exact for constants, otherwise anything that fits
                    return iv(v[1] & ((1 << bits) - 1), v[1] & ((1 << bits) - 1)) if v[1] == v[2] else iv(0, (1 << bits) - 1)
            return v
        if k == "bin":
            a, b = self.operand(env, rv["a"]), self.operand(env, rv["b"])
            if rv.get("checked"):
                m = re.match(r"\((\w+), bool\)", lty or "")
                bits = self.ty_bits(m.group(1)) if m else None
                r = self.binop(rv["op"], a, b, bits)
                over = ("bool", None)
                if is_int(r) and bits:
                    mx = (1 << bits) - 1
                    if rv["op"] in ("Shl", "Shr"):
                        over = ("bool", False) if is_int(b) and b[2] < bits else (("bool", True) if is_int(b) and b[1] >= bits else ("bool", None))
                    elif r[1] >= 0 and r[2] <= mx:
                        over = ("bool", False)
                    elif r[1] > mx or r[2] < 0:
                        over = ("bool", True)
                return ("tuple", [self.clip(r, bits), over])
            bits = self.ty_bits(lty) if lty else None
            r = self.binop(rv["op"], a, b, bits)
            if self.report_wrap and is_int(r) and bits and rv["op"] in ("Add", "Sub", "Mul") and (r[1] < 0 or r[2] > (1 << bits) - 1):
                self.failures.append((self._cur[0], "Wrap(%s)" % rv["op"], self._cur[1]))
            return self.clip(r, bits) if is_int(r) else r
        if k == "un":
            a = self.operand(env, rv["a"])
            if rv["op"] == "Not" and isinstance(a, tuple) and a[0] == "bool":
                return ("bool", None if a[1] is None else (not a[1]))
            if rv["op"] == "PtrMetadata":
                return iv(0, (1 << 63) - 1)
            return TOP
        if k == "discr":
            v = self.read(env, rv["pl"])
            if isinstance(v, tuple) and v[0] == "adt" and v[4] is not None:
                return iv(v[4], v[4])
            return TOP
        if k == "agg":
            vals = [self.operand(env, o) for o in rv["ops"]]
            if rv["what"] == "adt":
                return ("adt", rv.get("adt"), rv.get("variant"), vals, rv.get("vi"))
            return ("tuple", vals)
        return TOP

    def _blind_source(self, bb):
        """Name of an unmodelled call whose result decides the switch at bb (through discriminant reads / moves), if any."""
        b = self.b
        t = b.term(bb)
        if t["op"].get("k") == "const":
            return None
        seen, work = set(), [t["op"]["pl"]["l"]]
        while work:
            l = work.pop()
            if l in seen:
                continue
            seen.add(l)
            for d in b.defs.get(l, []):
                if d[0] == "call":
                    nm = callee_name(d[2]) or ""
                    if not re.search(r"(Iterator::next|Into::into|From::from|Try::branch|FromResidual::from_residual)$", nm):
                        return nm
                    for o in d[2]["ops"]:
                        if o.get("k") != "const":
                            work.append(o["pl"]["l"])
                elif d[0] == "stmt":
                    rv = d[3]["rv"]
                    for key in ("op", "a", "b"):
                        o = rv.get(key)
                        if isinstance(o, dict) and o.get("k") in ("move", "copy"):
                            work.append(o["pl"]["l"])
                    if rv.get("pl"):
                        work.append(rv["pl"]["l"])
        return None

    # ------------------------------------------------------------------ exploration
    def run(self, args=None):
        """args: optional {local: abstract value} giving (some of) the parameters a value."""
        b = self.b
        env0 = {}
        for l in range(1, b.fn["arg_count"] + 1):
            env0[l] = ("input", l)
        env0.update(args or {})
        stack = [(0, env0, 0)]
        while stack:
            self.steps += 1
            if self.steps > self.max_states:
                self.unbounded.append(("state budget exhausted", None))
                break
            bb, env, nbytes = stack.pop()
            env = dict(env)
            blk = b.blocks[bb]
            self._cur = (bb, nbytes)
            for st in blk["stmts"]:
                if st["k"] == "assign":
                    self.write(env, st["lhs"], self.rvalue(env, st))
                else:
                    self.write(env, st["lhs"], TOP)
            t = blk["term"]
            k = t["k"]
            if k in ("goto", "drop", "falseedge", "falseunwind"):
                stack.append((t["t"], env, nbytes))
            elif k == "return":
                self.returns.append((nbytes, env.get(0, TOP), bb))
            elif k == "unreachable":
                continue
            elif k == "assert":
                c = self.operand(env, t["cond"])
                exp = t["expected"]
                may_fail = not (isinstance(c, tuple) and c[0] == "bool" and c[1] is not None and c[1] == exp)
                if may_fail:
                    self.failures.append((bb, t["msg"], nbytes))
                must_fail = isinstance(c, tuple) and c[0] == "bool" and c[1] is not None and c[1] != exp
                if not must_fail:
                    stack.append((t["t"], env, nbytes))
            elif k == "switch":
                v = self.operand(env, t["op"])
                if v == TOP:
                    src_ = self._blind_source(bb)
                    if src_:
                        self.blind.append((bb, src_))
                listed = [x for x, _ in t["targets"]]
                if isinstance(v, tuple) and v[0] == "bool" and v[1] is not None:
                    v = iv(int(v[1]), int(v[1]))
                if is_int(v) and v[1] == v[2]:
                    tgt = None
                    for x, s_ in t["targets"]:
                        if x == v[1]:
                            tgt = s_
                    stack.append((tgt if tgt is not None else t["otherwise"], env, nbytes))
                else:
                    src = t["op"]["pl"] if t["op"].get("k") in ("move", "copy") and not t["op"]["pl"]["p"] else None
                    for x, s_ in t["targets"]:
                        if is_int(v) and not (v[1] <= x <= v[2]):
                            continue
                        e2 = dict(env)
                        if src is not None and (is_int(v) or v == TOP) and isinstance(x, int):
                            e2[src["l"]] = iv(x, x)
                        stack.append((s_, e2, nbytes))
                    if t["otherwise"] is not None:
                        rest_possible = True
                        if is_int(v):
                            rest_possible = any(y not in listed for y in range(v[1], min(v[2], v[1] + 600) + 1)) or v[2] - v[1] > 600
                        if rest_possible:
                            e2 = dict(env)
                            if src is not None and is_int(v):
                                lo, hi = v[1], v[2]
                                while lo in listed and lo <= hi:
                                    lo += 1
                                while hi in listed and hi >= lo:
                                    hi -= 1
                                e2[src["l"]] = iv(lo, hi)
                            stack.append((t["otherwise"], e2, nbytes))
            elif k == "call":
                nm = callee_name(t) or ""
                res = callee_resolved(t) or nm
                if t.get("t") is None:
                    continue        # diverges (panic): reported by the PANIC rule itself
                dest = t["dest"]
                if re.search(r"Iterator::next$", nm) and ("Enumerate" in res or "slice::Iter" in res or "iter::" in res):
                    enum_ = "Enumerate" in res
                    if nbytes >= self.max_bytes:
                        self.unbounded.append(("more than %d bytes consumed" % self.max_bytes, bb))
                        e_none = dict(env)
                        self.write(e_none, dest, ("adt", "std::option::Option", "None", [], 0))
                        stack.append((t["t"], e_none, nbytes))
                        continue
                    e_none = dict(env)
                    self.write(e_none, dest, ("adt", "std::option::Option", "None", [], 0))
                    stack.append((t["t"], e_none, nbytes))
                    e_some = dict(env)
                    byte = iv(0, 255)
                    item = ("tuple", [iv(nbytes, nbytes), byte]) if enum_ else byte
                    self.write(e_some, dest, ("adt", "std::option::Option", "Some", [item], 1))
                    stack.append((t["t"], e_some, nbytes + 1))
                    continue
                if re.search(r"(Into::into|From::from)$", nm) and t["ops"]:
                    self.write(env, dest, ("conv", self.operand(env, t["ops"][0])))
                elif re.search(r"(Try::branch)$", nm) and t["ops"]:
                    v = self.operand(env, t["ops"][0])
                    if isinstance(v, tuple) and v[0] == "adt" and v[2] in ("Ok", "Some"):
                        self.write(env, dest, ("adt", "std::ops::ControlFlow", "Continue", list(v[3]), 0))
                    elif isinstance(v, tuple) and v[0] == "adt" and v[2] in ("Err", "None"):
                        self.write(env, dest, ("adt", "std::ops::ControlFlow", "Break", [v], 1))
                    else:
                        self.write(env, dest, TOP)
                elif re.search(r"FromResidual::from_residual$", nm) and t["ops"]:
                    self.write(env, dest, self.operand(env, t["ops"][0]))
                else:
                    self.write(env, dest, TOP)
                stack.append((t["t"], env, nbytes))
            else:
                continue
        return self


def describe(v, depth=0):
    """Names of the enum literals inside a value, outermost first: ['Err', 'ValueExceedesMaximum']"""
    out = []
    if depth > 6 or not isinstance(v, tuple):
        return out
    if v[0] == "adt":
        out.append(v[2])
        for f in v[3]:
            out += describe(f, depth + 1)
    elif v[0] == "conv":
        out += describe(v[1], depth + 1)
    elif v[0] == "tuple":
        for f in v[1]:
            out += describe(f, depth + 1)
    return out
