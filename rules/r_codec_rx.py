"""Codec rules, receive side and API agreement (C02, C01): LEGAL, REASONS, DEFAULTS, MANDATORY,
SHORTFORM, MULTI, ACCESSOR, SETTER, PUBID."""
import re
from engine import rule, Inst, AnchorLost
from ctx import short_ty
from cond import Cond, dominating_edges
from codecinfo import tx_types, field_types, property_newtypes, inner_type
from mir import Body, callee_name, callee_resolved, strip_generics, symex, sym_fold, sym_leaves, _symex_rv, place_fields
from pathutil import is_err_block

PROPERTY = "core::properties::Property"

RX_DECODERS = {
    # decoder self type regex -> spec legal-set key
    "ConnackRx": "CONNACK", "PublishRx": "PUBLISH", "AckRx": "PUBACK", "SubackRx": "SUBACK", "UnsubackRx": "UNSUBACK",
    "DisconnectRx": "DISCONNECT_S2C", "AuthRx": "AUTH",
}


def rx_decoders(ctx):
    out = {}
    for im in ctx.facts.impls:
        tr = im.get("trait")
        if not tr or tr["path"] != "core::utils::TryDecode":
            continue
        adt = im.get("self_adt") or ""
        nm = adt.split("::")[-1]
        if nm in RX_DECODERS and adt.startswith("codec::"):
            fn = [it for it in im["items"] if it["kind"] == "fn" and it["name"] == "try_decode"]
            if fn:
                out[nm] = (adt, flat_decoder(ctx, ctx.world.body(fn[0]["def"]), adt))
        elif adt.startswith("codec::") and nm.endswith("Rx") and re.search(r"<\w+>$", im.get("self_ty") or ""):
            # one decoder generic over the reason enum, shared by several packets (`ReasonListRx<ReasonT>` with
            # `type SubackRx = ReasonListRx<SubackReason>`): the packets are its instantiations, named after their reason
            fn = [it for it in im["items"] if it["kind"] == "fn" and it["name"] == "try_decode"]
            if not fn:
                continue
            body = None
            for c_ in ctx.facts.consts:
                st_ = c_.get("self_ty") or ""
                m_ = re.search(re.escape(adt) + r"<.*::(\w+)Reason>$", st_)
                if c_["name"] == "PACKET_ID" and m_ and (m_.group(1) + "Rx") in RX_DECODERS and (m_.group(1) + "Rx") not in out:
                    body = body or flat_decoder(ctx, ctx.world.body(fn[0]["def"]), adt)
                    out[m_.group(1) + "Rx"] = (adt, body)
    return out


def flat_decoder(ctx, body, adt):
    """A decoder with its private plumbing looked at in place: free functions of the same module and inherent
    methods of the decoded type that are not public API (e.g. `decode_flags`, `decode_properties` split out of
    try_decode) are inlined; the builder, the Decoder and the primitives stay calls."""
    module = adt.rsplit("::", 1)[0] + "::"
    sadt = strip_generics(adt)

    def kept(p_, module=module, sadt=sadt):
        f_ = ctx.facts.fn(p_)
        if f_ is None:
            return True
        if f_["kind"] == "closure":
            # a closure of the decoder itself (the body of a `try_for_each`, a local `let set = |p| ..` helper) is part
            # of the decoder; closures of anything else are not reached (their owners stay calls)
            return not p_.startswith(body.path + "::")
        sp = strip_generics(p_)
        if f_["kind"] == "fn" and not f_.get("impl_trait"):
            if not f_.get("impl_self") and sp.startswith("codec::") and f_.get("vis") != "pub":
                return False            # free function of the codec (the decoder's module, or plumbing shared between decoders)
            if strip_generics(f_.get("impl_self") or "") == sadt and f_.get("vis") != "pub":
                return False            # private inherent method of the decoded type
        if f_["kind"] == "fn" and f_.get("impl_trait") and re.search(r"Builder$", re.sub(r"<.*$", "", f_.get("impl_self") or "")):
            tr_ = re.sub(r"<.*$", "", f_["impl_trait"])
            if tr_.startswith("codec::") and tr_ not in ("core::utils::TryDecode",):
                return False            # a crate-local trait through which shared plumbing reaches this decoder's builder
        return True
    return ctx.flat_with(body, kept, "rx:" + adt, normalise=False)


def property_arms(body):
    """The `match property` of a decoder: (switch_bb, {variant: entry}, otherwise, others)."""
    best = None
    for b in sorted(body.reach):
        si = body.switch_info(b)
        if si and si["kind"] == "discr" and si.get("adt") == PROPERTY:
            arms = {si["variants"][v]: s_ for v, s_ in si["targets"]}
            if best is None or len(arms) > len(best[1]):
                listed = set(arms)
                best = (b, arms, si["otherwise"], sorted(set(si["variants"].values()) - listed))
    return best


def _region_rejects(body, entry, sw_bb, others):
    """Does the arm starting at entry construct UnexpectedProperty (and return an error)?"""
    reach = body.reachable_from(entry, avoid=[o for o in others if o != entry] + [sw_bb])
    # only the blocks before control returns to the property loop: stop at blocks that post-dominate all arms
    for x in reach:
        if not body.dominates(entry, x):
            continue
        for st in body.blocks[x]["stmts"]:
            if st["k"] == "assign":
                for a in body.rv_atoms(st["rv"]):
                    if a[0] == "variant" and a[2] == "UnexpectedProperty":
                        return True
    return False


@rule("LEGAL", floor=45)
def legal(ctx):
    """Per receive decoder, the set of property variants that is accepted (arm does not lead to
    UnexpectedProperty) equals the standard's legal set for that packet in the server-to-client
    direction; per transmit struct, every property-typed field is legal for the packet."""
    props = ctx.spec("properties")
    ids = props["ids"]
    out = []
    for nm, (adt, body) in sorted(rx_decoders(ctx).items()):
        ctx.note(body)
        pa = property_arms(body)
        if pa is None:
            raise AnchorLost("match on Property in %s::try_decode" % nm)
        sw, arms, otherwise, others = pa
        accepted = set()
        allentries = list(arms.values()) + ([otherwise] if otherwise is not None else [])
        for v, entry in arms.items():
            if not _region_rejects(body, entry, sw, allentries):
                accepted.add(v)
        if otherwise is not None and others and not _region_rejects(body, otherwise, sw, allentries):
            accepted |= set(others)
        keys = [RX_DECODERS[nm]] if nm != "AckRx" else ["PUBACK", "PUBREC", "PUBREL", "PUBCOMP"]
        for key in keys:
            want = {n for n, i in ids.items() if i in props["legal"][key]}
            for p in sorted(want | accepted):
                ok = (p in want) == (p in accepted)
                out.append(Inst("LEGAL", "rx:%s:%s" % (key, p), ok, body.site(arms.get(p, sw)),
                                "%s decoder %s %s" % (nm, "accepts" if p in accepted else "rejects", p), "%s for %s" % ("legal" if p in want else "not legal", key)))
    prop_ids = property_newtypes(ctx)
    for name, info in sorted(tx_types(ctx).items()):
        ft = field_types(ctx, info["adt"])
        key = {"ConnectTx": "CONNECT", "AuthTx": "AUTH", "PublishTx": "PUBLISH", "SubscribeTx": "SUBSCRIBE", "UnsubscribeTx": "UNSUBSCRIBE",
               "DisconnectTx": "DISCONNECT_C2S", "AckTx": "PUBACK", "PingreqTx": None}[name]
        for f, ty in sorted(ft.items()):
            t = inner_type(ty)
            if t not in prop_ids:
                continue
            pid = prop_ids[t]
            legalset = props["legal"]["WILL"] if (name == "ConnectTx" and f.startswith("will_")) else (props["legal"][key] if key else [])
            out.append(Inst("LEGAL", "tx:%s:%s" % (name, f), pid in legalset, "src/codec", "%s.%s carries property id %d" % (name, f, pid), "legal ids: %s" % sorted(legalset)))
    return out


@rule("REASONS", floor=9)
def reasons(ctx):
    """Every reason enum: discriminants = TryFrom<u8> map = the standard's set for that packet."""
    spec = ctx.spec("reasons")
    names = {"ConnectReason": "CONNACK", "PubackReason": "PUBACK", "PubrecReason": "PUBREC", "PubrelReason": "PUBREL", "PubcompReason": "PUBCOMP",
             "SubackReason": "SUBACK", "UnsubackReason": "UNSUBACK", "DisconnectReason": "DISCONNECT", "AuthReason": "AUTH"}
    out = []
    for path, adt in sorted(ctx.facts.adts.items()):
        nm = path.split("::")[-1]
        if nm not in names or adt["kind"] != "enum":
            continue
        want = sorted(spec[names[nm]])
        discr = sorted(v["discr"] for v in adt["variants"])
        out.append(Inst("REASONS", "%s:discriminants" % nm, discr == want, "%s:%d" % (adt["file"], adt["line"]),
                        "discriminants %s" % _hex(sorted(set(discr) ^ set(want))) if discr != want else "%d discriminants equal the table" % len(discr), "%s codes %s" % (names[nm], _hex(want))))
        # TryFrom<u8>
        tf = None
        for im in ctx.facts.impls:
            tr = im.get("trait")
            if tr and tr["full"] == "std::convert::TryFrom<u8>" and im["self_ty"] == path:
                tf = [it for it in im["items"] if it["kind"] == "fn" and it["name"] == "try_from"][0]["def"]
        if tf is None:
            out.append(Inst("REASONS", "%s:try_from" % nm, False, "%s:%d" % (adt["file"], adt["line"]), "no TryFrom<u8> impl", "maps every legal code"))
            continue
        b = ctx.world.body(tf)
        ctx.note(b)
        mp = {}
        d2n = {v["discr"]: v["name"] for v in adt["variants"]}
        for i in sorted(b.reach):
            t = b.term(i)
            if t["k"] == "switch" and len(t["targets"]) >= 2:
                for v, s_ in t["targets"]:
                    got = None
                    for j in b.reachable_from(s_, avoid=[x for _, x in t["targets"] if x != s_] + [t["otherwise"]]):
                        for st in b.blocks[j]["stmts"]:
                            if st["k"] == "assign" and st["rv"]["k"] == "agg" and st["rv"].get("adt") == path:
                                got = st["rv"]["variant"]
                    mp[v] = got
        if not mp:
            # written as a lookup: `Self::ALL.iter().copied().find(|r| *r as u8 == val).ok_or(..)` over a constant table of
            # variants: every listed variant is returned for its own discriminant, nothing else is
            n2d = {v["name"]: v["discr"] for v in adt["variants"]}
            for i, t in b.calls(r"Iterator::(find|position)$"):
                table = None
                for a in b.atoms(t["ops"][0]):
                    if a[0] == "uneval" and ctx.facts.fn(a[1]) is not None:
                        cb_ = ctx.world.body(a[1])
                        names_ = [st["rv"]["variant"] for k_ in sorted(cb_.reach) for st in cb_.blocks[k_]["stmts"]
                                  if st["k"] == "assign" and st["rv"]["k"] == "agg" and st["rv"].get("adt") == path]
                        if names_:
                            table = names_
                clo = [a[1] for a in b.atoms(t["ops"][1]) if a[0] == "closure"]
                if table is None or not clo:
                    continue
                cb2 = ctx.world.body(clo[0])
                e = symex(cb2, {"l": 0, "p": []})
                def strip_(x):
                    while x[0] == "cast":
                        x = x[2]
                    return x
                if e[0] == "bin" and e[1] == "Eq":
                    sides = [strip_(e[2]), strip_(e[3])]
                    elem = [x for x in sides if (x[0] == "discr") or (x[0] == "place" and x[4] == cb2.fn["arg_count"])]
                    cap = [x for x in sides if x[0] == "place" and x[4] == 1]
                    if len(elem) == 1 and len(cap) == 1 and any(a_[0] == "param" and a_[1] == 1 for a_ in b.atoms(t["ops"][1])):
                        for n_ in table:
                            mp[n2d[n_]] = n_
        ok = sorted(mp) == want and all(d2n.get(v) == n for v, n in mp.items())
        bad = sorted(set(mp) ^ set(want)) + [v for v, n in mp.items() if d2n.get(v) != n]
        out.append(Inst("REASONS", "%s:try_from" % nm, ok, b.site(0), "TryFrom<u8> maps %d codes%s" % (len(mp), "" if ok else "; mismatches %s" % _hex(bad)), "every legal code to the variant with that discriminant, nothing else"))
    return out


def _hex(xs):
    return "[" + ", ".join("0x%02x" % x if isinstance(x, int) else str(x) for x in xs) + "]"


@rule("DEFAULTS", floor=8)
def defaults(ctx):
    """Default impls of property newtypes carry the standard's default for an absent property; CONNACK
    properties without a prescribed default are optional fields."""
    spec = ctx.spec("properties")["defaults"]
    out = []
    found = {}
    for im in ctx.facts.impls:
        tr = im.get("trait")
        if not tr or tr["path"] != "std::default::Default":
            continue
        nm = short_ty(re.sub(r"<.*>", "", im["self_ty"]))
        if nm not in spec or not im["self_ty"].startswith("core::properties::"):
            continue
        fn = [it for it in im["items"] if it["kind"] == "fn" and it["name"] == "default"][0]
        b = ctx.world.body(fn["def"])
        ctx.note(b)
        e = symex(b, {"l": 0, "p": []})
        val = _const_leaf(ctx, b, e)
        found[nm] = val
        out.append(Inst("DEFAULTS", nm, val == spec[nm], b.site(0), "%s::default() = %s" % (nm, val), "%s" % spec[nm]))
    # ConnackRx fields
    ft = field_types(ctx, "codec::connack::ConnackRx")
    for f, ty in sorted(ft.items()):
        t = short_ty(inner_type(ty))
        if t in spec and t != "SessionExpiryInterval":
            direct = not ty.startswith("std::option::Option<")
            out.append(Inst("DEFAULTS", "ConnackRx.%s" % f, direct and t in found, "src/codec/connack.rs", "field type %s, Default impl %s" % (short_ty(ty), "present" if t in found else "missing"),
                            "absent property reads as its default %s" % spec[t]))
        elif t in ("ServerKeepAlive", "AssignedClientIdentifier", "ReasonString", "ResponseInformation", "ServerReference", "AuthenticationMethod", "AuthenticationData", "MaximumPacketSize", "SessionExpiryInterval"):
            out.append(Inst("DEFAULTS", "ConnackRx.%s" % f, ty.startswith("std::option::Option<"), "src/codec/connack.rs", "field type %s" % short_ty(ty), "no prescribed default: absent must read as None"))
    # derive(Default) / manual Default of QoS (Maximum QoS default 2 is built from it)
    return out


def _const_leaf(ctx, b, e, depth=0):
    """Constant a Default::default body returns (through newtype aggregates / try_from / unwrap / enum variants)."""
    if depth > 8:
        return None
    v = sym_fold(e)
    if v is not None:
        return v
    if e[0] == "const" and isinstance(e[1], bool):
        return int(e[1])
    if e[0] == "agg":
        if not e[2]:
            # fieldless enum variant: its discriminant
            for a in ctx.facts.adts.values():
                if a["kind"] == "enum":
                    for var in a["variants"]:
                        if var["name"] == e[1] and not var["fields"]:
                            return var["discr"]
            return None
        return _const_leaf(ctx, b, e[2][0], depth + 1)
    if e[0] == "call":
        if e[2]:
            return _const_leaf(ctx, b, e[2][0], depth + 1)
        # T::default()
        m = re.match(r"<(.*) as std::default::Default>::default", e[1])
        if m and m.group(1) in ("u8", "u16", "u32", "u64", "usize", "i8", "i16", "i32", "i64", "isize", "bool"):
            return 0            # the standard library's Default of a primitive integer / bool (a derived Default calls it)
        if m:
            f = [x for x in ctx.facts.fns if x["path"] == "<%s as std::default::Default>::default" % m.group(1)]
            if f:
                cb = ctx.world.body(f[0]["path"])
                return _const_leaf(ctx, cb, symex(cb, {"l": 0, "p": []}), depth + 1)
    if e[0] == "cast":
        return _const_leaf(ctx, b, e[2], depth + 1)
    return None


# ------------------------------------------------------------------------------------ MANDATORY

def builder_info(ctx, builder_adt):
    """Mandatory fields (UninitializedFieldError) of a derive_builder `build()` and its validate body."""
    build = None
    for f in ctx.facts.fns:
        if strip_generics(f["path"]) == builder_adt + "::build" and f["kind"] == "fn":
            build = ctx.world.body(f["path"])
    if build is None:
        return None
    mand = set()
    for i, t in build.calls(r"UninitializedFieldError as std::convert::From<&'static str>>::from$|UninitializedFieldError::new$"):
        for o in t["ops"]:
            if o.get("k") == "const" and isinstance(o.get("val"), str):
                mand.add(o["val"])
    validate = None
    for i, t in build.calls(re.escape(builder_adt) + r"::validate$"):
        cb, _ = ctx.world.local_callee_body(t)
        validate = cb
    return {"build": build, "mandatory": mand, "validate": validate}


def validate_err_paths(ctx, vb, builder_adt):
    """For each path of validate() ending in Err: {field: 'none'|'some'} decided on the path."""
    out = []
    for path in vb.paths(0):
        if vb.term(path[-1])["k"] != "return":
            continue
        res = None
        for bb in path:
            for st in vb.blocks[bb]["stmts"]:
                if st["k"] == "assign" and st["lhs"]["l"] == 0 and st["rv"]["k"] == "agg":
                    res = st["rv"]["variant"]
        decided = {}
        last_none = None
        for a, s_ in zip(path, path[1:]):
            c = Cond(vb, a)
            if c.kind == "call" and c.callee == "is_none":
                truth = c.holds_on(s_)
                if truth is None:
                    continue
                fs = {x[2] for x in vb.atoms(c.args[0]) if x[0] == "field" and x[1] == builder_adt}
                for f in fs:
                    decided[f] = "none" if (truth ^ c.neg) else "some"
                    if decided[f] == "none":
                        last_none = f
            elif c.kind == "discr" and c.si.get("adt") == "std::option::Option":
                fs = {x[2] for x in vb.atoms(c.si["place"]) if x[0] == "field" and x[1] == builder_adt}
                vals = vb.edge_value(a, s_)
                isnone = (0 in vals) or ("otherwise" in vals and 0 not in [v for v, _ in c.si["targets"]] and 1 in [v for v, _ in c.si["targets"]])
                for f in fs:
                    decided.setdefault(f, "none" if isnone else "some")
                    if isnone:
                        last_none = f
        decided["__last_none"] = last_none
        out.append((res, decided, path))
    return out


MAND_TABLE = {
    # builder adt -> (mandatory via build(), fields whose absence may justify a validate() error)
    "codec::connect::ConnectTxBuilder": (set(), {"authentication_method"}),
    "codec::auth::AuthTxBuilder": (set(), {"authentication_method", "authentication_data"}),
    "codec::publish::PublishTxBuilder": ({"topic_name"}, {"packet_identifier"}),
    "codec::subscribe::SubscribeTxBuilder": ({"packet_identifier", "payload"}, {"payload"}),
    "codec::unsubscribe::UnsubscribeTxBuilder": ({"packet_identifier", "payload"}, {"payload"}),
    "codec::disconnect::DisconnectTxBuilder": (set(), set()),
    "codec::pingreq::PingreqTxBuilder": (set(), set()),
    "codec::ack::AckTxBuilder": ({"packet_identifier"}, set()),
    "codec::connack::ConnackRxBuilder": ({"session_present", "reason"}, set()),
    "codec::publish::PublishRxBuilder": ({"topic_name"}, {"packet_identifier"}),
    "codec::ack::AckRxBuilder": ({"packet_identifier"}, set()),
    "codec::suback::SubackRxBuilder": ({"packet_identifier"}, set()),
    "codec::unsuback::UnsubackRxBuilder": ({"packet_identifier"}, set()),
    "codec::disconnect::DisconnectRxBuilder": (set(), set()),
    "codec::auth::AuthRxBuilder": (set(), {"authentication_method"}),
    "codec::pingresp::PingrespRxBuilder": (set(), set()),
}


def _literal_mandatory(ctx, badt, want_build):
    """A received packet made without a builder (`Ok(SubackRx { packet_identifier, .. })`): a mandatory part is required
    by construction when its field is not optional and the value in the literal is a decoded one. None when the decoder
    does not make the packet this way."""
    adt = badt[:-len("Builder")]
    nm = badt.split("::")[-1]
    decs = rx_decoders(ctx)
    ent = decs.get(adt.split("::")[-1])
    a = ctx.facts.adts.get(adt)
    if ent is None or a is None or ent[0] != adt:
        return None
    body = ent[1]
    lits = [(i, st) for i in sorted(body.reach) for st in body.blocks[i]["stmts"]
            if st["k"] == "assign" and st["rv"]["k"] == "agg" and st["rv"].get("adt") == adt]
    if not lits:
        return None
    fields = [f["name"] for f in a["variants"][0]["fields"]]
    ftys = {f["name"]: f["ty"] for f in a["variants"][0]["fields"]}
    out = []
    for m in sorted(want_build):
        if m not in fields:
            out.append(Inst("MANDATORY", "%s:literal:%s" % (nm, m), False, body.site(lits[0][0]), "%s has no field %s" % (adt, m), "mandatory part"))
            continue
        bad = []
        if ftys[m].startswith("std::option::Option<"):
            bad.append("the field is optional")
        for i, st in lits:
            o = st["rv"]["ops"][fields.index(m)]
            ats = body.atoms(o) if o.get("k") != "const" else set()
            if not any(x[0] == "call" and re.search(r"core::utils::(Decoder|TryDecode)::", strip_generics(x[1])) for x in ats):
                bad.append("the value at %s is not a decoded one" % body.site(i))
        out.append(Inst("MANDATORY", "%s:literal:%s" % (nm, m), not bad, body.site(lits[0][0]),
                        "%s is made by a literal in its decoder; %s: %s" % (adt.split("::")[-1], m, "; ".join(bad) or "not optional, and decoded from the packet in every literal"),
                        "mandatory parts %s are required by construction" % sorted(want_build)))
    return out


@rule("MANDATORY", floor=20)
def mandatory(ctx):
    """A packet builder refuses exactly the requests / packets that lack a part the standard makes
    mandatory: the generated build() requires the mandatory fields only, and every Err path of a
    hand-written validate() is justified by the absence of a mandatory part."""
    out = []
    for badt, (want_build, want_val) in sorted(MAND_TABLE.items()):
        bi = builder_info(ctx, badt)
        nm = badt.split("::")[-1]
        if bi is None and nm.endswith("RxBuilder"):
            # the packet is an instantiation of a generic type (`SubackRx = ReasonListRx<SubackReason>`): that type's builder
            ent_ = rx_decoders(ctx).get(nm[:-len("Builder")])
            if ent_ is not None and ent_[0] + "Builder" != badt:
                bi = builder_info(ctx, ent_[0] + "Builder")
        if bi is None:
            lit = _literal_mandatory(ctx, badt, want_build) if (nm.endswith("RxBuilder") and not want_val) else None
            if lit is not None:
                out.extend(lit)
            elif want_build or want_val:
                out.append(Inst("MANDATORY", "%s:missing-builder" % nm, False, "src/codec", "no build() for %s" % badt, "builder"))
            continue
        ctx.note(bi["build"])
        got = bi["mandatory"]
        # SubscribeTx/UnsubscribeTx payload: either mandatory in build() or refused by validate()
        extra = got - want_build
        missing = want_build - got
        if missing and bi["validate"] is not None:
            errp = [{k: v for k, v in d.items() if k != "__last_none"} for r, d, p in validate_err_paths(ctx, bi["validate"], badt) if r == "Err"]
            for m in list(missing):
                if any(d.get(m) == "none" for d in errp):
                    missing.discard(m)
        out.append(Inst("MANDATORY", "%s:build" % nm, not extra and not missing, bi["build"].site(0),
                        "build() requires %s%s" % (sorted(got), "" if not (extra or missing) else "; unexpected %s, missing %s" % (sorted(extra), sorted(missing))),
                        "mandatory parts %s" % sorted(want_build)))
        if bi["validate"] is not None:
            vb = bi["validate"]
            ctx.note(vb)
            n = 0
            for res, decided, path in validate_err_paths(ctx, vb, badt):
                if res != "Err":
                    continue
                n += 1
                decided.pop("__last_none", None)
                if not vb.feasible(path):
                    continue
                nones = {f for f, v in decided.items() if v == "none"}
                just = nones & (want_val | want_build)
                ok = bool(just)
                # in whichever order the tests are written: a refusal is justified when a mandatory part is absent on the path
                key = "%s:validate:err-triggered-by-missing:%s" % (nm, ",".join(sorted(just)) if ok else "nothing-mandatory(absent:%s)" % (",".join(sorted(nones)) or "nothing"))
                if not any(o.key.endswith(key) for o in out):
                    out.append(Inst("MANDATORY", key, ok, vb.site(path[-1]),
                                    "validate() fails on a path where %s are absent and %s are present" % (sorted(nones), sorted(f for f, v in decided.items() if v == "some")),
                                    "refused only when a mandatory part is missing: %s" % sorted(want_val | want_build)))
            if n == 0 and want_val:
                out.append(Inst("MANDATORY", "%s:validate:no-error-path" % nm, False, vb.site(0), "validate() never fails", "must refuse a packet lacking %s" % sorted(want_val)))
        elif want_val - want_build:
            out.append(Inst("MANDATORY", "%s:validate:missing" % nm, False, bi["build"].site(0), "no validate() hook", "must refuse a packet lacking %s" % sorted(want_val)))
    return out


# ------------------------------------------------------------------------------------ SHORTFORM

@rule("SHORTFORM", floor=5)
def shortform(ctx):
    """For every tail element the standard lets a server omit (reason code and property length of the
    PUBACK family, DISCONNECT and AUTH), the decode of that element does not dominate every success
    exit of the decoder."""
    out = []
    decs = rx_decoders(ctx)
    for nm in ("AckRx", "DisconnectRx", "AuthRx"):
        if nm not in decs:
            raise AnchorLost("decoder %s" % nm)
        adt, body = decs[nm]
        succ = [i for i, t in body.calls(r"Builder::build$") if t["dest"]["l"] == 0]
        for i in sorted(body.reach):
            for st in body.blocks[i]["stmts"]:
                if st["k"] == "assign" and st["lhs"]["l"] == 0 and not st["lhs"]["p"] and st["rv"]["k"] == "agg" and st["rv"].get("variant") == "Ok":
                    succ.append(i)
        if not succ:
            raise AnchorLost("builder.build() result returned by %s::try_decode" % nm)
        tdc = [(i, t) for i, t in body.calls(r"core::utils::Decoder::try_decode$")]
        # classify the decode calls by decoded type
        reason_calls = [(i, t) for i, t in tdc if re.search(r"Reason(T)?$", (t["callee"].get("args") or ["?"])[-1])]
        vsi = [(i, t) for i, t in tdc if (t["callee"].get("args") or ["?"])[-1].endswith("VarSizeInt")]
        vsi.sort(key=lambda x: len(body.dominators(x[0])))
        plen_calls = vsi[1:2]     # the second variable integer on the path is the property length
        for what, calls in (("reason", reason_calls), ("property_len", plen_calls)):
            if not calls:
                out.append(Inst("SHORTFORM", "%s:%s:not-decoded" % (nm, what), False, body.site(0), "no decode of %s found" % what, "decoded when present"))
                continue
            i, t = calls[0]
            free = [s_ for s_ in succ if not body.dominates(i, s_)]
            out.append(Inst("SHORTFORM", "%s:%s" % (nm, what), bool(free), body.site(i),
                            "decode of %s %s" % (what, "is skipped on %d of %d success exits" % (len(free), len(succ)) if free else "dominates every success exit: the shortened form is rejected"),
                            "a packet ending before its %s is accepted (reason 0 / no properties)" % what))
    return out


@rule("FULLFORM", floor=4)
def fullform(ctx):
    """The packets that have no shortened form (CONNACK, PUBLISH, SUBACK, UNSUBACK) are decoded to their end on every
    success path: the decode of the property length (and with it the property section that follows) dominates every Ok
    exit of the decoder. An early `return builder.build()` -- whatever value it is taken on -- accepts a packet without
    having read what the standard puts there, and hands out defaults in its place."""
    out = []
    decs = rx_decoders(ctx)
    for nm in ("ConnackRx", "PublishRx", "SubackRx", "UnsubackRx"):
        if nm not in decs:
            raise AnchorLost("decoder %s" % nm)
        adt, body = decs[nm]
        succ = [i for i, t in body.calls(r"Builder::build$") if t["dest"]["l"] == 0]
        for i in sorted(body.reach):
            for st in body.blocks[i]["stmts"]:
                if st["k"] == "assign" and st["lhs"]["l"] == 0 and not st["lhs"]["p"] and st["rv"]["k"] == "agg" and st["rv"].get("variant") == "Ok":
                    succ.append(i)
        # a result built elsewhere and moved into the return place (`let r = builder.build(); r`)
        for i, t in body.calls(r"Builder::build$"):
            if t["dest"]["l"] != 0 and i not in succ:
                succ.append(i)
        if not succ:
            raise AnchorLost("success exit of %s::try_decode" % nm)
        tdc = [(i, t) for i, t in body.calls(r"core::utils::Decoder::try_decode$")]
        vsi = [(i, t) for i, t in tdc if (t["callee"].get("args") or ["?"])[-1].endswith("VarSizeInt")]
        vsi.sort(key=lambda x: len(body.dominators(x[0])))
        if len(vsi) < 2:
            out.append(Inst("FULLFORM", "%s:property-length" % nm, True, body.site(0), "NOT DECIDED: the property length of %s is not decoded by a Decoder::try_decode::<VarSizeInt> call this rule can read" % nm, "", {"undecided": True}))
            continue
        pi, pt = vsi[1]
        early = [s_ for s_ in succ if not body.dominates(pi, s_)]
        out.append(Inst("FULLFORM", "%s:property-length" % nm, not early, body.site(early[0]) if early else body.site(pi),
                        "the decode of the property length %s" % ("dominates all %d success exit(s)" % len(succ) if not early else "is skipped on the success exit(s) at %s" % sorted({body.site(x) for x in early})),
                        "%s has no shortened form: every accepted packet was read to its end" % nm))
    return out


# ------------------------------------------------------------------------------------ MULTI

@rule("MULTI", floor=9)
def multi(ctx):
    """A property the standard allows several times in a packet is held in a collection."""
    spec = ctx.spec("properties")
    out = []
    for path, adt in sorted(ctx.facts.adts.items()):
        nm = path.split("::")[-1]
        if not (path.startswith("codec::") and (nm.endswith("Rx") or nm.endswith("Tx"))) or adt["kind"] != "struct":
            continue
        for f in adt["variants"][0]["fields"]:
            t = short_ty(inner_type(f["ty"]))
            base = t[:-3] if t.endswith("Ref") else t
            many = base == "UserProperty" or (base == "SubscriptionIdentifier" and nm == "PublishRx")
            if base not in spec["ids"]:
                continue
            coll = f["ty"].startswith("std::vec::Vec<") or "UserProperties" in f["ty"] or "VecDeque" in f["ty"]
            if many:
                out.append(Inst("MULTI", "%s.%s" % (nm, f["name"]), coll, "%s:%d" % (adt["file"], adt["line"]), "%s may occur several times in %s; field type %s" % (base, nm, short_ty(f["ty"])),
                                "a collection (every occurrence is kept)"))
    return out


def decode_iter_nexts(body):
    """[(block, call terminator, item type)] for the `next()` calls that drive a loop over the items of a Decoder
    (`decoder.iter::<T>()`, whatever type that iterator has)."""
    out = []
    for i, t in body.calls(r"Iterator::next$"):
        st = (t["callee"].get("self_ty") or "") + " " + (t["callee"].get("resolved") or "")
        m = re.search(r"DecodeIter<([^ ]*)>", st)
        item = m.group(1) if m else None
        if item is None:
            for a in body.atoms(t["ops"][0]):
                if a[0] == "call" and re.search(r"core::utils::Decoder::iter$", strip_generics(a[1])):
                    item = "?"
            if item == "?":
                for j, tt in body.calls(r"core::utils::Decoder::iter$"):
                    if body.dominates(j, i):
                        args = [x for x in (tt["callee"].get("args") or []) if not x.startswith("'")]
                        if args:
                            item = args[-1]
        if item is not None:
            out.append((i, t, item))
    return out


@rule("RXHDR", floor=3)
def rxhdr(ctx):
    """Every decoder of a packet that can arrive while run() serves the connection (all but CONNACK; PUBLISH carries
    data in its flags) tests the whole first byte against the fixed header the standard prescribes: a packet whose
    reserved flag bits are not the prescribed ones is undecodable, not accepted."""
    spec = ctx.spec("packets")
    out = []
    for im in ctx.facts.impls:
        tr = im.get("trait")
        adt = im.get("self_adt") or ""
        nm = adt.split("::")[-1]
        if not tr or tr["path"] != "core::utils::TryDecode" or not adt.startswith("codec::") or not nm.endswith("Rx") or nm in ("ConnackRx", "PublishRx"):
            continue
        fn = [it for it in im["items"] if it["kind"] == "fn" and it["name"] == "try_decode"]
        if not fn:
            continue
        body = flat_decoder(ctx, ctx.world.body(fn[0]["def"]), adt)
        units = [body] + [ctx.world.body(p_) for p_ in ctx.facts.children.get(body.path, []) if ctx.facts.fn(p_) and ctx.facts.fn(p_)["kind"] == "closure"]
        found = []
        for u in units:
            for i in sorted(u.reach):
                cd = Cond(u, i)
                if cd.kind != "cmp" or cd.op not in ("Eq", "Ne"):
                    continue
                for x, y in ((cd.a, cd.b), (cd.b, cd.a)):
                    ey = symex(u, y)
                    name = ey[1].split("::")[-1] if ey[0] == "uneval" else None
                    val = u.fold(y)
                    if name not in ("FIXED_HDR", "PACKET_ID") and not (ey[0] == "const" and isinstance(val, int)):
                        continue
                    ex = symex(u, x)
                    while ex[0] == "cast":
                        ex = ex[2]
                    if ex[0] == "place":
                        shape = "whole byte"
                    elif ex[0] == "bin" and ex[1] == "Shr" and sym_fold(ex[3]) == 4:
                        shape = "type nibble only"
                    elif ex[0] == "bin" and ex[1] == "BitAnd":
                        shape = "masked byte"
                    else:
                        continue
                    lt = local_ty_(u, x)
                    if lt not in (None, "u8"):
                        continue
                    found.append((shape, name, val, u.site(i)))
        if not found:
            out.append(Inst("RXHDR", nm, True, body.site(0), "NOT DECIDED: the test of the first byte is written in a way this rule does not read", "whole byte = fixed header", {"undecided": True}))
            continue
        shape, name, val, site = found[0]
        key = nm.replace("Rx", "").upper()
        want = None
        if key in spec["types"]:
            want = (spec["types"][key] << 4) | spec["fixed_flags"].get(key, 0)
        ok = shape == "whole byte" and (name == "FIXED_HDR" or (want is not None and val == want)) and (val is None or want is None or val == want)
        out.append(Inst("RXHDR", nm, ok, site, "first byte tested as %s against %s%s" % (shape, name or "a constant", " = 0x%02x" % val if val is not None else ""),
                        "the whole byte equals the fixed header of the packet type (reserved flags included)%s" % (": 0x%02x" % want if want is not None else "")))
    return out


def local_ty_(body, op):
    if op.get("k") == "const":
        return op.get("ty")
    pl = op["pl"]
    if pl["p"]:
        last = [p for p in pl["p"] if isinstance(p, dict) and "ty" in p]
        return last[-1]["ty"] if last else None
    return body.locals[pl["l"]]["ty"]


@rule("DECODE-BE", floor=2)
def decode_be(ctx):
    """The fixed-width integer decoders (u16, u32) assemble the value big endian: whichever way it is written
    (explicit shifts of indexed bytes, a fold `acc << 8 | byte` over the first n bytes, from_be_bytes / get_uN), byte i
    of n lands at bit 8 * (n - 1 - i)."""
    from r_panic import _fn_value
    out = []
    for ty, n in (("u16", 2), ("u32", 4)):
        fns = [f for f in ctx.facts.fns if f["kind"] == "fn" and re.search(r"impl core::utils::TryDecode for %s>::try_decode$" % ty, f["path"])]
        if not fns:
            continue
        b = ctx.world.body(fns[0]["path"])
        ctx.note(b)
        verdicts = []
        for i in sorted(b.reach):
            for st in b.blocks[i]["stmts"]:
                if st["k"] == "assign" and st["lhs"]["l"] == 0 and not st["lhs"]["p"] and st["rv"]["k"] == "agg" and st["rv"].get("variant") == "Ok":
                    e = symex(b, st["rv"]["ops"][0])
                    terms = sym_or_terms_(e)
                    idx = []
                    for x, sh in terms or []:
                        leaves = [l for l in sym_leaves(x) if l[0] == "place"]
                        m = re.search(r"\[(\d+)\]$", leaves[0][1]) if len(leaves) == 1 else None
                        idx.append((int(m.group(1)), sh) if m else None)
                    if terms and all(x is not None for x in idx) and len(idx) >= 2:
                        want = sorted((k, 8 * (n - 1 - k)) for k in range(n))
                        verdicts.append((sorted(idx) == want, b.site(i), "explicit: byte/shift pairs %s" % sorted(idx)))
        for i, t in b.calls(r"Iterator::(reduce|fold)$"):
            fp = _fn_value(b, t["ops"][-1])
            cb = ctx.world.body(fp) if fp and ctx.facts.fn(fp) else None
            if cb is None:
                continue
            e = symex(cb, {"l": 0, "p": []})
            terms = sym_or_terms_(e)
            shape = sorted((l[4], sh) for x, sh in (terms or []) for l in sym_leaves(x) if l[0] == "place")
            acc, item = cb.fn["arg_count"] - 1, cb.fn["arg_count"]
            ok_cl = shape == [(acc, 8), (item, 0)]
            recv = b.atoms(t["ops"][0])
            takes = [a for a in recv if a[0] == "call" and a[1].endswith("Iterator::take")]
            rev = [a for a in recv if a[0] == "call" and re.search(r"Iterator::(rev|skip|step_by)$", a[1])]
            tk = None
            for j, tt in b.calls(r"Iterator::take$"):
                tk = b.fold(tt["ops"][1])
                if tk is None:
                    o = b.origin(tt["ops"][1], through_calls=False)
                    if o[0] == "call" and (callee_name(o[2]) or "").endswith("mem::size_of"):
                        tk = {"u8": 1, "u16": 2, "u32": 4, "u64": 8}.get((o[2]["callee"].get("args") or [None])[0])
            verdicts.append((ok_cl and bool(takes) and not rev and tk == n, b.site(i),
                             "fold: step %s over take(%s)%s" % ("acc << 8 | byte" if ok_cl else "is %s" % shape, tk, " with reordering adaptors" if rev else "")))
        for i, t in b.calls(r"(from_be_bytes|from_le_bytes|from_ne_bytes|Buf::get_u\d+(_le|_ne)?)$"):
            nm = (callee_name(t) or "").split("::")[-1]
            verdicts.append((nm in ("from_be_bytes", "get_%s" % ty), b.site(i), "library call %s" % nm))
        if not verdicts:
            # written in a way this rule does not read: recorded as not decided (no verdict either way)
            out.append(Inst("DECODE-BE", ty, True, b.site(0), "NOT DECIDED for this writing of the decoder (neither explicit shifts, a fold over take(n), nor a library call)",
                            "big endian", {"undecided": True}))
            continue
        bad = [v for v in verdicts if not v[0]]
        out.append(Inst("DECODE-BE", ty, not bad, (bad or verdicts)[0][1], "; ".join(v[2] for v in verdicts), "big endian: byte i of %d at bit %s" % (n, "8*(%d-i)" % (n - 1))))
    return out


def sym_or_terms_(e):
    from mir import sym_or_terms
    try:
        return sym_or_terms(e)
    except Exception:
        return None


def _item_err_targets(body, nxt):
    """Successor blocks taken when the item yielded by the DecodeIter `next()` at nxt failed to decode."""
    ids = _ids_from(body, nxt)
    changed = True
    while changed:
        changed = False
        for l, ds in body.defs.items():
            if l in ids:
                continue
            for d in ds:
                if d[0] == "stmt" and d[3]["rv"]["k"] in ("use", "ref", "discr"):
                    o = d[3]["rv"].get("op") or {"pl": d[3]["rv"].get("pl")}
                    if o.get("k") != "const" and o.get("pl") and o["pl"]["l"] in ids:
                        ids.add(l)
                        changed = True
    loop = {x for x in body.reachable_from(nxt) if nxt in body.reachable_from(x)} | {nxt}
    out = set()
    for d in sorted(body.reachable_from(nxt)):
        si = body.switch_info(d)
        if not si or si["kind"] != "discr" or si.get("adt") not in ("std::result::Result", "std::ops::ControlFlow") or si["place"]["l"] not in ids:
            continue
        tt = body.term(d)
        for v, tgt in tt["targets"]:
            if si["variants"].get(v) in ("Err", "Break"):
                out.add(tgt)
        listed = {si["variants"].get(v) for v, _ in tt["targets"]}
        if tt["otherwise"] is not None and not ({"Err", "Break"} & listed) and body.term(tt["otherwise"])["k"] != "unreachable":
            out.add(tt["otherwise"])
    return out, loop


@rule("REPEATABLE", floor=3)
def repeatable(ctx):
    """A property the standard allows several times in one packet (User Property everywhere, Subscription Identifier
    in an inbound PUBLISH) is never a reason to refuse the packet: inside the property loop no error exit is
    reachable on a path on which the item is that property (whatever was seen before it)."""
    out = []
    for nm, (adt, body) in sorted(rx_decoders(ctx).items()):
        nxts = [(i, t) for i, t, item_ty in decode_iter_nexts(body) if item_ty == "core::properties::Property"]
        if not nxts:
            continue
        rep = {"UserProperty"} | ({"SubscriptionIdentifier"} if nm == "PublishRx" else set())
        padt = ctx.facts.adt(PROPERTY)
        allv = {v["name"] for v in padt["variants"]}
        for nxt, t in nxts:
            item_err, loop = _item_err_targets(body, nxt)
            # leaving the loop (the iterator is exhausted) is not part of the loop body
            dest_l = t["dest"]["l"]
            for d in sorted(body.reachable_from(nxt)):
                si = body.switch_info(d)
                if si and si["kind"] == "discr" and si.get("adt") == "std::option::Option" and si["place"]["l"] == dest_l and not [p for p in si["place"]["p"] if p != "deref"]:
                    tt = body.term(d)
                    for v, tgt in tt["targets"]:
                        if si["variants"].get(v) == "None":
                            item_err.add(tgt)
                    if tt["otherwise"] is not None and all(si["variants"].get(v) == "Some" for v, _ in tt["targets"]):
                        item_err.add(tt["otherwise"])
            region = body.reachable_from(nxt, avoid=list(item_err))
            errs = sorted(x for x in region if x != nxt and (is_err_block(body, x) or any(
                st["k"] == "assign" and st["rv"]["k"] == "agg" and st["rv"].get("variant") == "Err" and "Result" in (st["rv"].get("adt") or "") for st in body.blocks[x]["stmts"])))
            refused = {}
            npaths = 0
            try:
                for path in body.paths(nxt, stop=errs + [nxt], cap=20000):
                    if path[-1] not in errs or any(x in item_err for x in path):
                        continue
                    if not body.feasible(path):
                        continue
                    npaths += 1
                    allowed = set(allv)
                    for a_, s_ in zip(path, path[1:]):
                        si = body.switch_info(a_)
                        if si and si["kind"] == "discr" and si.get("adt") == PROPERTY:
                            vals = body.edge_value(a_, s_)
                            names = {si["variants"].get(x) for x in vals if x != "otherwise"}
                            if "otherwise" in vals:
                                names |= allv - {si["variants"].get(x) for x, _ in si["targets"]}
                            allowed &= names
                    for v in allowed & rep:
                        refused.setdefault(v, body.site(path[-1]))
            except OverflowError:
                refused = {"?": "too many paths"}
            for v in sorted(rep):
                out.append(Inst("REPEATABLE", "%s:%s" % (nm, v), v not in refused and "?" not in refused, refused.get(v) or refused.get("?") or body.site(nxt),
                                "%s in the %s property loop: %s (%d error paths examined)" % (v, nm, "an error exit is reachable while the item is this property" if v in refused or "?" in refused else "no error exit on any path of this property", npaths),
                                "may occur several times: never refused"))
    return out


@rule("UPROPS", floor=2)
def uprops(ctx):
    """`UserProperties` (the collection user properties are read from) keeps the order of the wire: it is filled by
    appending only, and nothing in its module reorders, removes or replaces its elements."""
    out = []
    REORDER = re.compile(r"(Vec::<[^>]*>::|Vec::|VecDeque::<[^>]*>::|VecDeque::)(insert|remove|swap_remove|retain|retain_mut|dedup\w*|truncate|drain|clear|pop|append|splice|split_off|push_front)$|"
                         r"slice::<impl \[T\]>::(sort\w*|reverse|swap|rotate_\w+|select_nth\w*|fill\w*|copy_within)$|(Iterator::rev|itertools)")
    bad, pushes, n = [], [], 0
    adt = "core::collections::UserProperties"
    for f in ctx.facts.fns:
        if "::test" in f["path"] or f["kind"] not in ("fn", "closure"):
            continue
        own = strip_generics(f.get("impl_self") or "") == adt or f["path"].startswith("<" + adt + " as ") or (f.get("parent") or "").startswith("<" + adt) or \
            strip_generics(f["path"]).startswith(adt + "::")
        if not own:
            continue
        b = ctx.world.body(f["path"])
        ctx.note(b)
        n += 1
        for i in sorted(b.reach):
            t = b.term(i)
            if t["k"] != "call":
                continue
            nm = callee_name(t) or ""
            res = callee_resolved(t) or nm
            if REORDER.search(strip_generics(nm)) or REORDER.search(nm) or REORDER.search(res):
                # reading adaptors (`iter().rev()`) on accessors do not change the stored order, but they change what the
                # accessor yields: all of them are listed
                bad.append("%s at %s" % (short_ty(nm), b.site(i)))
            if re.search(r"Vec::<[^>]*>::push$|Vec::push$", nm):
                pushes.append(b.site(i))
    if n == 0:
        raise AnchorLost("methods of core::collections::UserProperties")
    out.append(Inst("UPROPS", "append-only", not bad, pushes[0] if pushes else "src/core/collections.rs", "%d functions of UserProperties; calls that reorder / remove / replace elements or reverse an iteration: %s" % (n, bad or "none"),
                    "user properties are exposed in the order they were received"))
    out.append(Inst("UPROPS", "push-appends", len(pushes) >= 1, pushes[0] if pushes else "src/core/collections.rs", "%d Vec::push call(s)" % len(pushes), "push() appends at the end"))
    # every pair that is handed over is stored (a repeated pair is a repeated property), and the accessors look at every
    # stored pair (no adaptor that stops early or skips)
    SKIP = re.compile(r"Iterator::(skip_while|take_while|take|skip|step_by|last|nth|find|find_map|position|dedup\w*|map_while|scan|peekable|fuse)$|slice::<impl \[T\]>::(first|last|get|split_\w+|chunks\w*|windows|binary_search\w*)$")
    cond_push, skipping = [], []
    for f in ctx.facts.fns:
        if "::test" in f["path"] or f["kind"] not in ("fn", "closure"):
            continue
        own = strip_generics(f.get("impl_self") or "") == adt or f["path"].startswith("<" + adt + " as ") or (f.get("parent") or "").startswith("<" + adt) or \
            strip_generics(f["path"]).startswith(adt + "::")
        if not own:
            continue
        b = ctx.world.body(f["path"])
        for i in sorted(b.reach):
            t = b.term(i)
            if t["k"] != "call":
                continue
            nm = callee_name(t) or ""
            if re.search(r"Vec::<[^>]*>::push$|Vec::push$", nm):
                deps = [d for (d, s_) in b.control_dep_closure(i) if b.term(d)["k"] == "switch" and b.term(d)["op"].get("k") != "const"]
                if deps:
                    cond_push.append("%s (decided at %s)" % (b.site(i), sorted({b.site(d) for d in deps})))
            if SKIP.search(nm) or SKIP.search(strip_generics(nm)):
                skipping.append("%s at %s" % (short_ty(nm), b.site(i)))
    out.append(Inst("UPROPS", "push-unconditional", not cond_push, pushes[0] if pushes else "src/core/collections.rs", "conditional appends: %s" % (cond_push or "none"),
                    "every received pair is kept, duplicates included"))
    out.append(Inst("UPROPS", "accessors-see-all", not skipping, "src/core/collections.rs", "adaptors in the accessors that stop early or skip elements: %s" % (skipping or "none"),
                    "get / keys / values / iter yield every matching pair, wherever it stands"))
    return out


def _feasibly_reaches(body, src, dst):
    """dst is reachable from src along a path that the path-local knowledge (enum literals just built, constant flags,
    repeated tests of one value) does not rule out."""
    if dst not in body.reachable_from(src):
        return False
    try:
        for p_ in body.paths(src, stop=[dst], cap=3000):
            if p_[-1] == dst and body.feasible(p_):
                return True
    except OverflowError:
        return True
    return False


@rule("DECODE-LOOP", floor=3)
def decode_loop(ctx):
    """A loop over `DecodeIter<T>` (properties, reason codes) ends on the first item that fails to decode: the iterator
    does not advance past an undecodable item (Decoder::try_decode advances only after a success), so going round
    again on the Err edge re-reads the same bytes for ever."""
    out = []
    units = []
    for f in ctx.facts.fns:
        if f["kind"] != "fn" or not (f["file"].startswith("src/codec/") or f["file"].startswith("src/core/")) or "::test" in f["path"]:
            continue
        units.append(f["path"])
    decs = {adt: body for nm, (adt, body) in rx_decoders(ctx).items()}
    seen = set()
    for path in units:
        f = ctx.facts.fn(path)
        body = None
        for adt, b_ in decs.items():
            if b_.path == path:
                body = b_
        if body is None:
            body = ctx.world.body(path)
        for i, t, item_ty in decode_iter_nexts(body):
            st = "DecodeIter<%s>" % item_ty
            if (body.path, i) in seen:
                continue
            seen.add((body.path, i))
            ctx.note(body)
            ids = _ids_from(body, i)
            # locals holding (parts of) the item: payload moves `x = (item as Some).0`
            changed = True
            while changed:
                changed = False
                for l, ds in body.defs.items():
                    if l in ids:
                        continue
                    for d in ds:
                        if d[0] == "stmt" and d[3]["rv"]["k"] in ("use", "ref", "discr"):
                            o = d[3]["rv"].get("op") or {"pl": d[3]["rv"].get("pl")}
                            if o.get("k") != "const" and o.get("pl") and o["pl"]["l"] in ids:
                                ids.add(l)
                                changed = True
            loop = {x for x in body.reachable_from(i) if i in body.reachable_from(x)}
            back = []
            n_sw = 0
            for d in sorted(loop):
                si = body.switch_info(d)
                if not si or si["kind"] != "discr" or si.get("adt") not in ("std::result::Result", "std::ops::ControlFlow") or si["place"]["l"] not in ids:
                    continue
                # only the item itself (Option<Result<..>> payload), not values computed from the decoded property
                pr = [p for p in si["place"]["p"] if p != "deref"]
                tt = body.term(d)
                n_sw += 1
                for v, tgt in tt["targets"]:
                    if si["variants"].get(v) in ("Err", "Break") and _feasibly_reaches(body, tgt, i):
                        back.append(body.site(tgt))
                listed = {si["variants"].get(v) for v, _ in tt["targets"]}
                if tt["otherwise"] is not None and not ({"Err", "Break"} & listed) and body.term(tt["otherwise"])["k"] != "unreachable" and _feasibly_reaches(body, tt["otherwise"], i):
                    back.append(body.site(tt["otherwise"]))
            m_ = re.match(r"<([\w:]+)", body.path)
            nm = (m_.group(1).split("::")[-1] + "::" + body.fn["name"]) if m_ else short_ty(strip_generics(body.path))
            out.append(Inst("DECODE-LOOP", "%s:loop@%d" % (nm, len([o for o in out if o.key.startswith("DECODE-LOOP:%s:" % nm)])), not back and n_sw > 0, body.site(i),
                            "loop over %s: %s" % (re.search(r"DecodeIter<[^ ]*", st).group(0) if re.search(r"DecodeIter<[^ ]*", st) else "DecodeIter",
                                                  "an item that fails to decode leaves the loop (%d test(s) of the item)" % n_sw if not back and n_sw else
                                                  ("the failing edge leads back to next(): %s" % sorted(set(back)) if back else "no test of the item's Result found")),
                            "the first undecodable item ends the decoder with an error"))
    return out


@rule("ACCUMULATE", floor=1)
def accumulate(ctx):
    """A builder setter that appends to a collection held in an optional field (`user_property`, the reason codes of
    SUBACK / UNSUBACK, ..) keeps what is already there: the field is (re)initialised only on the edge on which it is
    still None. `self.f.insert(new()).push(v)` or an unconditional `self.f = Some(new())` keeps only the last item."""
    out = []
    PUSH = re.compile(r"(Vec::<[^>]*>::push|Vec::push|UserProperties::push|VecDeque::<[^>]*>::push_back|VecDeque::push_back)$")
    OVER = re.compile(r"(Option::<[^>]*>::(insert|replace|take)|Option::(insert|replace|take)|mem::(replace|take|swap))$")
    for f in ctx.facts.fns:
        if f["kind"] != "fn" or not f["file"].startswith("src/codec/") or not re.search(r"Builder$", strip_generics(f.get("impl_self") or "")) or f["arg_count"] != 2:
            continue
        b = ctx.world.body(f["path"])
        badt = strip_generics(f["impl_self"])
        pushes = []
        for i, t in b.calls(r"push(_back)?$"):
            if not PUSH.search(strip_generics(callee_name(t) or "")) and not PUSH.search(callee_name(t) or ""):
                continue
            flds = {a[2] for a in b.atoms(t["ops"][0]) if a[0] == "field" and strip_generics(a[1] or "") == badt}
            pushes.append((i, flds))
        fields = set().union(*[fl for _, fl in pushes]) if pushes else set()
        if not fields:
            continue
        ctx.note(b)
        for fld in sorted(fields):
            def is_field(pl, fld=fld):
                fs = place_fields(pl)
                return bool(fs) and strip_generics(fs[-1][0] or "") == badt and fs[-1][1] == fld
            writes = []
            for i in sorted(b.reach):
                for st in b.blocks[i]["stmts"]:
                    if st["k"] == "assign" and is_field(st["lhs"]):
                        writes.append((i, "assignment"))
                t = b.term(i)
                if t["k"] == "call" and OVER.search(callee_name(t) or "") and t["ops"]:
                    if any(a[0] == "field" and strip_generics(a[1] or "") == badt and a[2] == fld for a in b.atoms(t["ops"][0])):
                        writes.append((i, (callee_name(t) or "").split("::")[-1]))
            bad = []
            for i, how in writes:
                guarded = False
                for (d, s_) in dominating_edges(b, i):
                    si = b.switch_info(d)
                    c = Cond(b, d)
                    if si and si["kind"] == "discr" and si.get("adt") == "std::option::Option":
                        if any(a[0] == "field" and a[2] == fld for a in b.atoms({"k": "copy", "pl": {"l": si["place"]["l"], "p": []}})) or is_field(si["place"]):
                            vals = b.edge_value(d, s_)
                            names = {si["variants"].get(v) for v in vals if v != "otherwise"}
                            listed = {si["variants"].get(v) for v, _ in si["targets"]}
                            if names == {"None"} or ("otherwise" in vals and listed == {"Some"}):
                                guarded = True
                    elif c.kind == "call" and c.callee == "is_none" and any(a[0] == "field" and a[2] == fld for x in c.args for a in b.atoms(x)):
                        h = c.holds_on(s_)
                        if h is not None and (h ^ bool(c.neg)):
                            guarded = True
                if not guarded:
                    bad.append("%s at %s" % (how, b.site(i)))
            nm = "%s::%s" % (badt.split("::")[-1], f["name"])
            out.append(Inst("ACCUMULATE", "%s:%s" % (nm, fld), not bad, b.site(0),
                            "appends to %s; the field is overwritten %s" % (fld, "only while it is still None (%d write(s))" % len(writes) if not bad else "regardless of its content: %s" % bad),
                            "every occurrence is kept (repeated user properties, one reason code per topic filter)"))
    return out


# ------------------------------------------------------------------------------------ ACCESSOR / SETTER

ACCESSOR_ALIAS = {"user_properties": "user_property", "payload": "payload"}


@rule("ACCESSOR", floor=50)
def accessor(ctx):
    """A public accessor `x()` of a response / error / message type derives its result only from the
    packet field `x` (alias: user_properties -> user_property)."""
    out = []
    for f in ctx.facts.fns:
        if f["kind"] != "fn" or f["vis"] != "pub" or not f["file"].startswith("src/client/") or f["from_expansion"]:
            continue
        if not (f["file"].endswith("rsp.rs") or f["file"].endswith("error.rs")):
            continue
        st = f.get("impl_self") or ""
        if not st or f.get("impl_trait"):
            continue
        sig = f.get("sig_in", [])
        if len(sig) != 1 or not sig[0].startswith("&"):
            continue
        name = f["name"]
        b = ctx.world.body(f["path"])
        ctx.note(b)
        at = b.atoms({"l": 0, "p": []})
        fields = {a[2] for a in at if a[0] == "field" and a[1].startswith("codec::") and isinstance(a[2], str)}
        # values reached through closures (e.g. `.map(|v| ..)`) only transform the field
        want = ACCESSOR_ALIAS.get(name, name)
        ty = short_ty(re.sub(r"<.*>", "", st))
        if name in ("stream",):
            continue
        ok = fields == {want}
        out.append(Inst("ACCESSOR", "%s::%s" % (ty, name), ok, b.site(0), "%s::%s() reads packet field(s) %s" % (ty, name, sorted(fields) or "none"), "exactly the field `%s`" % want))
    return out


@rule("SETTER", floor=50)
def setter(ctx):
    """Every public consuming setter of an *Opts type returns Self and forwards its argument to the
    builder setter of the same name."""
    out = []
    alias = {"subscription": "payload", "topic_filter": "payload", "reason": "reason"}
    for f in ctx.facts.fns:
        if f["kind"] != "fn" or f["vis"] != "pub" or not f["file"].endswith("client/opts.rs") or f["from_expansion"]:
            continue
        st = f.get("impl_self") or ""
        if not re.search(r"Opts(<.*>)?$", st) or f.get("impl_trait"):
            continue
        sig = f.get("sig_in", [])
        if not sig or sig[0] != st or len(sig) < 2:
            continue
        name = f["name"]
        b = ctx.world.body(f["path"])
        try:
            b = ctx.flat(b)         # a private combinator the setters go through (`self.with(|b| b.reason(val))`) is looked at in place
        except AnchorLost:
            pass
        ctx.note(b)
        ty = short_ty(re.sub(r"<.*>", "", st))
        ret_self = f.get("sig_out") == st
        out.append(Inst("SETTER", "%s::%s:returns-self" % (ty, name), ret_self, b.site(0), "%s::%s returns %s" % (ty, name, short_ty(f.get("sig_out") or "?")),
                        "Self (options can be chained and combined)"))
        want = alias.get(name, name)
        fw = []
        for i, t in b.calls():
            nm = callee_name(t) or ""
            if re.search(r"Builder::\w+$", nm):
                fw.append((i, t, nm.split("::")[-1]))
        field_writes = []
        for i in sorted(b.reach):
            for s_ in b.blocks[i]["stmts"]:
                if s_["k"] == "assign":
                    pf = place_fields(s_["lhs"])
                    if pf and pf[-1][0] and pf[-1][0].endswith("Opts") is False and isinstance(pf[-1][1], str) and s_["lhs"]["l"] == 1:
                        field_writes.append(pf[-1][1])
                    elif pf and s_["lhs"]["l"] == 1 and isinstance(pf[-1][1], str):
                        field_writes.append(pf[-1][1])
        names = {n for _, _, n in fw} | set(field_writes)
        okn = want in names
        from_param = False
        for i, t, n in fw:
            if n == want:
                for o in t["ops"][1:]:
                    if any(a[0] == "param" and a[1] >= 2 for a in b.atoms(o)):
                        from_param = True
        if want in field_writes:
            from_param = True
        out.append(Inst("SETTER", "%s::%s:forwards" % (ty, name), okn and from_param, b.site(0), "forwards to %s (argument from the parameter=%s)" % (sorted(names) or "nothing", from_param),
                        "builder field `%s` set from the caller's value" % want))
    # the setters of the sending builders themselves (generated, or written by hand for the repeatable properties): a setter
    # named after a field of its builder touches that field and no other (a will property pushed into the connection's
    # list is on the wire, well formed, in the wrong section)
    for f in ctx.facts.fns:
        st = re.sub(r"<.*$", "", f.get("impl_self") or "")
        if f["kind"] != "fn" or f.get("impl_trait") or not re.match(r"codec::\w+(::\w+)*::\w+TxBuilder$", st):
            continue
        ba = ctx.facts.adt(st)
        if not ba or ba["kind"] != "struct":
            continue
        fields = {x["name"] for x in ba["variants"][0]["fields"]}
        if f["name"] not in fields:
            continue
        b = ctx.world.body(f["path"])
        try:
            b = ctx.flat(b)
        except AnchorLost:
            pass
        touched = set()
        for i in sorted(b.reach):
            for s_ in b.blocks[i]["stmts"]:
                if s_["k"] != "assign":
                    continue
                for pl in ([s_["lhs"]] + ([s_["rv"]["pl"]] if s_["rv"]["k"] in ("ref", "addr") and (s_["rv"]["k"] == "addr" or s_["rv"].get("mut")) else [])):
                    for (a_, n_) in place_fields(pl) or []:
                        if a_ and re.sub(r"<.*$", "", a_) == st and isinstance(n_, str):
                            touched.add(n_)
        if not touched:
            continue            # (nothing of the builder is written in a way this instance reads)
        out.append(Inst("SETTER", "%s::%s:own-field-only" % (st.split("::")[-1], f["name"]), touched == {f["name"]}, b.site(0),
                        "writes / mutably borrows the builder field(s) %s" % sorted(touched), "only `%s`" % f["name"]))
    return out


@rule("PUBID", floor=1)
def pubid(ctx):
    """The PUBLISH decoder sets a packet identifier exactly when QoS > 0."""
    decs = rx_decoders(ctx)
    adt, b = decs["PublishRx"]
    out = []
    calls = list(b.calls(r"PublishRxBuilder::packet_identifier$"))
    if not calls:
        raise AnchorLost("PublishRxBuilder::packet_identifier in PublishRx::try_decode")
    ALL = {"AtMostOnce", "AtLeastOnce", "ExactlyOnce"}
    for i, t in calls:
        # the QoS values for which a path reaches the setter: every path from the entry is followed and the tests of
        # the decoded QoS on it (== / != against a variant, or a match on it) narrow the set
        reached = set()
        npaths = 0
        try:
            paths = list(b.paths(0, stop=[i], cap=5000))
        except OverflowError:
            paths = []
        for path in paths:
            if path[-1] != i or not b.feasible(path):
                continue
            npaths += 1
            allowed = set(ALL)
            for a_, s_ in zip(path, path[1:]):
                c = Cond(b, a_)
                if c.kind == "call" and c.callee == "eq":
                    at = set()
                    for x in c.args:
                        at |= b.atoms(x)
                    v = {y[2] for y in at if y[0] == "variant" and (y[1] or "").endswith("QoS")}
                    truth = c.holds_on(s_)
                    if len(v) == 1 and truth is not None:
                        if truth ^ bool(c.neg):
                            allowed &= v
                        else:
                            allowed -= v
                elif c.kind == "discr" and (c.si.get("adt") or "").endswith("QoS"):
                    vals = b.edge_value(a_, s_)
                    names = {c.si["variants"].get(x) for x in vals if x != "otherwise"}
                    if "otherwise" in vals:
                        listed = {c.si["variants"].get(x) for x, _ in c.si["targets"]}
                        names |= (ALL - listed)
                    allowed &= names
            reached |= allowed
        ok = reached == {"AtLeastOnce", "ExactlyOnce"} and npaths > 0
        out.append(Inst("PUBID", "packet-identifier-iff-qos>0", ok, b.site(i), "packet identifier decoded for QoS in %s (%d paths to the setter)" % (sorted(reached), npaths), "QoS 1 and QoS 2 only"))
    return out


SHORT_SETS = {
    # decoder -> element -> set of remaining lengths for which the element is legitimately absent
    "AckRx": {"reason": {2}, "property_len": {2, 3}},
    "DisconnectRx": {"reason": {0}, "property_len": {0, 1}},
    "AuthRx": {"reason": {0}, "property_len": {0}},
}
WIDTHS = {"u8": 1, "bool": 1, "u16": 2, "core::base_types::NonZero<u16>": 2, "u32": 4}


def _width_of(ty):
    if ty in WIDTHS:
        return WIDTHS[ty]
    if ty.endswith("Reason") or ty == "ReasonT":
        return 1
    return None


@rule("SHORTFORM-EXACT", floor=6)
def shortform_exact(ctx):
    """The reason code / property length of PUBACK-family, DISCONNECT and AUTH packets is treated as
    absent for exactly the remaining lengths the standard allows (PUBACK family: reason absent iff
    remaining length 2, property length absent iff 2 or 3; DISCONNECT: 0 / 0-1; AUTH: 0)."""
    out = []
    decs = rx_decoders(ctx)
    for nm, table in sorted(SHORT_SETS.items()):
        adt, body = decs[nm]
        succ = [i for i, t in body.calls(r"Builder::build$") if t["dest"]["l"] == 0]
        for i in sorted(body.reach):
            for st in body.blocks[i]["stmts"]:
                if st["k"] == "assign" and st["lhs"]["l"] == 0 and not st["lhs"]["p"] and st["rv"]["k"] == "agg" and st["rv"].get("variant") == "Ok":
                    succ.append(i)
        tdc = [(i, t, (t["callee"].get("args") or ["?"])[-1]) for i, t in body.calls(r"core::utils::Decoder::try_decode$")]
        vsi = sorted([(i, t) for i, t, ty in tdc if ty.endswith("VarSizeInt")], key=lambda x: len(body.dominators(x[0])))
        if not vsi:
            raise AnchorLost("remaining-length decode in %s" % nm)
        rem_bb, rem_t = vsi[0]
        rem_local = rem_t["dest"]["l"]
        rem_ids = _ids_from(body, rem_bb)
        elem_calls = {"reason": [(i, t) for i, t, ty in tdc if re.search(r"Reason(T)?$", ty)], "property_len": vsi[1:2]}
        for what, want in sorted(table.items()):
            calls = elem_calls[what]
            if not calls:
                continue
            ci = calls[0][0]
            skips = [s_ for s_ in succ if not body.dominates(ci, s_)]
            got = set()
            descr = []
            # every way of reaching a success exit without decoding the element: the conditions met on that path (not
            # only those that dominate the exit: the exits may have been merged into one `builder.build()`) bound the
            # remaining length
            all_succ = [s_ for s_ in succ if s_ in body.reachable_from(rem_bb)]
            for s_ in all_succ:
                try:
                    paths = [p_ for p_ in body.paths(rem_bb, stop=[s_, ci] + [x for x in all_succ if x != s_], cap=4000) if p_[-1] == s_ and ci not in p_]
                except OverflowError:
                    paths = None
                if paths is None:
                    got.add("?")
                    descr.append("%s: too many paths" % body.site(s_))
                    continue
                for p_ in paths:
                    if not body.feasible(p_):
                        continue
                    lo, hi = 0, 10 ** 9
                    consumed = 0
                    onp = set(p_)
                    for i, t, ty in tdc:
                        if i != rem_bb and i in onp:
                            w = _width_of(ty)
                            if w:
                                consumed += w
                    lo = max(lo, consumed)
                    for d, e in zip(p_, p_[1:]):
                        if len(body.succ(d)) < 2:
                            continue
                        c = Cond(body, d)
                        rng = _rem_constraint(body, c, e, rem_ids, tdc, rem_bb, d)
                        if rng:
                            lo, hi = max(lo, rng[0]), min(hi, rng[1])
                    vals = set(range(lo, min(hi, 64) + 1)) if hi >= lo else set()
                    if hi > 64 and hi >= lo:
                        vals.add("...")
                    got |= vals
                    d_ = "%s: remaining length in [%d, %s]" % (body.site(s_), lo, hi if hi < 10 ** 9 else "inf")
                    if d_ not in descr:
                        descr.append(d_)
            out.append(Inst("SHORTFORM-EXACT", "%s:%s" % (nm, what), got == want, body.site(ci),
                            "%s is treated as absent for remaining length %s (%s)" % (what, sorted(got, key=str), "; ".join(descr) or "never"),
                            "absent exactly for remaining length %s" % sorted(want)))
    return out


def _ids_from(body, call_bb):
    """Locals holding the value produced by the call at call_bb (through `?` and moves)."""
    t = body.term(call_bb)
    ids = {t["dest"]["l"]}
    changed = True
    while changed:
        changed = False
        for l, ds in body.defs.items():
            if l in ids:
                continue
            for d in ds:
                src = None
                if d[0] == "stmt" and d[3]["rv"]["k"] in ("use", "ref", "cast"):
                    o = d[3]["rv"].get("op") or {"pl": d[3]["rv"].get("pl")}
                    if o.get("k") != "const" and o.get("pl"):
                        src = o["pl"]["l"]
                elif d[0] == "call" and re.search(r"(Try::branch|VarSizeInt::value|From::from|Into::into|Clone::clone)$", callee_name(d[2]) or "") and d[2]["ops"] and d[2]["ops"][0].get("k") != "const":
                    src = d[2]["ops"][0]["pl"]["l"]
                if src in ids:
                    ids.add(l)
                    changed = True
    return ids


_CONST_CMP = {}


def _const_comparison(body, t, k):
    """If the comparison call `t` resolves to a hand-written impl of the crate whose result, for the constant right-hand
    side k, does not depend on the left-hand side: that result (bool); else None. Decided by running the impl's MIR
    abstractly with the constant (absint)."""
    if t is None or not isinstance(k, int):
        return None
    path = (t.get("callee") or {}).get("resolved") or ""
    f = body.facts.fn(path)
    if f is None or not f["file"].startswith("src/") or f.get("ret_ty") != "bool" or f["arg_count"] != 2:
        return None
    key = (path, k)
    if key not in _CONST_CMP:
        import absint
        from mir import Body as _B
        ib = _B(f, body.facts)
        res = None
        try:
            ex = absint.Explorer(ib, max_bytes=0, max_states=400)
            cell = 10 ** 6
            byref = "&" in f["locals"][2]["ty"]
            args = {cell: absint.iv(k, k)} if k >= 0 else {}
            if k >= 0:
                args[2] = ("ref", {"l": cell, "p": []}) if byref else absint.iv(k, k)
                ex.run(args)
                vals = {r[1] for r in ex.returns}
                if len(vals) == 1 and not ex.unbounded:
                    v = vals.pop()
                    if isinstance(v, tuple) and v[0] == "bool" and v[1] is not None:
                        res = bool(v[1])
        except Exception:
            res = None
        _CONST_CMP[key] = res
    return _CONST_CMP[key]


def _rem_constraint(body, c, succ, rem_ids, tdc, rem_bb, cond_bb):
    """Interval of the remaining length implied by taking edge cond->succ, or None."""
    def is_rem(o):
        return o.get("k") != "const" and (o["pl"]["l"] in rem_ids or body.base_local(o) in rem_ids)

    def is_remaining_call(o):
        if o.get("k") == "const":
            return False
        og = body.origin(o, through_calls=False)
        return og[0] == "call" and (callee_name(og[2]) or "").endswith("Decoder::remaining")
    truth = c.holds_on(succ)
    if truth is None:
        return None
    op = None
    k = None
    offset = 0
    if c.kind == "cmp":
        for x, y, o in ((c.a, c.b, c.op), (c.b, c.a, {"Lt": "Gt", "Gt": "Lt", "Le": "Ge", "Ge": "Le", "Eq": "Eq", "Ne": "Ne"}[c.op])):
            kk = body.fold(y)
            if kk is None:
                continue
            if is_rem(x):
                op, k = o, kk
            elif is_remaining_call(x):
                op, k = o, kk
                # decoder.remaining() == k  <=>  remaining_len == k + bytes of the variable part consumed so far
                for i, t, ty in tdc:
                    if i != rem_bb and body.dominates(rem_bb, i) and body.dominates(i, cond_bb):
                        offset += _width_of(ty) or 0
    elif c.kind == "call" and c.callee == "eq" and len(c.args) == 2:
        for x, y in ((c.args[0], c.args[1]), (c.args[1], c.args[0])):
            kk = body.fold(y)
            if kk is None:
                o2 = body.origin(y, through_calls=False)
                if o2[0] == "const":
                    kk = body.fold(o2[1])
                elif o2[0] == "place":
                    kk = None
            if kk is not None and is_rem(x):
                op, k = ("Ne" if c.neg else "Eq"), kk
                # a hand-written comparison of the crate is evaluated, not assumed: `VarSizeInt == 0` through an impl
                # that answers `false` for every non-positive right-hand side never holds
                fixed = _const_comparison(body, getattr(c, "call_term", None), kk)
                if fixed is not None:
                    holds = fixed ^ bool(c.neg)         # value of the tested boolean, whatever the left-hand side is
                    if bool(truth) != holds:
                        return (1, 0)                   # this edge is never taken
                    return None
    if op is None:
        return None
    k = k + offset
    if not truth:
        op = {"Lt": "Ge", "Ge": "Lt", "Gt": "Le", "Le": "Gt", "Eq": "Ne", "Ne": "Eq"}[op]
    return {"Eq": (k, k), "Lt": (0, k - 1), "Le": (0, k), "Gt": (k + 1, 10 ** 9), "Ge": (k, 10 ** 9)}.get(op)


def _result_locals(body, adt):
    """The user locals of a decoder that the literal of the decoded packet (`XRx { a, b, .. }`) is made of (through plain
    moves); empty when the packet is made by a builder."""
    out = set()
    for i in sorted(body.reach):
        for st in body.blocks[i]["stmts"]:
            if st["k"] == "assign" and st["rv"]["k"] == "agg" and st["rv"].get("adt") == adt:
                for o in st["rv"]["ops"]:
                    seen = set()
                    work = [o]
                    while work:
                        x = work.pop()
                        if x.get("k") not in ("move", "copy") or x["pl"]["p"]:
                            continue
                        l = x["pl"]["l"]
                        if l in seen:
                            continue
                        seen.add(l)
                        out.add(l)
                        for j in sorted(body.reach):
                            for st2 in body.blocks[j]["stmts"]:
                                if st2["k"] == "assign" and st2["lhs"]["l"] == l and not st2["lhs"]["p"] and st2["rv"]["k"] == "use":
                                    work.append(st2["rv"]["op"])
    return out


@rule("LEGAL-ARM", floor=30)
def legal_arm(ctx):
    """Inside a decoder's property loop, the arm of every legal property stores the value with its builder
    setter on every path and has no error exit: acceptance does not depend on the value, on the order of
    the properties or on which other properties were seen (validation happens once, after the loop)."""
    out = []
    for nm, (adt, body) in sorted(rx_decoders(ctx).items()):
        pa = property_arms(body)
        if pa is None:
            continue
        sw, arms, otherwise, others = pa
        allentries = list(arms.values()) + ([otherwise] if otherwise is not None else [])
        for v, entry in sorted(arms.items()):
            if _region_rejects(body, entry, sw, allentries):
                continue        # illegal property: rejected
            reg = {x for x in body.reachable_from(entry, avoid=[o for o in allentries if o != entry] + [sw]) if body.dominates(entry, x)}
            setters = [i for i in reg if body.term(i)["k"] == "call" and re.search(r"Builder::\w+$", callee_name(body.term(i)) or "") and not (callee_name(body.term(i)) or "").endswith("::build")]
            # a decoder without a builder: the packet is put together from locals (`reason_string = Some(val)`,
            # `user_property.push(val)`, then `Ok(SubackRx { reason_string, user_property, .. })`): a store is a write
            # to one of the locals the result literal is made of
            rl = _result_locals(body, adt)
            if rl:
                for i in reg:
                    if any(st["k"] == "assign" and st["lhs"]["l"] in rl for st in body.blocks[i]["stmts"]):
                        setters.append(i)
                    t_ = body.term(i)
                    if t_["k"] == "call" and t_["ops"] and i not in setters:
                        o0 = t_["ops"][0]
                        if o0.get("k") in ("move", "copy") and not o0["pl"]["p"]:
                            ds_ = body.whole_defs(o0["pl"]["l"])
                            if len(ds_) == 1 and ds_[0][0] == "stmt" and ds_[0][3]["rv"]["k"] == "ref" and ds_[0][3]["rv"].get("mut") \
                                    and ds_[0][3]["rv"]["pl"]["l"] in rl:
                                setters.append(i)
            errs = [x for x in reg if is_err_block(body, x)]
            branches = [x for x in reg if len(body.succ(x)) > 1 and x != entry and body.term(x)["k"] == "switch" and body.term(x)["op"].get("k") != "const"]
            # every path through the arm passes a setter: the first setter block dominates the arm's exits, i.e. no branch before it
            early = [x for x in branches if not any(body.dominates(s_, x) for s_ in setters)]
            ok = len(setters) >= 1 and not errs and not early
            out.append(Inst("LEGAL-ARM", "%s:%s" % (nm, v), ok, body.site(entry),
                            "arm %s: %d setter call(s), error exits: %s, value/state dependent branches before the store: %s" % (v, len(setters), [body.site(x) for x in errs] or "none", [body.site(x) for x in early] or "none"),
                            "the property is stored unconditionally; no early rejection inside the loop"))
    return out


# ------------------------------------------------------------------------------------ UTF8-BYTES

VALID_NONASCII = set(range(0x80, 0xC0)) | set(range(0xC2, 0xF5))     # bytes that occur in well-formed multi-byte UTF-8


def byte_predicate_set(ctx, path):
    """{b in 0..=255 : pred(b)} for a closure / function taking one byte (u8 or &u8) and returning bool, by running its
    MIR on each of the 256 values (no loops, no calls expected); None if some value does not evaluate to a constant."""
    import absint
    f = ctx.facts.fn(path)
    if f is None:
        return None
    arg = f["arg_count"]            # closures: local 1 is the environment, the byte is the last parameter
    ty = f["locals"][arg]["ty"].replace("&", "").replace("mut ", "").strip() if arg >= 1 else ""
    if not re.fullmatch(r"('\w+ )?u8", ty) or f.get("ret_ty") != "bool":
        return None
    body = ctx.world.body(path)
    byref = "&" in f["locals"][arg]["ty"]
    out = set()
    for v in range(256):
        ex = absint.Explorer(body, max_bytes=0, max_states=400)
        cell = 10 ** 6
        args = {cell: absint.iv(v, v)}
        x = ("ref", {"l": cell, "p": []}) if byref else absint.iv(v, v)
        if f["locals"][arg]["ty"].count("&") == 2:
            args[cell + 1] = x
            x = ("ref", {"l": cell + 1, "p": []})
        args[arg] = x
        ex.run(args)
        vals = {r[1] for r in ex.returns}
        if len(vals) != 1 or ex.unbounded:
            return None
        r = vals.pop()
        if not (isinstance(r, tuple) and r[0] == "bool" and r[1] is not None):
            return None
        if r[1]:
            out.add(v)
    return out


@rule("UTF8-BYTES", floor=2)
def utf8_bytes(ctx):
    """The UTF-8 string decoders reject no string because of the value of a single non-ASCII *byte*: a byte-level
    test (`bytes.iter().any(|b| ..)`, `all`, `position`, `find`) whose rejecting set contains a byte that occurs in
    well-formed multi-byte UTF-8 (0x80..=0xBF, 0xC2..=0xF4) refuses well-formed strings (control characters U+0080..
    U+009F are two-byte sequences; their second byte is shared with ordinary characters)."""
    from r_panic import _fn_value
    out = []
    n_units = 0
    for im in ctx.facts.impls:
        tr = im.get("trait")
        adt = im.get("self_adt") or ""
        if not tr or tr["path"] != "core::utils::TryDecode" or not re.match(r"core::base_types::UTF8String\w*$", adt):
            continue
        fn = [it for it in im["items"] if it["kind"] == "fn" and it["name"] == "try_decode"]
        if not fn:
            continue
        n_units += 1
        b = ctx.flat(ctx.world.body(fn[0]["def"]))
        ctx.note(b)
        nm = adt.split("::")[-1]
        found = 0
        for i, t in b.calls(r"(Iterator::(any|all|position|rposition|find)|slice::<impl \[T\]>::contains)$"):
            meth = (callee_name(t) or "").split("::")[-1]
            if meth == "contains":
                k = b.fold(t["ops"][1]) if len(t["ops"]) > 1 else None
                if k is None:
                    o = b.origin(t["ops"][1], through_calls=False)
                    if o[0] == "rv" and o[2]["rv"]["k"] == "ref":
                        k = b.fold({"k": "copy", "pl": o[2]["rv"]["pl"]})
                S = {k} if isinstance(k, int) else None
            else:
                fp = _fn_value(b, t["ops"][1]) if len(t["ops"]) > 1 else None
                S = byte_predicate_set(ctx, fp) if fp else None
            if S is None:
                continue
            found += 1
            # which outcome of the test leads to an error return
            sw = t["t"]
            dst = t["dest"]
            err_true = err_false = False
            for x in sorted(b.reach):
                # an error is made here (returned directly, or by the inlined helper whose result the caller passes on with `?`)
                if not (is_err_block(b, x) or any(st["k"] == "assign" and st["rv"]["k"] == "agg" and st["rv"].get("variant") == "Err" and "Result" in (st["rv"].get("adt") or "")
                                                 for st in b.blocks[x]["stmts"])):
                    continue
                for (d, s_) in dominating_edges(b, x):
                    c = Cond(b, d)
                    tt = b.term(d)
                    if tt["k"] != "switch":
                        continue
                    o = b.origin(tt["op"], through_calls=False) if tt["op"].get("k") != "const" else ("const",)
                    si = b.switch_info(d)
                    src_ok = (o[0] == "call" and o[1] == i)
                    if si and si["kind"] == "discr" and si.get("place") is not None:
                        o2 = b.origin({"k": "copy", "pl": {"l": si["place"]["l"], "p": []}}, through_calls=False)
                        src_ok = src_ok or (o2[0] == "call" and o2[1] == i)
                    if not src_ok:
                        continue
                    if si and si["kind"] == "discr":
                        vals = b.edge_value(d, s_)
                        names = {si["variants"].get(v) for v in vals if v != "otherwise"}
                        if "Some" in names:
                            err_true = True
                        elif "None" in names or "otherwise" in vals:
                            err_false = True
                    else:
                        h = c.holds_on(s_)
                        if h is True:
                            err_true = True
                        elif h is False:
                            err_false = True
            rej = None
            if meth in ("any", "position", "rposition", "find", "contains") and err_true and not err_false:
                rej = S
            elif meth == "all" and err_false and not err_true:
                rej = set(range(256)) - S
            if rej is None:
                continue
            bad = sorted(rej & VALID_NONASCII)
            out.append(Inst("UTF8-BYTES", "%s:byte-test#%d" % (nm, found), not bad, b.site(i),
                            "the string is refused when a byte is in %s%s" % (_ranges(rej), "; of these %s occur in well-formed multi-byte UTF-8" % _ranges(set(bad)) if bad else ""),
                            "no well-formed UTF-8 string is refused (multi-byte characters use 0x80..=0xBF and 0xC2..=0xF4)"))
        fu = [i for i, t in b.calls(r"str::(converts::)?from_utf8$")]
        out.append(Inst("UTF8-BYTES", "%s:validated-by-from_utf8" % nm, bool(fu), b.site(fu[0] if fu else 0),
                        "%d std from_utf8 validation(s) in the decoder" % len(fu), "well-formedness is decided by the standard library's UTF-8 validation"))
    if n_units == 0:
        raise AnchorLost("TryDecode for core::base_types::UTF8String*")
    return out


def _ranges(s):
    xs = sorted(s)
    out, i = [], 0
    while i < len(xs):
        j = i
        while j + 1 < len(xs) and xs[j + 1] == xs[j] + 1:
            j += 1
        out.append("0x%02X" % xs[i] if i == j else "0x%02X..=0x%02X" % (xs[i], xs[j]))
        i = j + 1
    return "{" + ", ".join(out) + "}"


# ------------------------------------------------------------------------------------ PROPLEN-GUARD

@rule("PROPLEN-GUARD", floor=5)
def proplen_guard(ctx):
    """A decoder refuses a packet for its Property Length exactly when the properties would run past what is left of the
    packet: the test that leads to InvalidPropertyLength is `property_len > remaining` (the two values themselves: no
    constant offset that assumes a one-byte length field, no equality that also refuses a packet with a payload)."""
    out = []
    for nm, (adt, body) in sorted(rx_decoders(ctx).items()):
        n = 0
        for i in sorted(body.reach):
            for st in body.blocks[i]["stmts"]:
                if st["k"] != "assign" or st["rv"]["k"] != "agg" or not (st["rv"].get("adt") or "").endswith("::InvalidPropertyLength"):
                    continue
                n += 1
                verdict, fact = False, "no comparison of the property length dominates the refusal"
                for (d, s_) in reversed(dominating_edges(body, i)):
                    c = Cond(body, d)
                    if c.kind != "cmp" or c.holds_on(s_) is None:
                        continue
                    def is_plen(x):
                        return x is not None and x.get("k") != "const" and any(a[0] == "call" and a[1].endswith("Decoder::try_decode") for a in body.atoms(x)) and \
                            any(a[0] == "targ" and str(a[1]).endswith("VarSizeInt") for a in body.atoms(x))
                    nn = c.cmp_norm(is_plen)
                    if not nn:
                        continue
                    op = nn[0] if c.holds_on(s_) else {"Lt": "Ge", "Ge": "Lt", "Gt": "Le", "Le": "Gt", "Eq": "Ne", "Ne": "Eq"}[nn[0]]
                    other = nn[1]
                    oat = body.atoms(other) if other.get("k") != "const" else set()
                    is_rem = any(a[0] == "call" and re.search(r"Decoder::remaining$|Bytes::len$|Buf::remaining$", a[1]) for a in oat)
                    arith = _has_arith(body, other) or _has_arith(body, c.a if other is c.b else c.b)
                    verdict = op == "Gt" and is_rem and not arith
                    fact = "refused on the edge property_len %s %s%s" % (op, "remaining()" if is_rem else "something that is not the number of bytes left", " with arithmetic on an operand" if arith else "")
                    break
                out.append(Inst("PROPLEN-GUARD", "%s#%d" % (nm, n), verdict, "%s:%d" % (body.fn["file"], st["line"]), "%s: %s" % (nm, fact), "property_len > remaining()"))
        if n == 0:
            out.append(Inst("PROPLEN-GUARD", "%s:none" % nm, True, body.site(0), "NOT DECIDED: %s builds no InvalidPropertyLength error in its own body" % nm, "", {"undecided": True}))
    return out


def _has_arith(body, x, depth=0):
    """The operand is computed with +, -, *, shifts from other values (not a plain read / call result)."""
    if x is None or x.get("k") == "const" or depth > 6:
        return False
    o = body.origin(x, through_calls=False)
    if o[0] == "rv":
        rv = o[2]["rv"]
        if rv["k"] == "bin" and rv["op"] in ("Add", "Sub", "Mul", "Div", "Rem", "Shl", "Shr"):
            return True
        if rv["k"] == "cast":
            return _has_arith(body, rv["op"], depth + 1)
    if o[0] == "call":
        nm = callee_name(o[2]) or ""
        if re.search(r"(VarSizeInt::value|From::from|Into::into|Deref::deref)$", nm) and o[2]["ops"]:
            return _has_arith(body, o[2]["ops"][0], depth + 1)
    return False


# ------------------------------------------------------------------------------------ CHUNK

CUT_CALLS = re.compile(r"(bytes::Bytes::split_to|bytes::Buf::copy_to_bytes|bytes::Bytes::slice|bytes::Bytes::split_off|bytes::Bytes::copy_from_slice)$")


@rule("CHUNK", floor=4)
def chunk(ctx):
    """The length-prefixed primitives (UTF-8 string, binary data, string pair) keep exactly the bytes the prefix delimits:
    every component of the decoded value is the result of one cut of the input by the decoded length, moved into the
    value as it is (not trimmed, not normalised, not re-built from a lossy conversion -- `Decoder::try_decode` advances by
    the byte_len() of what was decoded, so a value that differs from the bytes it came from derails the decoder), and for
    the string types that very cut is what `str::from_utf8` validates, with the failure propagated."""
    out = []
    decs = {}
    for im in ctx.facts.impls:
        tr = im.get("trait")
        if tr and tr["path"] == "core::utils::TryDecode" and (im.get("self_adt") or "") in ("core::base_types::UTF8String", "core::base_types::Binary", "core::base_types::UTF8StringPair"):
            fn = [it for it in im["items"] if it["kind"] == "fn" and it["name"] == "try_decode"]
            if fn:
                decs[im["self_adt"].split("::")[-1]] = (im["self_adt"], ctx.flat(ctx.world.body(fn[0]["def"])))
    for nm, (adt, body) in sorted(decs.items()):
        lits = [(i, st) for i in sorted(body.reach) for st in body.blocks[i]["stmts"] if st["k"] == "assign" and st["rv"]["k"] == "agg" and st["rv"].get("adt") == adt]
        if not lits:
            out.append(Inst("CHUNK", "%s:stored" % nm, True, body.site(0), "NOT DECIDED: %s is not built by a literal in its decoder" % nm, "", {"undecided": True}))
            continue
        validations = [(i, t) for i, t in body.calls(r"(core::str::from_utf8|std::str::from_utf8|core::str::converts::from_utf8|str::from_utf8)$")]
        for li, st in lits:
            for k, o in enumerate(st["rv"]["ops"]):
                org = body.origin(o, through_calls=False) if o.get("k") != "const" else ("const",)
                if org[0] != "call":
                    # behind a helper's `Ok(chunk)` and a `?`: the call(s) the value can come from
                    srcs = _value_sources(body, o)
                    if srcs and len(srcs) == 1 and next(iter(srcs))[0] == "call":
                        bb_ = next(iter(srcs))[1]
                        org = ("call", bb_, body.term(bb_))
                cut = org[0] == "call" and bool(CUT_CALLS.search(callee_name(org[2]) or ""))
                by_len = False
                if cut and len(org[2]["ops"]) >= 2:
                    lat = body.atoms(org[2]["ops"][1])
                    by_len = any(a[0] in ("call", "closure", "targ") and "u16" in str(a[1]) for a in lat) or any(a[0] == "call" and re.search(r"(Buf::get_u16|u16 as core::utils::TryDecode>::try_decode|TryDecode for u16>::try_decode|u16::from_be_bytes|Decoder::try_decode)$", a[1]) for a in lat)
                ok = cut and by_len and (callee_name(org[2]) or "").endswith(("split_to", "copy_to_bytes"))
                out.append(Inst("CHUNK", "%s:%d:stored-is-the-cut" % (nm, k), ok, body.site(li),
                                "component %d of %s is %s" % (k, nm, ("the %s(len) of the input, len read from the prefix" % (callee_name(org[2]) or "").split("::")[-1]) if ok else
                                                             ("produced by %s" % ((callee_name(org[2]) or "?").split("::")[-1] if org[0] == "call" else org[0]))),
                                "the decoded value is the delimited bytes themselves"))
                if nm != "Binary":
                    val_ok = False
                    if cut:
                        for vi, vt in validations:
                            vo = vt["ops"][0] if vt["ops"] else None
                            if vo is None or vo.get("k") == "const":
                                continue
                            # the validated slice derives from the same cut
                            vs_ = _value_sources(body, vo)
                            same = (vs_ == {("call", org[1])}) or (any(a[0] == "call" and a[1] == (callee_resolved(org[2]) or callee_name(org[2])) for a in body.atoms(vo)) and
                                                                   _same_cut(body, vo, org[1]))
                            if same and body.dominates(vi, li):
                                val_ok = True
                    out.append(Inst("CHUNK", "%s:%d:validated" % (nm, k), val_ok, body.site(li),
                                    "component %d of %s %s" % (k, nm, "is validated as UTF-8 before the value is built" if val_ok else "is NOT the operand of a str::from_utf8 check that dominates the construction"),
                                    "ill-formed UTF-8 is refused, for every string component"))
    if not decs:
        raise AnchorLost("TryDecode impls of UTF8String / Binary / UTF8StringPair")
    return out


def _value_sources(body, op, depth=0, seen=None):
    """The definitions a value can come from, following moves, references and the payloads of enum literals (`Ok(x)?`):
    a set of ('call', bb) / ('other', text), or None when the trace is lost."""
    seen = seen if seen is not None else set()
    if op is None or depth > 30:
        return None
    if op.get("k") == "const":
        return {("other", "const")}
    pl = op["pl"] if "pl" in op else op
    key = (pl["l"], repr(pl["p"]))
    if key in seen:
        return set()
    seen.add(key)
    proj = [p for p in pl["p"] if p != "deref"]
    if len(proj) >= 2 and isinstance(proj[0], dict) and "dc" in proj[0] and isinstance(proj[1], dict) and "f" in proj[1]:
        lit = body._variant_literal_ops(pl["l"], proj)
        if lit is not None and lit[0]:
            out = set()
            for o in lit[0]:
                if o.get("k") == "const":
                    out.add(("other", "const"))
                    continue
                r = _value_sources(body, {"k": "copy", "pl": {"l": o["pl"]["l"], "p": list(o["pl"]["p"]) + list(lit[1])}}, depth + 1, seen)
                if r is None:
                    return None
                out |= r
            return out
    if proj:
        return None
    ds = body.whole_defs(pl["l"])
    if not ds:
        return None
    out = set()
    for d in ds:
        if d[0] == "call":
            if re.search(r"(Deref::deref|AsRef::as_ref|Borrow::borrow|Bytes::as_ref|Vec::<[^>]*>::as_slice|Buf::chunk)$", callee_name(d[2]) or "") and d[2]["ops"]:
                r = _value_sources(body, d[2]["ops"][0], depth + 1, seen)       # a view of the same bytes
                if r is None:
                    return None
                out |= r
            else:
                out.add(("call", d[1]))
        elif d[0] == "stmt":
            rv = d[3]["rv"]
            if rv["k"] in ("use", "cast"):
                r = _value_sources(body, rv["op"], depth + 1, seen)
            elif rv["k"] == "ref":
                r = _value_sources(body, {"k": "copy", "pl": rv["pl"]}, depth + 1, seen)
            else:
                r = {("other", rv["k"])}
            if r is None:
                return None
            out |= r
        else:
            return None
    return out


def _same_cut(body, op, cut_bb):
    """The operand (a reference to / deref of the chunk) derives from the call in block cut_bb."""
    seen = set()
    work = [op]
    for _ in range(40):
        if not work:
            break
        x = work.pop()
        if x is None or x.get("k") == "const":
            continue
        l = x["pl"]["l"]
        if l in seen:
            continue
        seen.add(l)
        for d in body.whole_defs(l):
            if d[0] == "call":
                if d[1] == cut_bb:
                    return True
                work.extend(o for o in d[2]["ops"][:1])
            elif d[0] == "stmt":
                rv = d[3]["rv"]
                if rv["k"] in ("use", "cast"):
                    work.append(rv["op"])
                elif rv["k"] == "ref":
                    work.append({"k": "copy", "pl": rv["pl"]})
    return False


# ------------------------------------------------------------------------------------ DECODE-ERR-CAUSE

@rule("DECODE-ERR-CAUSE", floor=5)
def decode_err_cause(ctx):
    """What makes a decoder of an inbound packet refuse the packet by itself (an error it builds in its own body, as
    opposed to the failure of an item decode it propagates or of the builder's final validation) is the framing -- the
    fixed header, the lengths, a property that is not allowed -- never the *content* of a field it has just decoded or the
    state of the builder half way through: a topic name may be empty (the alias stands for it), and which properties are
    present is only known after the property loop."""
    out = []
    for nm, (adt, body) in sorted(rx_decoders(ctx).items()):
        bad = []
        n = 0
        for i in sorted(body.reach):
            for st in body.blocks[i]["stmts"]:
                if st["k"] != "assign" or st["rv"]["k"] != "agg" or not re.match(r"core::error::\w+$", st["rv"].get("adt") or ""):
                    continue
                a_ = ctx.facts.adt(st["rv"]["adt"])
                if a_ is None or a_["kind"] != "struct":
                    continue
                n += 1
                for (d, s_) in body.control_dep_closure(i):
                    t = body.term(d)
                    if t["k"] != "switch" or t["op"].get("k") == "const":
                        continue
                    si = body.switch_info(d)
                    ats = body.atoms({"k": "copy", "pl": si["place"]}) if si and si["kind"] == "discr" else body.atoms(t["op"])
                    content = sorted({"%s.%s" % (short_ty(a[1]), a[2]) for a in ats if a[0] == "field" and (str(a[1]).endswith("RxBuilder") or re.search(r"base_types::(UTF8String|Binary|UTF8StringPair)$", str(a[1])))})
                    calls = sorted({a[1].split("::")[-1] for a in ats if a[0] == "call" and re.search(r"(str|Bytes|UTF8String|Binary|Vec<[^>]*>|Vec)::(is_empty|len|starts_with|ends_with|contains|eq|ne)$", strip_generics(a[1]))
                                    and not re.search(r"Decoder::|bytes::Buf::remaining", a[1])})
                    if content:
                        bad.append("%s at line %d hangs on %s%s (tested at %s)" % (st["rv"]["adt"].split("::")[-1], st["line"], content, " via %s" % calls if calls else "", body.site(d)))
        out.append(Inst("DECODE-ERR-CAUSE", nm, not bad, body.site(0), "%s: %d error(s) built in the decoder's own body; depending on decoded content / builder state: %s" % (nm, n, bad[:3] or "none"),
                        "a decoder refuses for framing reasons only; content is judged once, by the builder's validation, after everything was read"))
    return out
