"""Normalised view of branch conditions (comparisons are normalised to operator/operands so that
`a <= b`, `b >= a`, `!(a > b)` are the same fact)."""
from mir import callee_name, callee_resolved

SWAP = {"Lt": "Gt", "Gt": "Lt", "Le": "Ge", "Ge": "Le", "Eq": "Eq", "Ne": "Ne"}
NEG = {"Lt": "Ge", "Ge": "Lt", "Gt": "Le", "Le": "Gt", "Eq": "Ne", "Ne": "Eq"}

BOOL_CALLS = {
    "std::option::Option::is_none": ("is_none", False),
    "std::option::Option::is_some": ("is_none", True),
    "std::result::Result::is_err": ("is_err", False),
    "std::result::Result::is_ok": ("is_err", True),
    "std::cmp::PartialEq::eq": ("eq", False),
    "std::cmp::PartialEq::ne": ("eq", True),
}

ORD_CALLS = {"std::cmp::PartialOrd::gt": "Gt", "std::cmp::PartialOrd::lt": "Lt", "std::cmp::PartialOrd::ge": "Ge", "std::cmp::PartialOrd::le": "Le"}


class Cond:
    """A boolean test: kind in {'cmp','call','discr','other'}; `neg` tells whether the recorded
    normal form is the negation of the tested value."""

    def __init__(self, body, bb):
        self.body = body
        self.bb = bb
        t = body.term(bb)
        self.kind = "other"
        self.op = None
        self.a = self.b = None          # operands (MIR operand dicts)
        self.neg = False
        self.callee = None
        self.true_succ = self.false_succ = None
        self.si = body.switch_info(bb)
        if t["k"] != "switch" or self.si is None:
            return
        if self.si["kind"] == "discr":
            self.kind = "discr"
            return
        if t["ty"] != "bool":
            # `match n { 0 => .., _ => .. }`: a switch on an integer with one listed value is the comparison `n == v`
            if self.si["kind"] == "int" and len(t["targets"]) == 1 and t["otherwise"] is not None and isinstance(t["targets"][0][0], int):
                self.kind = "cmp"
                self.op = "Eq"
                self.a = t["op"]
                self.b = {"k": "const", "ty": t["ty"], "val": t["targets"][0][0], "uneval": None, "fn": None}
                self.true_succ = t["targets"][0][1]
                self.false_succ = t["otherwise"]
            return
        for v, s in t["targets"]:
            if v == 0:
                self.false_succ = s
        self.true_succ = t["otherwise"]
        if self.false_succ is None:
            # switch [1 -> x, otherwise y]
            for v, s in t["targets"]:
                if v == 1:
                    self.true_succ = s
                    self.false_succ = t["otherwise"]
        self._analyse(t["op"], False, 0)

    def _analyse(self, op, neg, depth):
        body = self.body
        if depth > 6:
            return
        o = body.origin_at(op, self.bb, through_calls=False) if depth == 0 and body.fn.get("flat") else body.origin(op, through_calls=False)
        if o[0] == "rv":
            rv = o[2]["rv"]
            if rv["k"] == "bin" and rv["op"] in SWAP:
                self.kind = "cmp"
                self.op = NEG[rv["op"]] if neg else rv["op"]
                self.a, self.b = rv["a"], rv["b"]
                return
            if rv["k"] == "un" and rv["op"] == "Not":
                return self._analyse(rv["a"], not neg, depth + 1)
        if o[0] == "call":
            nm = callee_name(o[2])
            if nm in ORD_CALLS and len(o[2]["ops"]) == 2:
                self.kind = "cmp"
                self.op = NEG[ORD_CALLS[nm]] if neg else ORD_CALLS[nm]
                self.a, self.b = o[2]["ops"]
                self.via_call = callee_resolved(o[2])
                return
            if nm in BOOL_CALLS:
                name, n2 = BOOL_CALLS[nm]
                self.kind = "call"
                self.callee = name
                self.neg = neg ^ n2
                self.args = o[2]["ops"]
                self.call_term = o[2]
                return
            self.kind = "call"
            self.callee = callee_resolved(o[2]) or nm
            self.neg = neg
            self.args = o[2]["ops"]
            self.call_term = o[2]

    # ---------------------------------------------------------------- queries
    def cmp_norm(self, is_a):
        """For a 'cmp' condition return (op, other_operand) with the operand satisfying predicate
        is_a(operand) on the left, or None."""
        if self.kind != "cmp":
            return None
        if is_a(self.a):
            return self.op, self.b
        if is_a(self.b):
            return SWAP[self.op], self.a
        return None

    def holds_on(self, succ):
        """True if the tested boolean is true on the edge to succ, False if false, None if unknown."""
        if succ == self.true_succ and succ != self.false_succ:
            return True
        if succ == self.false_succ and succ != self.true_succ:
            return False
        return None


def int_switch_facts(body, d, s_, is_a):
    """Facts about an integer operand satisfying is_a on the edge d->s_ of a `match n { v1 => .., v2 => .., _ => .. }`
    with several listed values: [("Eq", v)] on a value edge, [("Ne", v1), ("Ne", v2) ..] on the otherwise edge."""
    t = body.term(d)
    if t["k"] != "switch" or t.get("ty") == "bool" or len(t["targets"]) < 2:
        return []
    si = body.switch_info(d)
    if si is None or si["kind"] != "int" or not is_a(t["op"]):
        return []
    vals = [v for v, x in t["targets"] if x == s_ and isinstance(v, int)]
    if s_ == t["otherwise"] and not vals:
        return [("Ne", v) for v, _ in t["targets"] if isinstance(v, int)]
    if len(vals) == 1 and s_ != t["otherwise"]:
        return [("Eq", vals[0])]
    return []


def dominating_edges(body, bb):
    """[(branch_bb, succ)] such that every path to bb goes through edge branch_bb->succ."""
    out = []
    doms = body.dominators(bb)
    domset = set(doms)
    for d in doms:
        ss = body.succ(d)
        if len(ss) < 2:
            continue
        for s_ in ss:
            if s_ in domset and s_ != d and body.pred(s_) == [d]:
                out.append((d, s_))
            elif body.dominates(s_, bb) and all(p == d for p in body.pred(s_)):
                out.append((d, s_))
    return sorted(set(out))


def field_pred(body, field, adt_suffix=None):
    def p(op):
        for a in body.atoms(op):
            if a[0] == "field" and a[2] == field and (adt_suffix is None or (a[1] or "").endswith(adt_suffix)):
                return True
        return False
    return p
