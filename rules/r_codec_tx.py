"""Codec rules, transmit side (C01): LM length mirror, ORDER, BITS, IDS, LEGAL-TX, SETTER, VARINT-THRESH."""
import re
from engine import rule, Inst, AnchorLost
from ctx import short_ty
from cond import Cond, dominating_edges
from codecinfo import tx_types, emissions, len_fields, own_len_fields, field_types, property_newtypes, inner_type, self_fields, _trait_method_of as codecinfo_trait_method
from mir import Body, callee_name, callee_resolved, strip_generics, symex, sym_fold, sym_leaves, sym_or_terms, _symex_rv, place_fields

TX_SPEC_NAME = {"ConnectTx": "CONNECT", "AuthTx": "AUTH", "PublishTx": "PUBLISH", "SubscribeTx": "SUBSCRIBE", "UnsubscribeTx": "UNSUBSCRIBE",
                "DisconnectTx": "DISCONNECT", "PingreqTx": "PINGREQ", "AckTx": "ACK"}
LEN_HELPERS = ("remaining_len", "property_len", "will_property_len", "payload_len")


def _size_of_targs(body):
    """Types T for which the helper's return value counts `size_of::<T>()`."""
    at = body.atoms({"l": 0, "p": []})
    out = set()
    for i in body.reach:
        t = body.term(i)
        if t["k"] == "call" and re.search(r"mem::size_of$", callee_name(t) or ""):
            out.add((t["callee"].get("args") or ["?"])[0])
    return out


def _counted_types(ctx, info, helper, seen=None):
    seen = seen or set()
    b = info["helpers"].get(helper)
    if b is None or helper in seen:
        return set()
    seen.add(helper)
    out = _size_of_targs(b)
    for h in own_len_fields(ctx, info, helper)[1]:
        out |= _counted_types(ctx, info, h, seen)
    return out


@rule("LM", floor=60)
def lm(ctx):
    """Length mirror, per *Tx encoder: LM-1 every field emitted directly is counted in remaining_len;
    LM-2 every counted field is emitted; LM-3 every length helper whose width is counted is itself
    emitted and dominates the fields it covers; LM-4 a property field is emitted in the section whose
    length helper counts it; LM-6 the types measured with byte_len equal the types emitted, per field."""
    out = []
    prop_types = property_newtypes(ctx)
    for name, info in sorted(tx_types(ctx).items()):
        enc = info["encode"]
        ctx.note(enc)
        for h in info["helpers"].values():
            ctx.note(h)
        ems = emissions(ctx, info)
        ftypes = field_types(ctx, info["adt"])
        rem_fields, rem_helpers = len_fields(ctx, info, "remaining_len")
        counted_ty = _counted_types(ctx, info, "remaining_len")
        site0 = enc.site(0)
        emitted_fields = {}
        for e in ems:
            for f in e["fields"]:
                emitted_fields.setdefault(f, []).append(e)
        packed = set()
        for e in ems:
            if e["item"][0] == "helper" and e["item"][1] not in LEN_HELPERS:
                hb = info["helpers"].get(e["item"][1])
                if hb is not None:
                    packed |= self_fields(hb, hb.atoms({"l": 0, "p": []}), info["adt"])
                    for h2 in own_len_fields(ctx, info, e["item"][1])[1]:
                        hb2 = info["helpers"].get(h2)
                        if hb2 is not None:
                            packed |= self_fields(hb2, hb2.atoms({"l": 0, "p": []}), info["adt"])
        if "remaining_len" not in info["helpers"]:
            # PINGREQ: no variable part
            tot = [e for e in ems if e["item"][0] not in ("const", "lit", "?")]
            out.append(Inst("LM", "%s:no-variable-part" % name, not tot, site0, "%d non-constant emissions" % len(tot), "a packet without remaining-length helper emits constants only"))
            continue
        # LM-1
        for f, es in sorted(emitted_fields.items()):
            direct = [e for e in es if e["item"][0] == "field"]
            if not direct:
                continue
            counted = f in rem_fields or (ftypes.get(f) in counted_ty)
            out.append(Inst("LM", "%s:LM1:%s" % (name, f), counted, enc.site(direct[0]["bb"]),
                            "field %s is written by encode() and %s counted in remaining_len()%s" % (f, "is" if counted else "is NOT", " (as size_of::<%s>)" % short_ty(ftypes.get(f)) if f not in rem_fields and counted else ""),
                            "every byte written after the remaining-length field is counted in it"))
        # LM-2
        for f in sorted(rem_fields):
            ok = f in emitted_fields or f in packed
            only_packed = f not in emitted_fields and f in packed
            out.append(Inst("LM", "%s:LM2:%s" % (name, f), f in emitted_fields, site0,
                            "field %s is counted in remaining_len() and %s" % (f, "written by encode()" if f in emitted_fields else ("only packed into a flag byte" if only_packed else "never written")),
                            "nothing is counted that is not written"))
        # LM-3
        for h in sorted(rem_helpers | ({"remaining_len"})):
            if h not in LEN_HELPERS or h == "payload_len":
                continue
            em = [e for e in ems if e["item"] == ("helper", h)]
            out.append(Inst("LM", "%s:LM3:%s:emitted" % (name, h), len(em) >= 1, enc.site(em[0]["bb"]) if em else site0,
                            "%s() is counted in the length and %s" % (h, "its value is written" if em else "its value is NEVER written by encode()"),
                            "a length prefix that is counted must be on the wire"))
            if em and h != "remaining_len":
                # a length prefix is written whatever its value (0 included): its emission does not hang on a test of
                # that very length (remaining_len() counts the prefix byte of an empty section too)
                selfdep = []
                for e_ in em:
                    for (d_, s__) in enc.control_dep_closure(e_["bb"]):
                        c_ = Cond(enc, d_)
                        ops__ = [c_.a, c_.b] if c_.kind == "cmp" else (list(getattr(c_, "args", [])) if c_.kind == "call" else [])
                        for x_ in ops__:
                            if x_ is None or x_.get("k") == "const":
                                continue
                            if any(a[0] == "call" and (a[1].startswith(info["adt"] + "::") or codecinfo_trait_method(a[1], info["adt"])) and a[1].split("::")[-1] == h for a in enc.atoms(x_)):
                                selfdep.append(enc.site(d_))
                out.append(Inst("LM", "%s:LM3:%s:unconditional" % (name, h), not selfdep, enc.site(em[0]["bb"]),
                                "the emission of %s() %s" % (h, "does not depend on its own value" if not selfdep else "hangs on a test of its own value at %s" % sorted(set(selfdep))),
                                "the prefix of an empty section is one zero byte, and it is counted"))
                own, _ = own_len_fields(ctx, info, h)
                for f in sorted(own):
                    for e in emitted_fields.get(f, []):
                        okd = any(enc.dominates(x["bb"], e["bb"]) for x in em)
                        out.append(Inst("LM", "%s:LM3:%s:before:%s" % (name, h, f), okd, enc.site(e["bb"]),
                                        "%s is written %s its length prefix %s()" % (f, "after" if okd else "NOT after", h), "prefix first"))
        # LM-4 section agreement
        prefixes = [e for e in ems if e["item"][0] == "helper" and e["item"][1] in ("property_len", "will_property_len")]
        for f, es in sorted(emitted_fields.items()):
            t = inner_type(ftypes.get(f, ""))
            if t not in prop_types:
                continue
            for e in es:
                doms = [p for p in prefixes if enc.dominates(p["bb"], e["bb"])]
                # nearest dominating prefix = the one dominated by all others
                sec = None
                for p in doms:
                    if all(enc.dominates(q["bb"], p["bb"]) for q in doms):
                        sec = p["item"][1]
                own = own_len_fields(ctx, info, sec)[0] if sec else set()
                ok = sec is not None and f in own
                out.append(Inst("LM", "%s:LM4:%s" % (name, f), ok, enc.site(e["bb"]),
                                "property %s is written in the section of %s and %s counted there" % (f, sec or "no length prefix", "is" if ok else "is NOT"),
                                "property length = size of the properties that follow it"))
        for h in ("property_len", "will_property_len"):
            if h in info["helpers"]:
                own, _ = own_len_fields(ctx, info, h)
                for f in sorted(own):
                    t = inner_type(ftypes.get(f, ""))
                    if t not in prop_types:
                        out.append(Inst("LM", "%s:LM4:%s:non-property-in-%s" % (name, f, h), False, site0, "field %s (type %s) is counted in %s() but is not a property" % (f, t, h), "only properties in the property length"))
        # LM-5 guard agreement: the flag predicates (will_flag(), is_shortened(), ...) a field's emission is control
        # dependent on are the ones its length contribution is control dependent on
        flag_helpers = {h for h in info["helpers"] if not h.endswith("_len") and h not in ("payload_flags", "fixed_hdr")}
        if flag_helpers:
            def guard_flags(body, bb):
                g = set()
                for (d, s_) in body.control_dep_closure(bb):
                    t = body.term(d)
                    if t["k"] != "switch" or t["op"].get("k") == "const":
                        continue
                    si = body.switch_info(d)
                    src = {"pl": si["place"]} if si and si["kind"] == "discr" else t["op"]
                    for a in body.atoms(src):
                        if a[0] == "call" and a[1].startswith(info["adt"] + "::") and a[1].split("::")[-1] in flag_helpers:
                            g.add(a[1].split("::")[-1])
                return g

            def len_guard(f):
                g = set()
                found = False
                for hname, hb in info["helpers"].items():
                    if not hname.endswith("_len"):
                        continue
                    own, _ = own_len_fields(ctx, info, hname)
                    if f not in own:
                        continue
                    # blocks of hb that read field f
                    blocks = set()
                    for i in sorted(hb.reach):
                        for st in hb.blocks[i]["stmts"]:
                            if st["k"] != "assign":
                                continue
                            rv = st["rv"]
                            direct = []
                            for key in ("op", "a", "b"):
                                if isinstance(rv.get(key), dict) and rv[key].get("pl"):
                                    direct.append(rv[key]["pl"])
                            if rv.get("pl"):
                                direct.append(rv["pl"])
                            for o in rv.get("ops", []):
                                if o.get("pl"):
                                    direct.append(o["pl"])
                            if any((info["adt"], f) in place_fields(pl) for pl in direct):
                                blocks.add(i)
                    for i in blocks:
                        found = True
                        g |= guard_flags(hb, i)
                    # guards of the call sites of this helper inside other length helpers
                    for h2, hb2 in info["helpers"].items():
                        if h2 == hname or not h2.endswith("_len"):
                            continue
                        for i, t in hb2.calls(re.escape(info["adt"]) + "::" + hname + "$"):
                            g |= guard_flags(hb2, i)
                return g if found else None
            for f, es in sorted(emitted_fields.items()):
                direct = [e for e in es if e["item"][0] == "field"]
                if not direct:
                    continue
                ge = set()
                for e in direct:
                    ge |= guard_flags(enc, e["bb"])
                gl = len_guard(f)
                if gl is None:
                    continue
                out.append(Inst("LM", "%s:LM5:%s" % (name, f), ge == gl, enc.site(direct[0]["bb"]),
                                "field %s is written under %s and counted under %s" % (f, sorted(ge) or "no flag", sorted(gl) or "no flag"),
                                "a field is counted exactly when it is written (same flag predicates)"))
        # LM-5b value-test agreement: if a field is written only when its value passes a test (e.g. `!= default`),
        # its length contribution is subject to a value test too, and vice versa
        def comparands(body_, ops_, f):
            """For a test whose operands are ops_: if one side reads field f, the signature of the other side(s)
            (constants, constant-like calls such as `T::default()`), else None."""
            sides = [x for x in ops_ if x is not None]
            hit = [x for x in sides if any(a[0] == "field" and (info["adt"], f) == (a[1], a[2]) for a in body_.atoms(x))]
            if not hit:
                return None
            sig = set()
            for x in sides:
                if x in hit and len(sides) > 1:
                    continue
                v = body_.fold(x)
                if v is not None:
                    sig.add("const:%s" % v)
                    continue
                for a in body_.atoms(x):
                    if a[0] == "call":
                        sig.add("call:" + strip_generics(a[1]).split("::")[-1])
                    elif a[0] in ("const", "uneval", "variant"):
                        sig.add("%s:%s" % (a[0], a[-1]))
            return frozenset(sig)

        def tests_in(body_, blocks, f):
            out_ = set()
            for j in blocks:
                c2 = Cond(body_, j)
                o2 = [c2.a, c2.b] if c2.kind == "cmp" else (list(c2.args) if c2.kind == "call" and c2.callee in ("eq", "ne") else [])
                sg = comparands(body_, o2, f) if o2 else None
                if sg is not None:
                    out_.add(sg)
            return out_

        def value_tested_emission(f, e):
            found = set()
            for (d, s_) in enc.control_dep_closure(e["bb"]):
                found |= tests_in(enc, [d], f)
                cnd = Cond(enc, d)
                # the decision looks at the result of a helper that itself tests the field's value (e.g. remaining_len())
                ops_ = [cnd.a, cnd.b] if cnd.kind == "cmp" else (getattr(cnd, "args", []) if cnd.kind == "call" else [])
                for x in ops_:
                    if x is None:
                        continue
                    for a in enc.atoms(x):
                        if a[0] == "call" and (a[1].startswith(info["adt"] + "::") or codecinfo_trait_method(a[1], info["adt"])):
                            hb = info["helpers"].get(a[1].split("::")[-1])
                            if hb is not None:
                                found |= tests_in(hb, sorted(hb.reach), f)
            return found

        def value_tested_length(f):
            found = set()
            for hname, hb in info["helpers"].items():
                if not hname.endswith("_len"):
                    continue
                own, _ = own_len_fields(ctx, info, hname)
                if f not in own:
                    continue
                found |= tests_in(hb, sorted(hb.reach), f)
                for i in sorted(hb.reach):
                    t = hb.term(i)
                    if t["k"] == "call" and len(t["ops"]) >= 2 and f in self_fields(hb, hb.atoms(t["ops"][0]), info["adt"]):
                        for a in hb.atoms(t["ops"][1]):
                            if a[0] == "closure":
                                cb = ctx.world.body(a[1])
                                for j in sorted(cb.reach):
                                    c2 = Cond(cb, j)
                                    o2 = [c2.a, c2.b] if c2.kind == "cmp" else (list(c2.args) if c2.kind == "call" and c2.callee in ("eq", "ne") else [])
                                    if o2:
                                        sg = set()
                                        for x in o2:
                                            v = cb.fold(x)
                                            if v is not None:
                                                sg.add("const:%s" % v)
                                                continue
                                            for a2 in cb.atoms(x):
                                                if a2[0] == "call":
                                                    sg.add("call:" + strip_generics(a2[1]).split("::")[-1])
                                                elif a2[0] in ("const", "uneval", "variant"):
                                                    sg.add("%s:%s" % (a2[0], a2[-1]))
                                        found.add(frozenset(sg))
            return found
        for f, es in sorted(emitted_fields.items()):
            direct = [e for e in es if e["item"][0] == "field"]
            if not direct or f not in rem_fields:
                continue
            ve = set()
            for e in direct:
                ve |= value_tested_emission(f, e)
            vl = value_tested_length(f)
            if ve or vl:
                fmt = lambda S: sorted(sorted(x) for x in S) or "whatever its value"
                out.append(Inst("LM", "%s:LM5b:%s" % (name, f), ve == vl, enc.site(direct[0]["bb"]),
                                "field %s: written under value tests against %s, counted under value tests against %s" % (f, fmt(ve), fmt(vl)),
                                "the condition for writing a field and for counting it is the same (same comparands)"))
        # LM-6
        meas = measured_types(ctx, info)
        emit_t = {}
        for e in ems:
            if e["item"][0] == "field":
                for f in e["fields"]:
                    emit_t.setdefault(f, set()).add(_norm_ty(e["ty"]))
        for f in sorted(set(meas) | set(emit_t)):
            if f not in rem_fields and f not in emit_t:
                continue
            m_, e_ = meas.get(f, set()), emit_t.get(f, set())
            if not m_ and (ftypes.get(f) in counted_ty):
                m_ = {_norm_ty(ftypes[f])}
            if not m_ and f in rem_fields and e_:
                # counted (LM-1 / LM-4 decide that) through a helper of another layer that this rule does not look into
                # (`core::utils::total_byte_len(&self.f)`): which type's byte_len() measures it is not read off here
                out.append(Inst("LM", "%s:LM6:%s" % (name, f), True, site0, "field %s: NOT DECIDED, it is counted through a helper this rule does not look into; written as %s" % (f, sorted(short_ty(x) for x in e_)),
                                "the same values are measured and written", {"undecided": True}))
                continue
            if not e_ and f in packed:
                continue
            def _abstract(t_):
                # a type the analysis cannot name at this site: a type parameter or an associated type of an inlined generic
                # helper (`I::Item`), a trait object (`dyn ByteLen` in a table of sizes)
                t_ = short_ty(t_ or "")
                return bool(re.fullmatch(r"(Item|[A-Z]\w?|dyn \w+|ByteLen|Encode|\?)", t_)) or "dyn " in (t_ or "")
            if any(_abstract(x) for x in m_ | e_):
                out.append(Inst("LM", "%s:LM6:%s" % (name, f), True, site0, "field %s: NOT DECIDED, measured as %s / written as %s goes through a type the analysis cannot name here" % (f, sorted(short_ty(x) for x in m_), sorted(short_ty(x) for x in e_)),
                                "the same values are measured and written", {"undecided": True}))
                continue
            ok = m_ == e_
            out.append(Inst("LM", "%s:LM6:%s" % (name, f), ok, site0, "field %s: measured with byte_len as %s, written as %s" % (f, sorted(short_ty(x) for x in m_), sorted(short_ty(x) for x in e_)),
                            "the same values are measured and written"))
        # LM-7: a length is never squeezed through a narrower integer on its way into the length field (`sum as u16`
        # wraps the property length of a large packet while every byte is still written)
        WIDTH = {"u8": 8, "u16": 16, "u32": 32, "u64": 64, "usize": 64}
        narrowing = []
        for hname, hb in sorted(info["helpers"].items()):
            if not hname.endswith("_len"):
                continue
            for i in sorted(hb.reach):
                for st in hb.blocks[i]["stmts"]:
                    if st["k"] == "assign" and st["rv"]["k"] == "cast" and st["rv"].get("kind") == "IntToInt" and st["rv"]["op"].get("k") != "const":
                        o = st["rv"]["op"]
                        src = hb.locals[o["pl"]["l"]]["ty"] if not o["pl"]["p"] else None
                        if WIDTH.get(src) and WIDTH.get(st["rv"]["ty"]) and WIDTH[st["rv"]["ty"]] < WIDTH[src]:
                            narrowing.append("%s: `%s as %s` at line %d" % (hname, src, st["rv"]["ty"], st["line"]))
        out.append(Inst("LM", "%s:LM7:no-narrowing-in-lengths" % name, not narrowing, site0, "narrowing casts in the length helpers: %s" % (narrowing or "none"),
                        "a length reaches its length field with all its bits (or the conversion is checked)"))
    return out


def _norm_ty(t):
    t = re.sub(r"<'[a-z_]+>", "", t)
    t = t.lstrip("&")
    return t


def measured_types(ctx, info):
    """{field: {types passed to ByteLen::byte_len}} over all length helpers (and their closures)."""
    out = {}
    adt = info["adt"]
    for hname, b in info["helpers"].items():
        if not hname.endswith("_len"):
            continue
        # closures created in the helper: map field -> closure
        clos = {}
        for i in sorted(b.reach):
            t = b.term(i)
            if t["k"] != "call":
                continue
            nm = callee_resolved(t) or ""
            if nm.endswith("ByteLen::byte_len") or re.search(r"as core::utils::ByteLen>::byte_len$", nm) or re.search(r"ByteLen for .*>::byte_len$", nm):
                fs = self_fields(b, b.atoms(t["ops"][0]), adt)
                ty = t["callee"].get("self_ty") or "?"
                for f in fs:
                    out.setdefault(f, set()).add(_norm_ty(ty))
                continue
            # adaptor(field, f) with f = fn item ByteLen::byte_len or a closure
            if len(t["ops"]) >= 2:
                fs = self_fields(b, b.atoms(t["ops"][0]), adt)
                if not fs:
                    continue
                f_op = t["ops"][1]
                tys = set()
                if f_op.get("k") == "const" and f_op.get("fn") and f_op["fn"]["name"] == "byte_len":
                    tys.add(_norm_ty(f_op["fn"].get("self_ty") or "?"))
                else:
                    for a in b.atoms(f_op):
                        if a[0] == "closure":
                            cb = ctx.world.body(a[1])
                            if cb is None:
                                continue
                            for j in sorted(cb.reach):
                                tt = cb.term(j)
                                if tt["k"] == "call" and (tt["callee"] or {}).get("name") == "byte_len":
                                    tys.add(_norm_ty(tt["callee"].get("self_ty") or "?"))
                for f in fs:
                    if tys:
                        out.setdefault(f, set()).update(tys)
    return out


# ------------------------------------------------------------------------------------ ORDER

@rule("ORDER", floor=8)
def order(ctx):
    """Non-property items are written in the order the standard prescribes; properties lie between their
    length prefix and the next non-property item."""
    spec = ctx.spec("order")
    prop_types = property_newtypes(ctx)
    out = []
    for name, info in sorted(tx_types(ctx).items()):
        enc = info["encode"]
        want = spec[TX_SPEC_NAME[name]]
        ems = emissions(ctx, info)
        ftypes = field_types(ctx, info["adt"])
        pos = {}

        def label(e):
            k, v = e["item"]
            if k == "const":
                return v if v in want else ("FIXED_HDR" if v in ("AUTH_RAW_DEFAULT",) else v)
            if k == "helper":
                return v
            if k == "field":
                f = v[0]
                if f in want:
                    return f
                t = inner_type(ftypes.get(f, ""))
                if t in prop_types:
                    return "WILL_PROPERTIES" if f.startswith("will_") and "WILL_PROPERTIES" in want else "PROPERTIES"
                return f
            if k == "?":
                return "remaining_len" if name == "PingreqTx" else "?"
            return str(v)
        labelled = [(label(e), e) for e in ems]
        for lab, e in labelled:
            if lab not in want:
                if e["item"] == ("const", "AUTH_RAW_DEFAULT"):
                    continue
                out.append(Inst("ORDER", "%s:unknown-item:%s" % (name, lab), False, enc.site(e["bb"]), "encode() writes %s, which is not an item of %s" % (lab, TX_SPEC_NAME[name]), "items: %s" % want))
        idx = {w: i for i, w in enumerate(want)}
        known = [(lab, e) for lab, e in labelled if lab in idx]
        n = 0
        for i, (la, ea) in enumerate(known):
            for lb, eb in known:
                if idx[la] < idx[lb]:
                    # no path from the later item's emission to the earlier item's emission
                    if ea["bb"] != eb["bb"] and ea["bb"] in enc.reachable_from(eb["bb"]):
                        out.append(Inst("ORDER", "%s:%s-before-%s" % (name, lb, la), False, enc.site(eb["bb"]),
                                        "%s (%s) can be written before %s (%s)" % (lb, enc.site(eb["bb"]), la, enc.site(ea["bb"])), "standard order: %s" % want))
                    n += 1
        for w in want:
            present = any(lab == w for lab, e in labelled)
            optional = w in ("PROPERTIES", "WILL_PROPERTIES")
            if not present and not optional:
                out.append(Inst("ORDER", "%s:missing:%s" % (name, w), False, enc.site(0), "item %s is never written" % w, "items: %s" % want))
        out.append(Inst("ORDER", "%s:pairs" % name, True, enc.site(0), "%d ordered pairs of items checked, sequence: %s" % (n, _dedup([l for l, _ in labelled])), "%s" % want))
    return [o for o in out]


def _dedup(seq):
    out = []
    for s in seq:
        if not out or out[-1] != s:
            out.append(s)
    return out


# ------------------------------------------------------------------------------------ BITS

def _leaf_name(e, adt):
    """Name of the field / helper an or-tree leaf derives from."""
    names = set()
    for l in sym_leaves(e):
        if l[0] == "place":
            for (a, n) in l[2]:
                if a == adt and isinstance(n, str):
                    names.add(n)
    calls = set()

    def walk(x):
        if x[0] == "call":
            if x[1].startswith(adt + "::"):
                calls.add(x[1].split("::")[-1] + "()")
            for a in x[2]:
                walk(a)
        elif x[0] in ("bin",):
            walk(x[2]); walk(x[3])
        elif x[0] in ("cast", "un"):
            walk(x[2])
        elif x[0] == "agg":
            for a in x[2]:
                walk(a)
        elif x[0] == "discr":
            walk(x[1])
    walk(e)
    if not names and not calls:
        # nothing of the struct in it: a bare parameter (renamed to a field by the caller's alias table)
        names = {"param:%d" % l[4] for l in sym_leaves(e) if l[0] == "place" and not l[2] and len(l) > 4 and isinstance(l[4], int)}
    return sorted(names | calls)


def _dec_name(tt):
    dec = short_ty(re.sub(r"<.*", "", tt["callee"].get("self_ty") or "?"))
    if "AckRx" in (tt["callee"].get("self_ty") or ""):
        m = re.search(r"(\w+)Reason>", tt["callee"]["self_ty"])
        dec = (short_ty(m.group(1)) + "Rx") if m else dec
    return dec


def _dispatch_through_kind_enum(ctx, rb, types):
    """The dispatch written as `let kind = Kind::from_header(b0)?; match kind { Kind::X => XRx::try_decode(..) }` with
    `Kind::packet_id(self) -> u8 { match self { X => XRx::PACKET_ID, .. } }`: returns (shift, {type value: (decoder, site)},
    site) by composing the two tables through the variants, or None."""
    for i in sorted(rb.reach):
        si = rb.switch_info(i)
        if not si or si["kind"] != "discr" or not (si.get("adt") or "").startswith("codec::packet::") or (si.get("adt") or "").endswith("RxPacket"):
            continue
        kind_adt = si["adt"]
        t = rb.term(i)
        arm_dec = {}
        for v, s_ in t["targets"]:
            for j in sorted(rb.reachable_from(s_, avoid=[x for _, x in t["targets"] if x != s_] + ([t["otherwise"]] if t["otherwise"] is not None else []))):
                tt = rb.term(j)
                if tt["k"] == "call" and (tt["callee"] or {}).get("name") == "try_decode":
                    arm_dec[si["variants"].get(v)] = (_dec_name(tt), rb.site(s_))
                    break
        # the variant -> constant table
        var_const = {}
        shift = None
        for f in ctx.facts.fns:
            if strip_generics(f.get("impl_self") or "") != kind_adt or f["kind"] != "fn":
                continue
            fb = ctx.world.body(f["path"])
            if f.get("ret_ty") == "u8" and f["arg_count"] == 1:
                for k in sorted(fb.reach):
                    sk = fb.switch_info(k)
                    if sk and sk["kind"] == "discr" and sk.get("adt") == kind_adt:
                        tk = fb.term(k)
                        for v, s_ in tk["targets"]:
                            for x in sorted(fb.reachable_from(s_, avoid=[y for _, y in tk["targets"] if y != s_])):
                                for st in fb.blocks[x]["stmts"]:
                                    if st["k"] == "assign" and st["lhs"]["l"] == 0 and st["rv"]["k"] == "use" and st["rv"]["op"].get("uneval"):
                                        u = st["rv"]["op"]["uneval"]
                                        if u["name"] == "PACKET_ID" and isinstance(u.get("eval"), int):
                                            var_const[sk["variants"].get(v)] = u["eval"]
            else:
                for k, tk in fb.calls(r"Iterator::(find|position)$"):
                    e = symex(fb, {"l": 0, "p": []})
                    for a in fb.atoms(tk["ops"][1]):
                        if a[0] == "closure":
                            cb = ctx.world.body(a[1])
                            ce = symex(cb, {"l": 0, "p": []})
                            if ce[0] == "bin" and ce[1] == "Eq":
                                # the captured operand: where it comes from in the enclosing function
                                for st_i in sorted(fb.reach):
                                    for st in fb.blocks[st_i]["stmts"]:
                                        if st["k"] == "assign" and st["rv"]["k"] == "bin" and st["rv"]["op"] == "Shr":
                                            shift = fb.fold(st["rv"]["b"])
        if arm_dec and var_const and set(arm_dec) == set(var_const) and shift is not None:
            return shift, {var_const[v]: arm_dec[v] for v in arm_dec}, rb.site(i)
    return None


@rule("BITS", floor=14)
def bits(ctx):
    """Bit layouts: connect flags, PUBLISH fixed header, subscription options (writer side) and the
    masks / shifts of the PUBLISH decoder agree with the standard."""
    flags = ctx.spec("flags")
    types = ctx.spec("packets")["types"]
    out = []
    tx = tx_types(ctx)
    # ConnectTx::payload_flags
    info = tx["ConnectTx"]
    b = info["helpers"].get("payload_flags")
    if b is None:
        raise AnchorLost("ConnectTx::payload_flags")
    out += _or_tree_check(ctx, "connect_flags", b, info["adt"], flags["connect_flags"], {"will_flag()": "will_flag"})
    # PublishTx::fixed_hdr
    info = tx["PublishTx"]
    b = info["helpers"].get("fixed_hdr")
    if b is None:
        raise AnchorLost("PublishTx::fixed_hdr")
    want = dict(flags["publish_header"])
    hdr_alias = {}
    if b.fn.get("arg_count") and info["adt"].split("::")[-1] not in b.locals[1]["ty"]:
        # an associated function that is handed the three fields (`Self::fixed_hdr(self.dup, self.qos, self.retain)`):
        # each parameter stands for the field every call site passes in its position
        per = {}
        for hb in [info["encode"]] + list(info["helpers"].values()):
            for i, t in hb.calls(r"::fixed_hdr$"):
                for k, o in enumerate(t["ops"]):
                    fs = {a[2] for a in hb.atoms(o) if a[0] == "field" and a[1] == info["adt"]}
                    per.setdefault(k + 1, []).append(fs)
        for k, lst in per.items():
            if lst and all(len(x) == 1 for x in lst) and len({tuple(x) for x in lst}) == 1:
                hdr_alias["param:%d" % k] = sorted(lst[0])[0]
    out += _or_tree_check(ctx, "publish_header", b, info["adt"], {k: v for k, v in want.items() if k != "type"}, hdr_alias, const_terms={types["PUBLISH"] << want["type"]: "type"})
    # SubscriptionOptions::encode
    so = ctx.flat(ctx.body(r"codec::\w+::SubscriptionOptions as core::utils::Encode>::encode$"))
    val = None
    for i, t in so.calls(r"Encoder::encode$"):
        val = t["ops"][1]
    if val is None:
        raise AnchorLost("emission in SubscriptionOptions::encode")
    so_adt = re.search(r"<(codec::\w+::SubscriptionOptions) as", so.path).group(1)
    out += _or_tree_check(ctx, "subscription_options", so, so_adt, flags["subscription_options"], {}, expr=symex(so, val))
    # PublishRx decoder: setter(arg) expressions
    from r_codec_rx import rx_decoders
    pd = rx_decoders(ctx)["PublishRx"][1]       # private helpers (e.g. a flag-parsing function) inlined
    hdr_expect = {"dup": ("mask", 1 << want["dup"]), "retain": ("mask", 1 << want["retain"])}
    for i, t in pd.calls(r"PublishRxBuilder::(dup|retain)$"):
        which = callee_name(t).split("::")[-1]
        e = symex(pd, t["ops"][1])
        m = _mask_of(e)
        out.append(Inst("BITS", "publish-decode:%s" % which, m == hdr_expect[which][1], pd.site(i), "%s decoded as (header & 0x%02x) != 0" % (which, m if m is not None else -1),
                        "bit %d" % want[which]))
    qos_ok = False
    for i, t in pd.calls(r"TryFrom::try_from$"):
        if (t["callee"].get("self_ty") or "").endswith("QoS"):
            e = symex(pd, t["ops"][0])
            sh, mk = _shift_mask(e)
            qos_ok = sh == want["qos"] and mk == 3
            out.append(Inst("BITS", "publish-decode:qos", qos_ok, pd.site(i), "QoS decoded as (header >> %s) & %s" % (sh, mk), "(header >> %d) & 3" % want["qos"]))
    # type nibble extraction in RxPacket::try_decode and the outbound handler
    for fn_re, what in ((r"codec::packet::RxPacket as core::utils::TryDecode>::try_decode$", "dispatch"),):
        from r_codec_rx import flat_decoder
        rb = flat_decoder(ctx, ctx.body(fn_re), "codec::packet::RxPacket")      # a private dispatch helper is looked at in place
        found = False
        for i in sorted(rb.reach):
            t = rb.term(i)
            if t["k"] == "switch":
                e = symex(rb, t["op"])
                if e[0] == "bin" and e[1] == "Shr":
                    found = True
                    out.append(Inst("BITS", "type-nibble:%s" % what, sym_fold(e[3]) == 4, rb.site(i), "packet type = byte0 >> %s" % sym_fold(e[3]), "byte0 >> 4"))
                    # arms: value -> decoder type
                    for v, s_ in t["targets"]:
                        dec = None
                        for j in rb.reachable_from(s_, avoid=[x for _, x in t["targets"] if x != s_] + ([t["otherwise"]] if t["otherwise"] is not None else [])):
                            tt = rb.term(j)
                            if tt["k"] == "call" and (tt["callee"] or {}).get("name") == "try_decode":
                                dec = short_ty(re.sub(r"<.*", "", tt["callee"].get("self_ty") or "?"))
                                if re.search(r"Rx<.*?(\w+)Reason>", tt["callee"].get("self_ty") or ""):
                                    dec = short_ty(re.search(r"(\w+)Reason>", tt["callee"]["self_ty"]).group(1)) + "Rx"
                                break
                        wantt = {vv: k for k, vv in types.items()}.get(v, "?")
                        ok = dec is not None and dec.upper().replace("RX", "") == wantt
                        out.append(Inst("BITS", "type-nibble:%s:%d" % (what, v), ok, rb.site(s_), "type %d is decoded by %s" % (v, dec), wantt))
        if not found:
            got = _dispatch_through_kind_enum(ctx, rb, types)
            if got is None:
                out.append(Inst("BITS", "type-nibble:%s" % what, True, rb.site(0), "NOT DECIDED: the dispatch on the packet type is written in a way this rule does not read (no switch on byte0 >> 4, no classification enum)",
                                "byte0 >> 4 selects the decoder", {"undecided": True}))
            else:
                shift, table, site_ = got
                out.append(Inst("BITS", "type-nibble:%s" % what, shift == 4, site_, "packet type = byte0 >> %s, classified through a private enum" % shift, "byte0 >> 4"))
                for v, (dec, s_) in sorted(table.items()):
                    wantt = {vv: k for k, vv in types.items()}.get(v, "?")
                    ok = dec is not None and dec.upper().replace("RX", "") == wantt
                    out.append(Inst("BITS", "type-nibble:%s:%d" % (what, v), ok, s_, "type %d is decoded by %s" % (v, dec), wantt))
    return out


def _mask_of(e):
    # ((hdr & M) != 0)
    if e[0] == "bin" and e[1] == "Ne" and sym_fold(e[3]) == 0 and e[2][0] == "bin" and e[2][1] == "BitAnd":
        return sym_fold(e[2][3]) if sym_fold(e[2][3]) is not None else sym_fold(e[2][2])
    return None


def _shift_mask(e):
    if e[0] == "bin" and e[1] == "BitAnd":
        mk = sym_fold(e[3])
        inner = e[2]
        if inner[0] == "bin" and inner[1] == "Shr":
            return sym_fold(inner[3]), mk
        return 0, mk
    return None, None


def _or_tree_check(ctx, table, body, adt, want, alias, const_terms=None, expr=None):
    out = []
    e = expr if expr is not None else symex(body, {"l": 0, "p": []})
    got = {}
    consts = {}
    for x, sh in sym_or_terms(e):
        v = sym_fold(x)
        if v is not None:
            consts[v << sh] = sh
            continue
        names = _leaf_name(x, adt)
        nm = names[0] if names else "?"
        nm = alias.get(nm, nm)
        got[nm] = sh
    for f, sh in sorted(want.items()):
        g = got.get(f)
        out.append(Inst("BITS", "%s:%s" % (table, f), g == sh, body.site(0), "%s is placed at bit %s" % (f, g), "bit %d (spec/flags.json %s)" % (sh, table)))
    for f in sorted(set(got) - set(want)):
        out.append(Inst("BITS", "%s:%s:unexpected" % (table, f), False, body.site(0), "%s is packed at bit %s" % (f, got[f]), "fields: %s" % sorted(want)))
    for v, nm in (const_terms or {}).items():
        out.append(Inst("BITS", "%s:%s" % (table, nm), v in consts, body.site(0), "constant terms %s" % sorted(consts), "constant %d" % v))
    return out


# ------------------------------------------------------------------------------------ IDS

@rule("IDS", floor=50)
def ids(ctx):
    """Evaluated PACKET_ID / FIXED_HDR / PROPERTY_ID constants and the wire type of every property agree
    with the standard's tables."""
    types = ctx.spec("packets")["types"]
    fl = ctx.spec("packets")["fixed_flags"]
    props = ctx.spec("properties")
    out = []
    seen_types = set()
    for c in ctx.facts.consts:
        st = c["self_ty"] or ""
        if c["name"] == "PACKET_ID" and c["val"] is not None:
            tn = _packet_of(st)
            if tn is None:
                continue
            seen_types.add((tn, "tx" if "Tx" in st else "rx"))
            out.append(Inst("IDS", "PACKET_ID:%s" % short_ty(_norm(st)), types.get(tn) == c["val"], "src/codec", "%s::PACKET_ID = %s" % (short_ty(_norm(st)), c["val"]), "%s = %s" % (tn, types.get(tn))))
        elif c["name"] == "FIXED_HDR" and c["val"] is not None:
            tn = _packet_of(st)
            if tn is None or tn == "PUBLISH":
                continue
            want = (types[tn] << 4) | fl[tn]
            out.append(Inst("IDS", "FIXED_HDR:%s" % short_ty(_norm(st)), want == c["val"], "src/codec", "%s::FIXED_HDR = 0x%02x" % (short_ty(_norm(st)), c["val"]), "0x%02x (type %d, flags %d)" % (want, types[tn], fl[tn])))
        elif c["name"] == "PROPERTY_ID" and c["val"] is not None:
            nm = short_ty(re.sub(r"<.*>", "", st))
            base = nm[:-3] if nm.endswith("Ref") else nm
            want = props["ids"].get(base)
            out.append(Inst("IDS", "PROPERTY_ID:%s" % nm, want == c["val"], "src/core/properties.rs", "%s::PROPERTY_ID = %s" % (nm, c["val"]), "%s" % want))
    # a packet type whose impl of the header trait defines no FIXED_HDR of its own takes the trait's default: the
    # extractor evaluates constants per impl, so that value is not seen.  A default shared with the types whose
    # reserved flags are 0 cannot also give the header of a type whose reserved flags are not 0 (PUBREL: 0x62).
    hdr_traits = {c["trait"] for c in ctx.facts.consts if c["name"] == "FIXED_HDR" and c.get("trait")}
    hdr_traits |= {im["trait"]["path"] for im in ctx.facts.impls if im.get("trait") and any(it["name"] == "FIXED_HDR" for it in im["items"])}
    for im in ctx.facts.impls:
        tr = im.get("trait")
        if not tr or not (tr["path"] in hdr_traits or tr["path"].split("::")[-1] == "FixedHeader"):
            continue
        if any(it["name"] == "FIXED_HDR" for it in im["items"]):
            continue
        st = im.get("self_ty") or im.get("self_adt") or ""
        tn = _packet_of(st)
        if tn is None or tn == "PUBLISH":
            continue
        want = (types[tn] << 4) | fl[tn]
        if fl[tn]:
            out.append(Inst("IDS", "FIXED_HDR:%s" % short_ty(_norm(st)), False, "src/codec", "%s takes FIXED_HDR from the default of %s, which it shares with packet types whose reserved flags are 0" % (short_ty(_norm(st)), tr["path"]),
                            "0x%02x (type %d, flags %d) defined for this type" % (want, types[tn], fl[tn])))
        else:
            out.append(Inst("IDS", "FIXED_HDR:%s" % short_ty(_norm(st)), True, "src/codec", "NOT DECIDED: %s takes FIXED_HDR from the default of %s (not evaluated per type)" % (short_ty(_norm(st)), tr["path"]),
                            "0x%02x" % want, {"undecided": True}))
    # wire types: Property::try_decode arm -> decoded primitive
    pd = ctx.body(r"core::properties::Property as core::utils::TryDecode>::try_decode$")

    def _kept(p_):
        f_ = ctx.facts.fn(p_)
        if f_ is None or f_["kind"] != "fn" or f_.get("impl_trait"):
            return True
        # private plumbing of the property decoder (inherent methods of Property, free functions of its module) is
        # looked at in place
        if strip_generics(f_.get("impl_self") or "") == "core::properties::Property" and f_.get("vis") != "pub":
            return False
        sp = strip_generics(p_)
        if not f_.get("impl_self") and sp.startswith("core::properties::") and sp.count("::") == 2:
            return False
        return True
    pd = ctx.flat_with(pd, _kept, "ids:Property", normalise=False)
    sw = None
    for i in sorted(pd.reach):
        t = pd.term(i)
        if t["k"] == "switch" and len(t["targets"]) > 10:
            sw = (i, t)
    if sw is None:
        raise AnchorLost("dispatch on the property id in Property::try_decode")
    i0, t0 = sw
    id2name = {v: k for k, v in props["ids"].items()}
    WIRE = {"bool": "byte", "u8": "byte", "core::base_types::QoS": "byte", "u16": "u16", "u32": "u32", "core::base_types::UTF8String": "utf8", "core::base_types::Binary": "binary",
            "core::base_types::UTF8StringPair": "utf8pair", "core::base_types::NonZero<u16>": "u16", "core::base_types::NonZero<u32>": "u32",
            "core::base_types::NonZero<core::base_types::VarSizeInt>": "varint", "core::base_types::VarSizeInt": "varint"}
    others = [x for _, x in t0["targets"]]
    for v, s_ in t0["targets"]:
        dec = None
        var = None
        for j in sorted(pd.reachable_from(s_, avoid=[x for x in others if x != s_] + [t0["otherwise"]])):
            tt = pd.term(j)
            if tt["k"] == "call" and (callee_name(tt) or "").endswith("Decoder::try_decode") and dec is None:
                dec = (tt["callee"].get("args") or ["?"])[-1]
            # the variant is built in the arm itself (`Property::X(X(decoder.try_decode()?))`) ...
            for st_ in pd.blocks[j]["stmts"]:
                if st_["k"] == "assign" and st_["rv"]["k"] == "agg" and (st_["rv"].get("adt") or "").endswith("properties::Property") and var is None:
                    var = st_["rv"]["variant"]
            # ... or in the closure handed to `map`
            if tt["k"] == "call":
                for a in pd.atoms(tt["ops"][1]) if len(tt["ops"]) > 1 else ():
                    if a[0] == "closure":
                        cb = ctx.world.body(a[1])
                        for k in cb.reach:
                            for st in cb.blocks[k]["stmts"]:
                                if st["k"] == "assign" and st["rv"]["k"] == "agg" and (st["rv"].get("adt") or "").endswith("properties::Property"):
                                    var = st["rv"]["variant"]
            # ... or its constructor is handed to a helper that applies it to the decoded value (`decode_value::<T, P>(decoder, Property::X)`)
            if tt["k"] == "call" and var is None:
                for o_ in tt["ops"]:
                    for a in (pd.atoms(o_) if o_.get("k") != "const" else ([("fnitem", (o_.get("fn") or {}).get("def"))] if o_.get("fn") else [])):
                        if a[0] == "fnitem" and a[1] and re.match(r"core::properties::Property::\w+$", a[1]) and ctx.facts.fn(a[1]) is None:
                            var = a[1].split("::")[-1]
        nm = id2name.get(v, "?")
        ok = WIRE.get(dec) == props["wire"].get(nm) and var == nm
        out.append(Inst("IDS", "wire:%d" % v, ok, pd.site(s_), "property id %d decodes a %s into Property::%s" % (v, short_ty(dec or "?"), var), "%s as %s" % (nm, props["wire"].get(nm))))
    missing = sorted(set(props["ids"].values()) - {v for v, _ in t0["targets"]})
    out.append(Inst("IDS", "wire:all-ids-dispatched", not missing, pd.site(i0), "property ids without an arm: %s" % (missing or "none"), "27 property identifiers"))
    # non-zero constrained properties decode through NonZero<_>
    for v, s_ in t0["targets"]:
        nm = id2name.get(v)
        if nm in props["nonzero"]:
            dec = None
            for j in sorted(pd.reachable_from(s_, avoid=[x for x in others if x != s_] + [t0["otherwise"]])):
                tt = pd.term(j)
                if tt["k"] == "call" and (callee_name(tt) or "").endswith("Decoder::try_decode") and dec is None:
                    dec = (tt["callee"].get("args") or ["?"])[-1]
            out.append(Inst("IDS", "nonzero:%s" % nm, "NonZero<" in (dec or ""), pd.site(s_), "%s decodes as %s" % (nm, short_ty(dec or "?")), "value 0 is a protocol error: NonZero<_>"))
    return out


def _norm(st):
    return re.sub(r"<'[a-z_]+(, )?", "<", st).replace("<>", "")


def _packet_of(st):
    # a packet type generic over its reason enum (`AckRx<PubackReason>`, `ReasonListRx<SubackReason>`) is the packet of
    # that reason
    m = re.search(r"(Tx|Rx)<.*::(\w+)Reason>", st)
    if m:
        return m.group(2).upper()
    m = re.search(r"::(\w+?)(Tx|Rx)\b", st)
    if m and m.group(1) != "Ack":
        return m.group(1).upper()
    return None


# ------------------------------------------------------------------------------------ VARINT-THRESH

@rule("VARINT-THRESH", floor=2)
def varint_thresh(ctx):
    """VarSizeInt: the 1/2/3/4-byte states are constructed exactly under the standard's thresholds
    127 / 16383 / 2097151 / 268435455 (From integers), and len() reports 1..4 for them."""
    want = ctx.spec("packets")["varint_max"]
    out = []
    n = 0
    for im in ctx.facts.impls:
        tr = im.get("trait")
        if not tr or tr["path"] != "std::convert::TryFrom" or not im["self_ty"].endswith("VarSizeInt"):
            continue
        m = re.match(r"std::convert::TryFrom<(u32|usize|u64)>$", tr["full"])
        if not m:
            continue
        fn = [it for it in im["items"] if it["kind"] == "fn" and it["name"] == "try_from"][0]
        b = ctx.world.body(fn["def"])
        if not any(st["k"] == "assign" and st["rv"]["k"] == "agg" and (st["rv"].get("adt") or "").endswith("VarSizeIntState") for i in b.reach for st in b.blocks[i]["stmts"]):
            b = ctx.flat(b)             # the states are built in a private helper the conversions share: looked at in place
        ctx.note(b)
        n += 1
        # per constructed state: the upper bound in force
        got = {}
        for i in sorted(b.reach):
            for st in b.blocks[i]["stmts"]:
                if st["k"] == "assign" and st["rv"]["k"] == "agg" and (st["rv"].get("adt") or "").endswith("VarSizeIntState"):
                    var = st["rv"]["variant"]
                    ub = None
                    for (d, s_) in dominating_edges(b, i):
                        c = Cond(b, d)
                        if c.kind == "cmp":
                            nrm = c.cmp_norm(lambda x: x.get("k") != "const" and any(a[0] == "param" for a in b.atoms(x)))
                            if nrm:
                                k = b.fold(nrm[1])
                                truth = c.holds_on(s_)
                                eff = nrm[0] if truth else {"Lt": "Ge", "Ge": "Lt", "Gt": "Le", "Le": "Gt"}.get(nrm[0], nrm[0])
                                if k is not None and eff == "Le":
                                    ub = k if ub is None else min(ub, k)
                                if k is not None and eff == "Lt":
                                    ub = k - 1 if ub is None else min(ub, k - 1)
                        elif c.kind == "call" and (c.callee or "").endswith("contains"):
                            e = symex(b, c.args[0])
                            if e[0] in ("agg", "call") and len(e[2]) >= 2 and c.holds_on(s_) is True and not c.neg:
                                hi = sym_fold(e[2][1])
                                if hi is not None:
                                    ub = hi if ub is None else min(ub, hi)
                    got[var] = ub
        wantm = dict(zip(["SingleByte", "TwoByte", "ThreeByte", "FourByte"], want))
        for var, w in wantm.items():
            out.append(Inst("VARINT-THRESH", "%s:%s" % (m.group(1), var), got.get(var) == w, b.site(0), "%s constructed for values <= %s" % (var, got.get(var)), "<= %d" % w))
    if n == 0:
        raise AnchorLost("TryFrom<u32|usize> for VarSizeInt")
    lb = ctx.body(r"core::base_types::VarSizeInt::len$")
    sw = None
    for i in sorted(lb.reach):
        si = lb.switch_info(i)
        if si and si["kind"] == "discr":
            sw = si
    lens = {}
    if sw:
        for v, s_ in sw["targets"]:
            for j in lb.reachable_from(s_, avoid=[x for _, x in sw["targets"] if x != s_]):
                for st in lb.blocks[j]["stmts"]:
                    if st["k"] == "assign" and st["lhs"]["l"] == 0:
                        lens[sw["variants"][v]] = lb.fold(st["rv"]["op"]) if st["rv"]["k"] == "use" else None
        if sw["otherwise"] is not None:
            listed = {sw["variants"][v] for v, _ in sw["targets"]}
            rest = [x for x in sw["variants"].values() if x not in listed]
            for j in lb.reachable_from(sw["otherwise"], avoid=[x for _, x in sw["targets"]]):
                for st in lb.blocks[j]["stmts"]:
                    if st["k"] == "assign" and st["lhs"]["l"] == 0 and len(rest) == 1:
                        lens[rest[0]] = lb.fold(st["rv"]["op"]) if st["rv"]["k"] == "use" else None
    out.append(Inst("VARINT-THRESH", "len", lens == {"SingleByte": 1, "TwoByte": 2, "ThreeByte": 3, "FourByte": 4}, lb.site(0), "len() per state: %s" % lens, "1, 2, 3, 4"))
    return out


# ------------------------------------------------------------------------------------ LM-PRIM

_PRIM_SIZE = {"u8": 1, "i8": 1, "bool": 1, "u16": 2, "i16": 2, "u32": 4, "i32": 4, "u64": 8, "i64": 8, "u128": 16}
_LEN_CALL = re.compile(r"(str::<impl str>::len|core::str::<impl str>::len|slice::<impl \[T\]>::len|Bytes::len|BytesMut::len|Vec::<[^>]*>::len|Vec::len|String::len)$")
_VIEW_CALL = re.compile(r"(<impl str>::as_bytes|Clone::clone|AsRef::as_ref|Deref::deref|Bytes::as_ref|Borrow::borrow|String::as_str|String::as_bytes|Vec::<[^>]*>::as_slice|Vec::as_slice)$")


def _poly_add(a, b, k=1):
    if a is None or b is None:
        return None
    out = dict(a)
    for t, c in b.items():
        out[t] = out.get(t, 0) + k * c
        if out[t] == 0:
            del out[t]
    return out


def _self_key(body, op, adt):
    """What an operand denotes in terms of the value being measured / written: the fields of self it derives from and
    the wrapper type it was put in, if any."""
    if op.get("k") == "const":
        return ("const",)
    fields = sorted({str(a[2]) for a in body.atoms(op) if a[0] == "field" and re.sub(r"<.*$", "", a[1] or "") == adt})
    whole = any(a[0] == "param" and a[1] == 1 for a in body.atoms(op))
    return (tuple(fields), "self" if whole and not fields else "")


def _pointee_ty(body, op):
    if op.get("k") == "const":
        return op.get("ty")
    t = body.locals[op["pl"]["l"]]["ty"] if not op["pl"]["p"] else None
    return re.sub(r"^&('\w+ )?(mut )?", "", t) if t else None


def _size_term(body, op, adt, depth=0):
    """Symbolic size (dict term -> coefficient) of a usize operand of a byte_len function, or None."""
    if depth > 30:
        return None
    v = body.fold(op)
    if v is not None:
        return {"1": v} if v else {}
    if op.get("k") == "const":
        return None
    pl = op["pl"]
    proj = [p for p in pl["p"] if p != "deref"]
    ds = body.whole_defs(pl["l"])
    if len(ds) != 1:
        return None
    d = ds[0]
    if proj and not (len(proj) == 1 and isinstance(proj[0], dict) and proj[0].get("f") == 0 and d[0] == "stmt" and d[3]["rv"]["k"] == "bin" and d[3]["rv"].get("checked")):
        return None
    if d[0] == "stmt":
        rv = d[3]["rv"]
        if rv["k"] == "use":
            return _size_term(body, rv["op"], adt, depth + 1)
        if rv["k"] == "cast" and rv.get("kind") == "IntToInt":
            return _size_term(body, rv["op"], adt, depth + 1)
        if rv["k"] == "bin" and rv["op"] == "Add":
            return _poly_add(_size_term(body, rv["a"], adt, depth + 1), _size_term(body, rv["b"], adt, depth + 1))
        if rv["k"] == "bin" and rv["op"] == "Mul":
            ka, kb = body.fold(rv["a"]), body.fold(rv["b"])
            if ka is not None:
                x = _size_term(body, rv["b"], adt, depth + 1)
                return None if x is None else {t: c * ka for t, c in x.items() if c * ka}
            if kb is not None:
                x = _size_term(body, rv["a"], adt, depth + 1)
                return None if x is None else {t: c * kb for t, c in x.items() if c * kb}
        return None
    if d[0] == "call":
        t = d[2]
        return _call_size(body, t, adt)
    return None


def _call_size(body, t, adt):
    c = t.get("callee") or {}
    nm = c.get("def") or ""
    res = c.get("resolved") or nm
    if nm.endswith("mem::size_of"):
        ty = (c.get("args") or [None])[0]
        return {"1": _PRIM_SIZE[ty]} if ty in _PRIM_SIZE else None
    if nm.endswith("mem::size_of_val") and t["ops"]:
        o = body.origin(t["ops"][0], through_calls=False)
        ty = None
        if o[0] == "rv" and o[2]["rv"]["k"] == "ref":
            ty = body.locals[o[2]["rv"]["pl"]["l"]]["ty"] if not o[2]["rv"]["pl"]["p"] else None
        ty = ty or _pointee_ty(body, t["ops"][0])
        return {"1": _PRIM_SIZE[ty]} if ty in _PRIM_SIZE else None
    if _LEN_CALL.search(res) or _LEN_CALL.search(nm):
        return {("len", _self_key(body, t["ops"][0], adt)): 1}
    if nm.endswith("ByteLen::byte_len") and t["ops"]:
        sty = strip_generics(c.get("self_ty") or "?")
        if sty in _PRIM_SIZE:
            return {"1": _PRIM_SIZE[sty]}
        return {("sz", sty.split("::")[-1], _self_key(body, t["ops"][0], adt)): 1}
    # anything else that yields a number from the value (chars().count(), ..): an opaque term of its own
    return {("call", short_ty(strip_generics(res)), tuple(_self_key(body, o, adt) for o in t["ops"])): 1}


def _encode_size(body, adt):
    """Symbolic number of bytes a straight-line encode() appends, or None (branches, unrecognised writes)."""
    total = {}
    for i in sorted(body.reach):
        blk = body.blocks[i]
        if blk.get("cleanup"):
            continue
        t = blk["term"]
        if t["k"] == "switch":
            return None
        if t["k"] != "call":
            continue
        c = t.get("callee") or {}
        nm = c.get("def") or ""
        res = c.get("resolved") or nm
        touches_buf = any(o.get("k") != "const" and any(a[0] == "param" and a[1] == 2 for a in body.atoms(o)) for o in t["ops"])
        if not touches_buf:
            continue
        m = re.search(r"BufMut::put_([ui])(\d+)(_le|_ne)?$", nm)
        if m:
            total = _poly_add(total, {"1": int(m.group(2)) // 8})
            continue
        if re.search(r"(BufMut::put|BufMut::put_slice|BytesMut::extend_from_slice|BufMut::put_bytes)$", nm) and len(t["ops"]) >= 2:
            if nm.endswith("put_bytes"):
                return None
            x = t["ops"][1]
            for _ in range(6):
                o = body.origin(x, through_calls=False)
                if o[0] == "call" and (_VIEW_CALL.search(callee_resolved(o[2]) or "") or _VIEW_CALL.search(callee_name(o[2]) or "")) and o[2]["ops"]:
                    x = o[2]["ops"][0]
                    continue
                break
            o = body.origin(x, through_calls=False)
            if o[0] == "call":
                return None
            total = _poly_add(total, {("len", _self_key(body, x, adt)): 1})
            continue
        if nm.endswith("Encode::encode") and t["ops"]:
            sty = strip_generics(c.get("self_ty") or "?")
            if sty in _PRIM_SIZE:
                total = _poly_add(total, {"1": _PRIM_SIZE[sty]})
            else:
                total = _poly_add(total, {("sz", sty.split("::")[-1], _self_key(body, t["ops"][0], adt)): 1})
            continue
        return None
    return total


def _fmt_poly(p):
    def ft(t):
        if t == "1":
            return ""
        if t[0] == "len":
            return "len(%s)" % (".".join(t[1][0]) or t[1][1] or "?")
        if t[0] == "sz":
            return "size(%s %s)" % (t[1], ".".join(t[2][0]) or t[2][1] or "?")
        return "%s(..)" % t[1]
    parts = []
    for t, c in sorted(p.items(), key=lambda kv: str(kv[0])):
        parts.append(str(c) if t == "1" else ("%s" % ft(t) if c == 1 else "%d*%s" % (c, ft(t))))
    return " + ".join(parts) or "0"


@rule("LM-PRIM", floor=20)
def lm_prim(ctx):
    """Length mirror at the level of the primitives: for every type that implements both ByteLen and Encode with a
    straight-line encoder, the number of bytes encode() appends, as a symbolic sum over the type's fields, equals what
    byte_len() returns (the packet-level remaining / property lengths are sums of these)."""
    bl, en = {}, {}
    for im in ctx.facts.impls:
        tr = im.get("trait")
        if not tr:
            continue
        key = im.get("self_ty") or im.get("self_adt")
        fns = [it["def"] for it in im["items"] if it["kind"] == "fn"]
        if tr["path"] == "core::utils::ByteLen" and fns:
            bl[key] = fns[0]
        if tr["path"] == "core::utils::Encode" and fns:
            en[key] = fns[0]
    out = []
    for ty in sorted(set(bl) & set(en)):
        adt = re.sub(r"<.*$", "", ty)
        bb, eb = ctx.world.body(bl[ty]), ctx.world.body(en[ty])
        want = _size_term(bb, {"k": "copy", "pl": {"l": 0, "p": []}}, adt) if len(bb.whole_defs(0)) == 1 and not any(bb.term(x)["k"] == "switch" for x in bb.reach) else None
        got = _encode_size(eb, adt)
        if want is None or got is None:
            continue        # branching or unrecognised arithmetic: not decided here (VarSizeInt: VARINT-THRESH; enums: BITS / IDS)
        ctx.note(bb)
        ctx.note(eb)
        out.append(Inst("LM-PRIM", short_ty(re.sub(r"<'\w+>$", "", ty)), want == got, eb.site(0),
                        "byte_len() = %s; encode() appends %s" % (_fmt_poly(want), _fmt_poly(got)),
                        "the measured size is the written size, field by field"))
    return out
