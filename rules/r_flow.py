"""HANDSHAKE (C06), SUBREG/DISPATCH/SUBMUT/ADAPTER (C07), IDALLOC (C11), OWN (C14), RESUME (C17)."""
import re
from engine import rule, Inst, AnchorLost
from ctx import match_arms, arm_of, arm_region, RXPACKET, CTXMSG, short_ty, fmt_atoms
from cond import Cond, dominating_edges, field_pred, int_switch_facts
from effects import SESSION, CONNECTION, effects, _collect_env_idx
from mir import Body, callee_name, callee_resolved, symex, sym_fold, sym_leaves, _symex_rv, place_fields, strip_generics
from pathutil import traced_paths, exit_kind
from r_quota import type_guards
from r_exits import thresh_sites, exits, try_operand


# ------------------------------------------------------------------------------------ HANDSHAKE

def buffer_byte_writes(body):
    """Statements that modify a byte of a message buffer in place: lhs is `(*p)` with p derived from
    msg.packet (get_mut / index_mut / first_mut)."""
    out = []
    for i in sorted(body.reach):
        for st in body.blocks[i]["stmts"]:
            if st["k"] != "assign":
                continue
            lhs = st["lhs"]
            if "deref" not in lhs["p"]:
                continue
            at = body.atoms({"l": lhs["l"], "p": []})
            if any(a[0] == "field" and a[2] == "packet" and a[1].startswith("client::message::") for a in at):
                out.append((i, st, at))
    return out


@rule("HANDSHAKE-DUP", floor=3)
def handshake_dup(ctx):
    """(a) In region(PUBLISH) of the outbound handler the only in-place modification of the message
    buffer sets exactly bit 3 of byte 0 (DUP), after the write has completed and before the copy is
    stored for retransmission; nothing calls the DUP setter of the PUBLISH builder."""
    hm = ctx.outbound_handler()
    effs = ctx.effects(hm)
    from outpaths import ArmPaths
    ap = ArmPaths(ctx, hm, "AwaitAck")
    if "PUBLISH" not in ap.classes:
        raise AnchorLost("PUBLISH type test (packet[0] >> 4 == PublishTx::PACKET_ID) in the outbound handler")
    region = ap.only("PUBLISH")
    on_publish = ap.blocks_of("PUBLISH")
    dupbit = 1 << ctx.spec("flags")["publish_header"]["dup"]
    out = []
    writes = buffer_byte_writes(hm)
    pub_w = [e for e in effs if e.kind == "TxWrite" and e.bb in on_publish]
    pushes = [e for e in effs if e.kind == "Push" and "retrasmit_queue" in e.detail["fields"] and e.bb in on_publish]
    if not pub_w:
        raise AnchorLost("TxWrite on the PUBLISH paths of the outbound handler")
    comps = {e.inner_bb: hm.completion_of(e.inner_bb) for e in pub_w}
    ready = {c["ready_bb"] for c in comps.values() if c}
    for i, st, at in writes:
        site = "%s:%d" % (hm.fn["file"], st["line"])
        rv = st["rv"]
        ok_op = rv["k"] == "bin" and rv["op"] == "BitOr" and hm.fold(rv["b"]) == dupbit
        idx0 = any(a[0] == "const" and a[1] == 0 for a in at) or any(a[0] == "call" and (a[1].endswith("first_mut")) for a in at)
        out.append(Inst("HANDSHAKE-DUP", "write:%s" % ("dup" if ok_op else "other"), ok_op and idx0 and i in region, site,
                        "in-place buffer write: %s %s on byte index0=%s, only on PUBLISH paths=%s" % (rv.get("op"), hm.fold(rv["b"]) if rv["k"] == "bin" else "?", idx0, i in region),
                        "only `byte0 |= 1 << 3` (DUP) for a PUBLISH"))
        after, _n = ap.precedes("PUBLISH", ready, i)
        out.append(Inst("HANDSHAKE-DUP", "dup-after-write", after, site, "DUP set %s the completed first write on every PUBLISH path" % ("after" if after else "NOT after"), "DUP=0 on the wire, DUP=1 only on the stored copy"))
        for p in pushes:
            before, _n = ap.precedes("PUBLISH", {i}, p.bb)
            out.append(Inst("HANDSHAKE-DUP", "dup-before-store", before, p.site(), "stored copy pushed %s the DUP bit is set" % ("after" if before else "NOT after"),
                            "the retransmission copy carries DUP=1 (C17)"))
    if not writes:
        out.append(Inst("HANDSHAKE-DUP", "no-dup-set", False, pub_w[0].site(), "the stored PUBLISH copy never gets the DUP bit", "DUP=1 on the stored copy"))
    n = 0
    for f in ctx.facts.fns:
        if f["file"].startswith("src/") and "::test" not in f["path"]:
            b = ctx.world.body(f["path"])
            for i, t in b.calls(r"PublishTxBuilder::dup$"):
                n += 1
                out.append(Inst("HANDSHAKE-DUP", "dup-setter-called:%s" % short_ty(re.sub(r"<[^<>]*>", "", b.path)), False, b.site(i), "PublishTxBuilder::dup is called", "a first transmission never has DUP=1"))
    out.append(Inst("HANDSHAKE-DUP", "dup-setter-unused", n == 0, hm.site(0), "%d calls of PublishTxBuilder::dup in the crate" % n, "0"))
    return out


@rule("HANDSHAKE-QOS2", floor=3)
def handshake_qos2(ctx):
    """(c)(d)(e): the PUBREL's identifier is the received PUBREC's; the PUBREL is enqueued only on the
    Continue edge of the `?` that rejects a failing PUBREC; QoS 0 completes only after its write."""
    pb = ctx.handle_ops()["publish"]
    out = []
    # (c)
    calls = [(i, t) for i, t in pb.calls(r"AckTxBuilder::packet_identifier$")
             if any(a.endswith("PubrelReason") for a in (t["callee"].get("args") or []))]
    if not calls:
        raise AnchorLost("PubrelTxBuilder::packet_identifier call in ContextHandle::publish")
    for i, t in calls:
        at = pb.atoms(t["ops"][1])
        f = {a[2] for a in at if a[0] == "field"}
        calls_ = {a[1] for a in at if a[0] == "call"}
        from_rx = any("oneshot::Receiver" in c and c.endswith("poll") for c in calls_)
        fresh = any("fetch_" in c for c in calls_)
        # precise trace where possible: the operand is a field of the Pubrec payload of an awaited value
        o = pb.origin(t["ops"][1], through_calls=True)
        if o[0] == "place":
            pr = o[1]["p"]
            names = [p.get("n") for p in pr if isinstance(p, dict) and "f" in p]
            downs = [p["dc"] for p in pr if isinstance(p, dict) and "dc" in p]
            base_defs = pb.whole_defs(o[1]["l"])
            polled = any(d[0] == "call" and (callee_name(d[2]) or "").endswith("Future::poll") and "oneshot::Receiver" in ((d[2]["callee"].get("self_ty") or "") + (d[2]["callee"].get("resolved") or "")) for d in base_defs)
            if "Pubrec" in downs and "packet_identifier" in names and polled:
                f = {"packet_identifier"} | {n for n in names if isinstance(n, str)}
                from_rx, fresh = True, False
        out.append(Inst("HANDSHAKE-QOS2", "pubrel-id", "packet_identifier" in f and from_rx and not fresh, pb.site(i),
                        "PUBREL identifier derives from fields %s, awaited receiver=%s, fresh allocation=%s" % (sorted(x for x in f if isinstance(x, str)), from_rx, fresh),
                        "the PUBREC's packet_identifier (same identifier as the PUBLISH)"))
    # (d)
    thr_bodies = {b.path for b, _, _, _, _ in thresh_sites(ctx)}
    enq = [e for e in ctx.effects(pb) if e.kind == "Enqueue"]
    pubrel_enq = []
    for e in enq:
        at = e.detail["payload"]
        if any(a[0] == "variant" and a[2] == "Pubrel" and a[1].endswith("TxPacket") for a in at):
            pubrel_enq.append(e)
    if len(pubrel_enq) != 1:
        out.append(Inst("HANDSHAKE-QOS2", "one-pubrel-enqueue", False, pb.site(0), "%d PUBREL enqueues" % len(pubrel_enq), "exactly one PUBREL per QoS 2 publish"))
    thr = ctx.spec("reasons").get("failure_threshold", 128) if isinstance(ctx.spec("reasons"), dict) else 128

    def good_pubrec_edges(bb):
        """Dominating edges of bb on which the awaited PUBREC's reason is known to be below the failure threshold."""
        found = []
        for (d, s_) in dominating_edges(pb, bb):
            c = Cond(pb, d)
            if c.kind != "cmp":
                continue
            n = c.cmp_norm(field_pred(pb, "reason"))
            if not n or pb.fold(n[1]) is None:
                continue
            truth = c.holds_on(s_)
            if truth is None:
                continue
            k = pb.fold(n[1])
            eff = n[0] if truth else {"Lt": "Ge", "Ge": "Lt", "Gt": "Le", "Le": "Gt", "Eq": "Ne", "Ne": "Eq"}[n[0]]
            below = (eff == "Lt" and k == thr) or (eff == "Le" and k == thr - 1)
            at = pb.atoms(c.a) | pb.atoms(c.b)
            from_rx = any(a[0] == "call" and "oneshot::Receiver" in a[1] for a in at)
            is_pubrec = any(a[0] == "downcast" and a[1] == "Pubrec" for a in at)
            if below and from_rx and is_pubrec:
                found.append((d, s_))
        return found
    for e in pubrel_enq:
        edges = good_pubrec_edges(e.inner_bb)
        guarded = bool(edges)
        out.append(Inst("HANDSHAKE-QOS2", "pubrel-after-good-pubrec", guarded, e.site(),
                        "PUBREL enqueue %s dominated by the edge `reason < 0x%x` of a test on the awaited PUBREC's reason" % ("is" if guarded else "is NOT", thr),
                        "after a failing PUBREC no PUBREL is ever sent"))
        # ... and after a PUBREC with reason < 0x80 the PUBREL is always produced: no other way out of the function
        for (d, s_) in edges[:1]:
            reach = pb.reachable_from(s_, avoid=[e.inner_bb])
            direct = []
            for x in reach:
                for st in pb.blocks[x]["stmts"]:
                    if st["k"] == "assign" and st["lhs"]["l"] == 0 and not st["lhs"]["p"]:
                        direct.append(x)
                t_ = pb.term(x)
                if t_["k"] == "call" and t_["dest"]["l"] == 0 and not t_["dest"]["p"]:
                    direct.append(x)
            out.append(Inst("HANDSHAKE-QOS2", "pubrel-always-after-good-pubrec", not direct, e.site(),
                            "ways to leave publish() after a successful PUBREC without enqueueing the PUBREL: %s" % ([pb.site(x) for x in sorted(set(direct))] or "none"),
                            "QoS 2 sends exactly one PUBREL after a PUBREC with reason < 0x80 (and only then completes on PUBCOMP)"))
    # PUBREL is produced only by the QoS 2 branch of publish(), behind the reason check
    n_src = 0
    for _role, bb_ in ctx.client_units():      # each piece of client code once, where it takes effect
        for i, t in bb_.calls(r"(AckTxBuilder::build|Context::ack)$"):
            args = (t["callee"].get("args") or [])
            if not any(a.endswith("PubrelReason") for a in args):
                continue
            n_src += 1
            ok_src = bb_.path == pb.path
            out.append(Inst("HANDSHAKE-QOS2", "pubrel-source:%s" % short_ty(strip_generics(bb_.path).replace("::{closure#0}", "")), ok_src, bb_.site(i),
                            "a PUBREL is built in %s" % bb_.path, "only ContextHandle::publish (after a PUBREC with reason < 0x80) produces a PUBREL"))
    if n_src == 0:
        raise AnchorLost("construction of a PUBREL (AckTxBuilder::<PubrelReason>::build)")
    # (e)
    hm = ctx.outbound_handler()
    sw, arms, otherwise, other_vs, _ = match_arms(hm, CTXMSG)
    reg = arm_region(hm, arms["FireAndForget"])
    effs = ctx.effects(hm)
    w = [x for x in effs if x.kind == "TxWrite" and x.bb in reg]
    okc = [x for x in effs if x.kind == "Complete" and x.bb in reg and x.detail["variant"] == "Ok"]
    for c in okc:
        comp = hm.completion_of(w[0].inner_bb) if w else None
        ok = comp is not None and hm.dominates(comp["ready_bb"], c.bb)
        # and on the Continue edge of the write's `?`
        out.append(Inst("HANDSHAKE-QOS2", "qos0-completes-after-write", ok, c.site(), "Complete(Ok(())) %s dominated by the completed write" % ("is" if ok else "is NOT"),
                        "QoS 0 / fire-and-forget completes once written"))
    if not okc:
        out.append(Inst("HANDSHAKE-QOS2", "qos0-never-completes", False, hm.site(arms["FireAndForget"]), "no Complete(Ok) in the FireAndForget arm", "QoS 0 completes once written"))
    return out


# ------------------------------------------------------------------------------------ C07

@rule("SUBREG", floor=2)
def subreg(ctx):
    """In the Subscribe arm every path that writes the SUBSCRIBE registers (subscription_identifier,
    stream) in Session.subscriptions (hence before its SUBACK can arrive); subscribe() takes a fresh
    subscription identifier from one atomic read-modify-write."""
    hm = ctx.outbound_handler()
    sw, arms, otherwise, other_vs, _ = match_arms(hm, CTXMSG)
    effs = [e for e in ctx.effects(hm) if e.kind in ("TxWrite", "Push")]
    out = []
    n = 0
    bad = None
    for path, tr in traced_paths(ctx, hm, arms["Subscribe"], effs):
        if exit_kind(hm, path) != "ok":
            continue
        n += 1
        w = [e for e in tr if e.kind == "TxWrite"]
        p = [e for e in tr if e.kind == "Push" and "subscriptions" in e.detail["fields"]]
        if w:
            good = len(p) == 1
            if good:
                at = set().union(*p[0].detail["args"]) if p[0].detail["args"] else set()
                f = {a[2] for a in at if a[0] == "field" and a[1] == "client::message::Subscribe"}
                good = {"subscription_identifier", "stream"} <= f
            if not good:
                bad = path
        elif p:
            bad = path
    ctx.analysed["paths"] += n
    out.append(Inst("SUBREG", "registered-on-send", bad is None and n > 0, hm.site(arms["Subscribe"]),
                    "%d normal paths; every path that writes the SUBSCRIBE pushes (msg.subscription_identifier, msg.stream); refusal paths push nothing" % n if bad is None else "a path violates the registration discipline",
                    "stream registered when the SUBSCRIBE is sent", {"path_blocks": bad[:60] if bad else None}))
    sb = ctx.handle_ops()["subscribe"]
    calls = list(sb.calls(r"SubscribeOpts::subscription_identifier$"))
    if not calls:
        raise AnchorLost("SubscribeOpts::subscription_identifier call in subscribe()")
    for i, t in calls:
        o = sb.origin(t["ops"][1], through_calls=False)
        ok = o[0] == "call" and re.search(r"atomic::Atomic\w*::fetch_add$", callee_name(o[2]) or "") is not None and \
            any(a[0] == "field" and a[2] in _counter_fields(ctx, 32) for a in sb.atoms(o[2]["ops"][0])) and sb.fold(o[2]["ops"][1]) == 1
        out.append(Inst("SUBREG", "fresh-subscription-id", ok, sb.site(i), "subscription identifier from %s" % (callee_name(o[2]) if o[0] == "call" else o[0]),
                        "one fetch_add(1) on the shared sub_id counter per subscribe()"))
    return out


@rule("DISPATCH", floor=3)
def dispatch(ctx):
    """The Deliver receiver is subscriptions[linear_search_by_key(subscriptions, k)] with k from the
    received publish.subscription_identifier; the delivered value is the received packet moved whole;
    subscriptions are removed only on the failed-delivery edge, in the PUBLISH arm."""
    hp = ctx.inbound_handler()
    sw, arms, otherwise, other_vs, _ = match_arms(hp, RXPACKET)
    effs = ctx.effects(hp)
    out = []
    delivers = [e for e in effs if e.kind == "Deliver"]
    if not delivers:
        raise AnchorLost("Deliver in the inbound handler")
    for e in delivers:
        s = e.detail["sender"]
        sess_ty = {x["name"]: x["ty"] for x in ctx.facts.adt(SESSION)["variants"][0]["fields"]}
        # the collection the receiver is taken from: Session fields that hold stream senders
        f = {a[2] for a in s if a[0] == "field" and a[1] == SESSION and ("UnboundedSender<" in sess_ty.get(a[2], "") or a[2] == "subscriptions")}
        calls = {a[1] for a in s if a[0] == "call"}
        keyf = {a[2] for a in s if a[0] == "field" and a[1].endswith("PublishRx")}
        ok = f == {"subscriptions"} and any(c.endswith("linear_search_by_key") or c.endswith("Iterator::position") for c in calls) and "subscription_identifier" in keyf
        out.append(Inst("DISPATCH", "receiver", ok, e.site(), "receiver from Session.%s via %s keyed by PublishRx.%s" % (sorted(f), sorted(short_ty(c) for c in calls if "search" in c or c.endswith("::position")), sorted(keyf)),
                        "subscriptions[linear_search_by_key(subscriptions, publish.subscription_identifier)]"))
        # the key is the identifier the PUBLISH carries and nothing else: a key made up from the collection itself ("there
        # is only one subscription, take it") routes a message to a stream it was not sent for
        for i_, t_ in hp.calls(r"(linear_search_by_key|Iterator::position)$"):
            if not any(a[0] == "field" and a[1] == SESSION and a[2] == "subscriptions" for a in hp.atoms(t_["ops"][0])):
                continue
            if (callee_name(t_) or "").endswith("linear_search_by_key"):
                kat = hp.atoms(t_["ops"][1]) if len(t_["ops"]) > 1 else set()
            else:
                kat = set()
                for a in hp.atoms(t_["ops"][1]) if len(t_["ops"]) > 1 else ():
                    if a[0] == "closure":
                        cb_ = ctx.world.body(a[1])
                        cap = [x for x in cb_.upvar_names.values()] if hasattr(cb_, "upvar_names") else []
                # the captured key of an inline search: the operands of the closure literal
                o_ = hp.origin(t_["ops"][1], through_calls=False) if len(t_["ops"]) > 1 else ("?",)
                if o_[0] == "agg":
                    for x_ in o_[2]["rv"]["ops"]:
                        kat |= hp.atoms(x_)
            from_coll = sorted({a[1].split("::")[-1] for a in kat if a[0] == "call" and re.search(r"VecDeque(::<[^>]*>)?::(front|back|get|len|iter|is_empty)$|Iterator::(next|last|nth)$", a[1])}
                               | {"Session.%s" % a[2] for a in kat if a[0] == "field" and a[1] == SESSION})
            out.append(Inst("DISPATCH", "key-from-packet-only#%d" % len([o__ for o__ in out if "key-from-packet-only" in o__.key]), not from_coll, hp.site(i_),
                            "the key of the subscription lookup derives from %s%s" % (sorted({"%s.%s" % (short_ty(a[1]), a[2]) for a in kat if a[0] == "field" and not str(a[1]).startswith("std::")})[:4], "; also from the collection: %s" % from_coll if from_coll else ""),
                            "the Subscription Identifier of the PUBLISH, nothing of the session"))
        # payload intact
        agg = hp.origin(e.term["ops"][1], through_calls=False)
        intact = False
        fact = "payload is not RxPacket::Publish(publish)"
        pub_op = None
        if agg[0] == "agg" and agg[2]["rv"].get("variant") == "Publish":
            pub_op = agg[2]["rv"]["ops"][0]
        elif e.term["ops"][1].get("k") in ("move", "copy") and (e.detail.get("ty") or "").endswith("PublishRx"):
            pub_op = e.term["ops"][1]          # the stream carries the PUBLISH itself
        if pub_op is not None and pub_op.get("k") != "const":
            # the local bound in the arm: `_9 = move (_6 as Publish).0`
            muts = []
            chain = {pub_op["pl"]["l"]}
            # follow moves
            cur = pub_op
            for _ in range(5):
                ds = hp.whole_defs(cur["pl"]["l"]) if cur.get("k") != "const" else []
                if len(ds) == 1 and ds[0][0] == "stmt" and ds[0][3]["rv"]["k"] == "use" and ds[0][3]["rv"]["op"].get("k") != "const" \
                        and not ds[0][3]["rv"]["op"]["pl"]["p"]:
                    cur = ds[0][3]["rv"]["op"]
                    chain.add(cur["pl"]["l"])
                else:
                    break
            for l in chain:
                for d in hp.defs.get(l, []):
                    if d[0] == "stmt" and d[3]["lhs"]["p"]:
                        muts.append("%s:%d" % (hp.fn["file"], d[3]["line"]))
                muts += [hp.site(i) for i, t, k in hp.calls_with_mut_ref_to(l)]
            root = hp.origin({"l": min(chain), "p": []}, through_calls=False)
            from_arm = any(a[0] == "downcast" and a[1] == "Publish" for a in hp.atoms(pub_op))
            intact = from_arm and not muts
            fact = "payload = the arm's packet moved whole (from variant Publish=%s), field writes / &mut uses before delivery: %s" % (from_arm, muts or "none")
        out.append(Inst("DISPATCH", "payload-intact", intact, e.site(), fact, "topic, payload, QoS, flags and properties unchanged"))
    rems = [e for e in effs if e.kind == "Remove" and "subscriptions" in e.detail["fields"]]
    for e in rems:
        arm = arm_of(hp, arms, otherwise, e.bb)
        deps = hp.control_dep_closure(e.bb)
        on_fail = False
        for (d, s_) in deps:
            c = Cond(hp, d)
            if c.kind == "call" and c.callee == "is_err":
                at = hp.atoms(c.args[0])
                if any(a[0] == "call" and a[1].endswith("unbounded_send") for a in at):
                    truth = c.holds_on(s_)
                    on_fail = on_fail or (truth is not None and (truth ^ c.neg))
            if c.kind == "discr" and c.si.get("adt") == "std::result::Result":
                at = hp.atoms(c.si["place"])
                if any(a[0] == "call" and a[1].endswith("unbounded_send") for a in at) and 1 in [v for v in hp.edge_value(d, s_) if v != "otherwise"]:
                    on_fail = True
        out.append(Inst("DISPATCH", "remove-only-on-failed-delivery", arm == "Publish" and on_fail, e.site(),
                        "Remove(subscriptions) in arm %s, on the failed-delivery edge=%s" % (arm, on_fail),
                        "a stream ends only when its receiver is gone (not on UNSUBACK, not because of other streams)"))
    if not rems:
        out.append(Inst("DISPATCH", "no-removal", True, hp.site(arms["Publish"]), "no Remove(subscriptions) at all", "-"))
    return out


@rule("ADAPTER", floor=3)
def adapter(ctx):
    """SubscribeStream::poll_next: inner Ready(Some(Publish p)) -> Ready(Some(PublishData::from(p))),
    inner Ready(None) -> Ready(None), inner Pending -> Pending."""
    b = ctx.flat(ctx.body(r"client::stream::SubscribeStream as futures::Stream>::poll_next$"))
    out = []
    rows = {}
    from spec import pinned_to_path
    for path in b.paths(0):
        if not b.feasible(path):
            continue
        inner = None
        item = None
        pkt = None
        for a, s_ in zip(path, path[1:]):
            si = b.switch_info(a)
            if not si or si["kind"] != "discr":
                continue
            vals = [v for v in b.edge_value(a, s_)]
            names = [si["variants"].get(v, "otherwise") for v in vals]
            if "otherwise" in names:
                listed = {si["variants"].get(v) for v, _ in si["targets"]}
                names = [x for x in si["variants"].values() if x not in listed] or names
            adt = si.get("adt")
            if adt == "std::task::Poll":
                inner = names[0]
            elif adt == "std::option::Option":
                item = names[0]
            elif adt == RXPACKET:
                pkt = names[0] if len(names) == 1 else "non-Publish"
        ret = None
        with pinned_to_path(b, path):
            for bb in path:
                for st in b.blocks[bb]["stmts"]:
                    if st["k"] == "assign" and st["lhs"]["l"] == 0 and not st["lhs"]["p"]:
                        e = _symex_rv(b, st["rv"], 0)
                        ret = _poll_shape(e)
        if b.term(path[-1])["k"] == "return":
            rows.setdefault((inner, item, pkt), set()).add(ret)
    want = {("Ready", "Some", "Publish"): "Ready(Some(from(publish)))", ("Ready", "None", None): "Ready(None)", ("Pending", None, None): "Pending"}
    # a stream whose channel carries the PUBLISH itself has no variant to test: the item is the message
    carries_publish = any("UnboundedReceiver<codec::publish::PublishRx>" in (l_["ty"] or "") for l_ in b.locals) or \
        any("codec::publish::PublishRx" in " ".join((t_["callee"].get("args") or []) + [t_["callee"].get("self_ty") or ""]) for _, t_ in b.calls(r"poll_next\w*$"))
    if carries_publish and ("Ready", "Some", "Publish") not in rows:
        want = {("Ready", "Some", None): "Ready(Some(from(publish)))", ("Ready", "None", None): "Ready(None)", ("Pending", None, None): "Pending"}
    for k, w in want.items():
        got = rows.get(k, set())
        out.append(Inst("ADAPTER", "inner=%s/%s/%s" % k, got == {w}, b.site(0), "returns %s on the %d distinct result(s) of the paths with this inner outcome" % (sorted(map(str, got)), len(got)),
                        "%s on every path (no field of the message decides whether it is yielded)" % w))
    for k, gots in rows.items():
        for got in sorted(map(str, gots)):
            if k[0] is None and got != "?":
                # a result that was not derived from a poll of the channel on this path (a fast path on `size_hint()`, a flag):
                # "closed" is not "closed and drained", and only the channel knows
                out.append(Inst("ADAPTER", "inner=%s/%s/%s:unpolled" % k, False, b.site(0), "returns %s on a path that does not poll the channel" % got,
                                "every result of poll_next is the channel's own answer to a poll"))
            elif k not in want and got not in ("Ready(None)",):
                out.append(Inst("ADAPTER", "inner=%s/%s/%s:unexpected" % k, False, b.site(0), "returns %s" % got, "Ready(None) for anything that is not a delivered PUBLISH"))
    return out


def _poll_shape(e):
    if e[0] == "agg" and e[1] == "Pending":
        return "Pending"
    if e[0] == "agg" and e[1] == "Ready":
        x = e[2][0]
        if x[0] == "agg" and x[1] == "None":
            return "Ready(None)"
        if x[0] == "agg" and x[1] == "Some":
            y = x[2][0]
            if (y[0] == "call" and ("From" in y[1] or "Into" in y[1]) and "PublishData" in y[1]) or (y[0] == "agg" and y[1] == "PublishData"):
                leaves = [l for l in sym_leaves(y) if l[0] == "place"]
                if any("Publish" in l[3] for l in leaves) or any(tuple(l[3])[-2:] == ("Ready", "Some") for l in leaves):
                    return "Ready(Some(from(publish)))"
            return "Ready(Some(?))"
    return "?"


# ------------------------------------------------------------------------------------ IDALLOC

_NZ_CTOR = {}


def nonzero_ctor(ctx, t):
    """The call terminator is a fallible conversion of an integer into the crate's NonZero wrapper whose implementation
    returns Ok only on a path where the argument was tested to be non-zero, with the argument itself inside. Returns the
    converted operand, or None."""
    c = t.get("callee") or {}
    if not (c.get("def") or "").endswith("TryFrom::try_from") or "NonZero<" not in (c.get("self_ty") or "") or len(t["ops"]) != 1:
        return None
    path = c.get("resolved") or ""
    if path not in _NZ_CTOR:
        ok = False
        f = ctx.facts.fn(path)
        if f is not None and f["file"].startswith("src/"):
            b = ctx.world.body(path)
            oks = []
            for i in sorted(b.reach):
                for st in b.blocks[i]["stmts"]:
                    if st["k"] == "assign" and st["rv"]["k"] == "agg" and st["rv"].get("variant") == "Ok" and "Result" in (st["rv"].get("adt") or ""):
                        oks.append((i, st["rv"]["ops"][0]))
            ok = bool(oks)
            for i, pay in oks:
                o = b.origin(pay, through_calls=False)
                inner = o[2]["rv"]["ops"][0] if o[0] == "agg" and len(o[2]["rv"]["ops"]) == 1 else None
                io = b.origin(inner, through_calls=False) if inner is not None else None
                same = io is not None and io[0] == "place" and not io[1]["p"] and io[1]["l"] == 1
                if not (same and _tested_nonzero(b, 1, i)):
                    ok = False
        _NZ_CTOR[path] = ok
    return t["ops"][0] if _NZ_CTOR[path] else None


def through_nonzero_ctor(ctx, body, op):
    """If the operand is the Ok payload of such a conversion: the converted operand."""
    o = body.origin(op, through_calls=False)
    if o[0] != "place":
        return None
    pl = o[1]
    proj = [p for p in pl["p"] if p != "deref"]
    if len(proj) != 2 or not (isinstance(proj[0], dict) and proj[0].get("dc") == "Ok" and isinstance(proj[1], dict) and proj[1].get("f") == 0):
        return None
    ds = body.whole_defs(pl["l"])
    if len(ds) != 1 or ds[0][0] != "call":
        return None
    return nonzero_ctor(ctx, ds[0][2])


def nonzero(ctx, body, op, depth=0):
    """Conservative proof that an integer operand cannot be zero. Returns (bool, reason)."""
    if depth > 4:
        return False, "depth"
    v = body.fold(op)
    if v is not None:
        return v != 0, "constant %d" % v
    if through_nonzero_ctor(ctx, body, op) is not None:
        return True, "the Ok payload of NonZero::try_from, which rejects zero"
    o = body.origin(op, through_calls=False)
    if o[0] == "call":
        t = o[2]
        nm = callee_name(t) or ""
        if nm.endswith("NonZero::get") or re.search(r"num::NonZero\w*::get$", nm):
            return True, "NonZero::get"
        cb, kind = ctx.world.local_callee_body(t)
        if cb is not None and kind == "fn":
            rets = _return_operands(cb)
            if rets:
                res = [nonzero_at(ctx, cb, r_op, r_bb, depth + 1) for r_bb, r_op in rets]
                if all(r[0] for r in res):
                    return True, "every return of %s is non-zero (%s)" % (short_ty(cb.path), res[0][1])
                return False, "a return of %s may be zero (%s)" % (short_ty(cb.path), [r[1] for r in res if not r[0]][0])
        if re.search(r"atomic::Atomic\w*::fetch_(add|sub)$", nm):
            return False, "result of a wrapping %s may be zero" % short_ty(nm)
        return False, "result of %s" % short_ty(nm)
    if o[0] == "rv":
        rv = o[2]["rv"]
        if rv["k"] == "bin" and rv["op"] == "Add":
            # x % c + k, k >= 1, no wrap possible when c + k fits
            kb = body.fold(rv["b"])
            ka = body.fold(rv["a"])
            other = rv["a"] if kb is not None else rv["b"]
            k = kb if kb is not None else ka
            oo = body.origin(other, through_calls=False)
            if k and k >= 1 and oo[0] == "rv" and oo[2]["rv"]["k"] == "bin" and oo[2]["rv"]["op"] == "Rem":
                c = body.fold(oo[2]["rv"]["b"])
                if c is not None and c + k <= 65535 + 1:
                    return True, "x %% %d + %d" % (c, k)
        if rv["k"] == "bin" and rv["op"] == "BitOr":
            for s_ in ("a", "b"):
                k = body.fold(rv[s_])
                if k:
                    return True, "x | %d" % k
    if o[0] == "place" and not o[1]["p"]:
        l = o[1]["l"]
        if 1 <= l <= body.fn["arg_count"] and body.fn["kind"] == "fn":
            return None, "parameter %d" % l
    return False, "unrecognised (%s)" % o[0]


def _tested_nonzero(body, local, bb):
    """A dominating edge of bb on which `local != 0` holds."""
    for (d, s_) in dominating_edges(body, bb):
        c = Cond(body, d)
        if c.kind != "cmp":
            continue
        n = c.cmp_norm(lambda x: x.get("k") != "const" and not x["pl"]["p"] and (x["pl"]["l"] == local or body.base_local(x) == local))
        if not n:
            continue
        k = body.fold(n[1])
        truth = c.holds_on(s_)
        if k is None or truth is None:
            continue
        eff = n[0] if truth else {"Eq": "Ne", "Ne": "Eq", "Lt": "Ge", "Ge": "Lt", "Gt": "Le", "Le": "Gt"}[n[0]]
        if (eff == "Ne" and k == 0) or (eff == "Gt" and k >= 0) or (eff == "Ge" and k >= 1):
            return "dominated by the test `id %s %d` at %s" % (eff, k, body.site(d))
    return None


def nonzero_at(ctx, body, op, bb, depth=0, _seen=None):
    """The operand, used in block bb, cannot be zero: a constant, NonZero::get, a value under a dominating `!= 0`
    test, or a copy of such a value (every definition that can reach the use is examined where it is made)."""
    r = nonzero(ctx, body, op, depth)
    if r[0]:
        return r
    if op.get("k") == "const" or depth > 8:
        return r
    pl = op["pl"]
    if [p for p in pl["p"] if p != "deref"]:
        return r
    _seen = _seen if _seen is not None else set()
    l = pl["l"]
    why = _tested_nonzero(body, l, bb)
    if why:
        return True, why
    base = body.base_local(op)
    if base is not None and base != l:
        why = _tested_nonzero(body, base, bb)
        if why:
            return True, why
    if l in _seen:
        return r
    _seen.add(l)
    ds = body.whole_defs(l)
    if not ds:
        return r
    reasons = []
    for d in ds:
        if d[0] == "stmt" and d[3]["rv"]["k"] == "use" and d[3]["rv"]["op"].get("k") in ("move", "copy"):
            rr = nonzero_at(ctx, body, d[3]["rv"]["op"], d[1], depth + 1, _seen)
        elif d[0] == "stmt" and d[3]["rv"]["k"] == "use":
            rr = nonzero(ctx, body, d[3]["rv"]["op"], depth + 1)
        elif d[0] == "call":
            # the result of a call is tested after the call: a test on this local dominating the use was looked for above
            rr = nonzero(ctx, body, {"k": "copy", "pl": {"l": l, "p": []}}, depth + 1) if len(ds) == 1 else (False, "result of %s" % short_ty(callee_name(d[2]) or "?"))
        else:
            rr = (False, "computed value")
        if not rr[0]:
            return False, rr[1]
        reasons.append(rr[1])
    return True, reasons[0]


def identity_of_rmw(ctx, body, op, depth=0, _seen=None):
    """Is the operand the unmodified result of an atomic read-modify-write (possibly returned by a local helper, possibly
    one of several such results: `let mut id = next(); while id == 0 { id = next(); }`)?"""
    inner = through_nonzero_ctor(ctx, body, op)
    if inner is not None and depth < 6:
        return identity_of_rmw(ctx, body, inner, depth + 1, _seen)        # NonZero::try_from(x) keeps x
    o = body.origin(op, through_calls=False)
    if o[0] == "call":
        nm = callee_name(o[2]) or ""
        if re.search(r"atomic::Atomic\w*::fetch_(add|sub)$", nm):
            return True, "the result of %s" % short_ty(nm)
        cb, kind = ctx.world.local_callee_body(o[2])
        if cb is not None and kind == "fn" and depth < 3:
            rets = _return_operands(cb)
            res = [identity_of_rmw(ctx, cb, r_op, depth + 1) for r_bb, r_op in rets]
            if rets and all(r[0] for r in res):
                return True, "returned unchanged by %s (%s)" % (short_ty(cb.path), res[0][1])
            bad = [r[1] for r in res if not r[0]]
            return False, "transformed inside %s: %s" % (short_ty(cb.path), bad[0] if bad else "no return value found")
        return False, "the result of %s applied to the counter value" % short_ty(nm)
    if o[0] == "rv":
        return False, "computed with `%s` from the counter value" % o[2]["rv"].get("op", o[2]["rv"]["k"])
    if o[0] == "place" and not o[1]["p"] and len(body.whole_defs(o[1]["l"])) == 0:
        return False, "a parameter"
    if o[0] == "multi" and depth < 6:
        _seen = _seen if _seen is not None else set()
        if o[1] in _seen:
            return True, "(loop)"
        _seen.add(o[1])
        res = []
        for d in body.whole_defs(o[1]):
            if d[0] == "call":
                nm = callee_name(d[2]) or ""
                res.append((bool(re.search(r"atomic::Atomic\w*::fetch_(add|sub)$", nm)), "the result of %s" % short_ty(nm)))
            elif d[0] == "stmt" and d[3]["rv"]["k"] == "use" and d[3]["rv"]["op"].get("k") in ("move", "copy"):
                res.append(identity_of_rmw(ctx, body, d[3]["rv"]["op"], depth + 1, _seen))
            elif d[0] == "stmt":
                res.append((False, "computed with `%s` from the counter value" % d[3]["rv"].get("op", d[3]["rv"]["k"])))
            else:
                res.append((False, "not recognisable"))
        if res and all(r[0] for r in res):
            return True, "one of %d read-modify-write results, unchanged" % len(res)
        return False, [r[1] for r in res if not r[0]][0] if res else "no definition"
    return False, "not recognisable as the counter value (%s)" % o[0]


def _return_operands(body):
    out = []
    for i in sorted(body.reach):
        for st in body.blocks[i]["stmts"]:
            if st["k"] == "assign" and st["lhs"]["l"] == 0 and not st["lhs"]["p"] and st["rv"]["k"] == "use":
                out.append((i, st["rv"]["op"]))
        t = body.term(i)
        if t["k"] == "call" and t["dest"]["l"] == 0 and not t["dest"]["p"]:
            out.append((i, {"k": "copy", "pl": {"l": 0, "p": []}}))
    return out


def _counter_fields(ctx, bits):
    """Names of the ContextHandle fields holding the shared atomic identifier counter of the given width."""
    h = ctx.facts.adt("client::handle::ContextHandle")
    if not h:
        raise AnchorLost("ContextHandle struct")
    pat = r"Atomic(U%d|<u%d>)" % (bits, bits)
    out = {f["name"] for f in h["variants"][0]["fields"] if re.search(pat, f["ty"])}
    # the counters may be bundled in a private struct of their own that the handle shares (`ids: Arc<IdAllocator>`)
    for f in h["variants"][0]["fields"]:
        for path, a in ctx.facts.adts.items():
            if path.startswith("client::") and a["kind"] == "struct" and re.search(r"\b%s\b" % re.escape(path), f["ty"]):
                out |= {g["name"] for g in a["variants"][0]["fields"] if re.search(pat, g["ty"])}
    return out


def _is_counter_bundle(ctx, ty):
    """A private struct of the client layer all of whose fields are atomic integers."""
    a = ctx.facts.adt(re.sub(r"<.*$", "", ty))
    return bool(a) and a["kind"] == "struct" and ty.startswith("client::") and bool(a["variants"][0]["fields"]) and \
        all(re.search(r"atomic::Atomic(U16|U32|<u16>|<u32>)$", g["ty"]) for g in a["variants"][0]["fields"])


@rule("IDALLOC", floor=8)
def idalloc(ctx):
    """I1 every packet identifier handed to a request builder comes from one atomic read-modify-write
    on the shared counter; I2 the value converted with NonZero::try_from(..).unwrap() is provably
    non-zero; I3 the counter is created once (initial value 1) and the identifier setters are not public."""
    out = []
    sites = []
    for name, body in ctx.handle_ops().items():
        for i, t in body.calls(r"client::opts::\w+Opts::packet_identifier$"):
            sites.append((name, body, i, t))
    for name, body, i, t in sites:
        arg = t["ops"][1]
        at = body.atoms(arg)
        rmw = [a[1] for a in at if a[0] == "call" and re.search(r"atomic::Atomic\w*::(fetch_\w+|compare_exchange\w*|swap)$", a[1])]
        loads = [a[1] for a in at if a[0] == "call" and re.search(r"atomic::Atomic\w*::(load|store)$", a[1])]
        ctr_fields = _counter_fields(ctx, 16)
        onctr = any(a[0] == "field" and a[2] in ctr_fields for a in at)
        helper = None
        o = body.origin(arg, through_calls=False)
        if o[0] == "call":
            cb, kind = ctx.world.local_callee_body(o[2])
            if cb is not None:
                helper = cb
                hat = set()
                for j in cb.reach:
                    tt = cb.term(j)
                    if tt["k"] == "call":
                        nm = callee_name(tt) or ""
                        if re.search(r"atomic::Atomic\w*::(fetch_\w+|compare_exchange\w*|swap)$", nm):
                            rmw.append(nm)
                            onctr = onctr or any(a[0] == "field" and a[2] in ctr_fields for a in cb.atoms(tt["ops"][0]))
                        if re.search(r"atomic::Atomic\w*::(load|store)$", nm):
                            loads.append(nm)
        k = "%s#%d" % (name, len([x for x in out if x.key.startswith("IDALLOC:%s#" % name) and x.key.endswith(":rmw")]))
        out.append(Inst("IDALLOC", "%s:rmw" % k, bool(rmw) and not loads and onctr, body.site(i),
                        "identifier from %s on packet_id=%s%s, separate load/store: %s" % (sorted(set(short_ty(x) for x in rmw)), onctr, " (via %s)" % short_ty(helper.path) if helper else "", loads or "none"),
                        "a single atomic read-modify-write on the shared counter (unique across handle clones)"))
        inj, why = identity_of_rmw(ctx, body, arg)
        out.append(Inst("IDALLOC", "%s:injective" % k, inj, body.site(i), "identifier is %s" % why,
                        "the counter value itself (any arithmetic / clamping on it maps two counter values to one identifier)"))
        nz = nonzero_at(ctx, body, arg, i)
        out.append(Inst("IDALLOC", "%s:nonzero" % k, bool(nz[0]), body.site(i), "argument of packet_identifier(): %s" % nz[1],
                        "provably non-zero: NonZero::try_from(id).unwrap() must never panic (wrap-around after 65535 allocations)"))
    # the unwrap sites themselves (opts.rs)
    for f in ctx.facts.find(r"client::opts::\w+Opts::<[^>]*>::packet_identifier$"):
        b = ctx.world.body(f["path"])
        ctx.note(b)
        out.append(Inst("IDALLOC", "%s:setter-private" % short_ty(strip_generics(f["path"]).rsplit("::", 1)[0]), f["vis"] != "pub", b.site(0), "visibility %s" % f["vis"], "callers cannot choose identifiers"))
        for i, t in b.calls(r"(Result|Option)::unwrap$"):
            at = b.atoms(t["ops"][0])
            if any(a[0] == "call" and "TryFrom" in a[1] for a in at):
                pidx = set()
                _collect_env_idx(b, t["ops"][0], pidx, set())
                out.append(Inst("IDALLOC", "%s:unwrap-of-param" % short_ty(strip_generics(f["path"]).rsplit("::", 1)[0]), True, b.site(i),
                                "NonZero::try_from(param %s).unwrap(): obligation passed to every caller (checked above)" % sorted(pidx), "discharged at the call sites"))
    # the option setters hand the identifier to the builder unchanged (conversions only, no arithmetic)
    for f_ in ctx.facts.find(r"client::opts::\w+Opts::<[^>]*>::(packet_identifier|subscription_identifier)$"):
        b = ctx.world.body(f_["path"])
        arith = []
        for i in sorted(b.reach):
            for st in b.blocks[i]["stmts"]:
                if st["k"] == "assign" and st["rv"]["k"] == "bin" and st["rv"]["op"] in ("Rem", "Add", "Sub", "Mul", "Div", "BitAnd", "BitOr", "BitXor", "Shl", "Shr"):
                    if any(a[0] == "param" and a[1] == 2 for a in b.rv_atoms(st["rv"])):
                        arith.append("%s at %s:%d" % (st["rv"]["op"], b.fn["file"], st["line"]))
            t = b.term(i)
            if t["k"] == "call" and re.search(r"(::min|::max|::clamp|wrapping_\w+|saturating_\w+|checked_\w+|::rem_euclid)$", callee_name(t) or ""):
                arith.append("%s at %s" % (short_ty(callee_name(t)), b.site(i)))
        nm_ = short_ty(strip_generics(f_["path"]).rsplit("::", 1)[0]) + "::" + f_["name"]
        out.append(Inst("IDALLOC", "%s:setter-preserves-value" % nm_, not arith, b.site(0), "arithmetic applied to the identifier inside the setter: %s" % (arith or "none"),
                        "the allocated identifier reaches the packet unchanged (distinct counter values stay distinct)"))
    # I3 counter creation
    nb = ctx.body(r"client::context::Context::<[^>]*>::new$")
    # the counter is created in Context::new, or in the constructor of the private struct that bundles the counters
    # (which Context::new calls): all constructions of a 16-bit atomic in the client layer are listed
    init = []
    for f in ctx.facts.fns:
        if not f["file"].startswith("src/client") or "::test" in f["path"]:
            continue
        b = ctx.world.body(f["path"])
        for i, t in b.calls(r"atomic::Atomic|std::convert::From::from$"):
            rs = (t["callee"].get("resolved") or "") + " " + (t["callee"].get("self_ty") or "") + " " + t["callee"]["def"]
            nm_ = (callee_name(t) or "").split("::")[-1]
            if re.search(r"atomic::Atomic(U16|<u16>)", rs) and nm_ in ("new", "from") and t["ops"]:
                init.append((b.site(i), b.fold(t["ops"][0]), f["path"]))
    in_new = [x for x in init if x[2] == nb.path]
    reach_new = in_new or [x for x in init if any((callee_resolved(t) or "") == x[2] or strip_generics(callee_resolved(t) or "") == strip_generics(x[2]) for _, t in nb.calls())]
    out.append(Inst("IDALLOC", "counter-init", [v for _, v, _ in init] == [1] and bool(reach_new), init[0][0] if init else nb.site(0), "AtomicU16 initial values: %s" % [v for _, v, _ in init], "created once, starting at 1"))
    out.append(Inst("IDALLOC", "counter-single", len(init) <= 1, nb.site(0), "%d AtomicU16 construction(s) in client/" % len(init), "one shared counter"))
    # nothing but the allocation itself ever changes a counter: no fetch_sub to "give an identifier back", no store to
    # "start afresh" -- the identifier handed back or skipped belongs to whoever allocated in between
    writers = []
    n_add = 0
    for f in ctx.facts.fns:
        if not f["file"].startswith("src/") or "::test" in f["path"]:
            continue
        b = ctx.world.body(f["path"])
        for i, t in b.calls(r"atomic::Atomic\w*(::<[^>]*>)?::(\w+)$"):
            rs = (t["callee"].get("resolved") or "") + " " + (t["callee"].get("self_ty") or "") + " " + t["callee"]["def"]
            if not re.search(r"Atomic(U16|U32|<u16>|<u32>)", rs):
                continue
            op = (callee_name(t) or "").split("::")[-1]
            if op in ("new", "load", "from", "default", "into_inner", "get_mut", "as_ptr"):
                continue
            if op == "fetch_add" and len(t["ops"]) >= 2 and b.fold(t["ops"][1]) == 1:
                n_add += 1
                continue
            writers.append("%s at %s" % (op, b.site(i)))
    out.append(Inst("IDALLOC", "counter-writers", not writers and n_add >= 1, nb.site(0),
                    "%d fetch_add(1) call(s) on the identifier counters; other writers: %s" % (n_add, writers or "none"),
                    "the counters only ever advance by one per allocation (no fetch_sub / store / swap / compare_exchange anywhere)"))
    return out


# ------------------------------------------------------------------------------------ COMPLETE-ERR

@rule("COMPLETE-ERR", floor=3)
def complete_err(ctx):
    """The context completes an operation with an error in exactly two situations, both in the outbound handler before
    anything is written: the packet exceeds the server's Maximum Packet Size, or the send quota is exhausted. Every
    other way an operation ends in an error is the drop of its channel (-> ContextExited): no other piece of code
    sends `Err(..)` on a response channel (e.g. SocketClosed at end of stream, or an error for a stale waiter)."""
    from effects import effects as _eff
    out = []
    n = 0
    for role, body in ctx.client_units():
        for e in _eff(ctx.world, body, 2, helpers=False):
            if e.kind != "Complete" or e.detail.get("variant") != "Err":
                continue
            pay = e.detail["payload"]
            errs = sorted({a[2] for a in pay if a[0] == "variant" and (a[1] or "").startswith("client::error::")} |
                          {"MaximumPacketSizeExceeded" for a in pay if a[0] == "call" and a[1].endswith("validate_packet_size")})
            ok = role == "outbound" and bool(errs) and set(errs) <= {"MaximumPacketSizeExceeded", "QuotaExceeded"}
            n += 1
            out.append(Inst("COMPLETE-ERR", "%s:%s#%d" % (role, "+".join(errs) or "unrecognised", len([o for o in out if o.key.startswith("COMPLETE-ERR:%s:" % role)])), ok, e.site(),
                            "an operation is completed with Err(%s) in %s" % (", ".join(errs) or "?", role),
                            "only the outbound handler, only MaximumPacketSizeExceeded / QuotaExceeded"))
    return out


# ------------------------------------------------------------------------------------ OWN

LEAKS = re.compile(r"(std::mem::forget|core::mem::forget|ManuallyDrop::<[^>]*>::new|ManuallyDrop::new|Box::leak|Box::into_raw|Rc::new|std::mem::transmute)$")


@rule("OWN", floor=12)
def own(ctx):
    """O1 no leak primitive anywhere in the crate, Arc only around the identifier counters; O2 the
    per-subscription sender is never cloned; O3 the Session collections own their senders directly;
    O5 every handle operation propagates a failed Enqueue with `?` and awaits only its own oneshot
    receiver."""
    out = []
    leaks = []
    arcs = []
    clones = []
    n_calls = 0
    for f in ctx.facts.fns:
        if not f["file"].startswith("src/"):
            continue
        b = ctx.world.body(f["path"])
        for i, t in b.calls():
            n_calls += 1
            nm = callee_name(t) or ""
            if LEAKS.search(nm):
                leaks.append((b, i, nm))
            if nm.endswith("Arc::new"):
                arcs.append((b, i, (t["callee"].get("args") or ["?"])[0]))
            if nm.endswith("Clone::clone"):
                st = (t["callee"].get("self_ty") or "")
                if re.search(r"UnboundedSender<codec::(packet::RxPacket|publish::PublishRx)>", st) or "oneshot::Sender" in st:
                    clones.append((b, i, st))
    ctx.analysed["call_sites"] += n_calls
    out.append(Inst("OWN", "no-leak-primitives", not leaks, leaks[0][0].site(leaks[0][1]) if leaks else "src/", "%d calls scanned; leak primitives: %s" % (n_calls, [(short_ty(n), b.site(i)) for b, i, n in leaks] or "none"),
                    "no mem::forget / ManuallyDrop / Box::leak / Rc around channel endpoints"))
    for b, i, n in leaks:
        out.append(Inst("OWN", "leak:%s:%s" % (short_ty(re.sub(r"<[^<>]*>", "", b.path)), short_ty(n)), False, b.site(i), "call of %s" % n, "none"))
    for b, i, ty in arcs:
        out.append(Inst("OWN", "arc:%s" % short_ty(ty), bool(re.search(r"atomic::Atomic(U16|U32|<u16>|<u32>)$", ty)) or _is_counter_bundle(ctx, ty), b.site(i), "Arc::new::<%s>" % ty, "Arc only around the atomic identifier counters"))
    out.append(Inst("OWN", "sender-never-cloned", not clones, clones[0][0].site(clones[0][1]) if clones else "src/", "clones of completion / stream senders: %s" % ([(st, b.site(i)) for b, i, st in clones] or "none"),
                    "exactly one owner per sender, so dropping the context drops it"))
    closes = []
    for f_ in ctx.facts.fns:
        if not f_["file"].startswith("src/client/"):
            continue
        b = ctx.world.body(f_["path"])
        for i, t in b.calls(r"mpsc::(Unbounded)?(Receiver|Sender)::(close|close_channel|disconnect)$"):
            closes.append((b, i, callee_name(t)))
    out.append(Inst("OWN", "no-explicit-close", not closes, closes[0][0].site(closes[0][1]) if closes else "src/client", "explicit channel close calls: %s" % ([(short_ty(n), b.site(i)) for b, i, n in closes] or "none"),
                    "a subscription stream ends only when the context (its sender) is gone"))
    # the request queue ends when the last handle is dropped: nothing the context owns holds a sending end of it
    held = []
    for a_ in ctx.facts.adts.values():
        if a_["kind"] != "struct" or not a_["path"].startswith("client::context::"):
            continue
        for f_ in a_["variants"][0]["fields"]:
            if re.search(r"ContextHandle|Sender<client::message::ContextMessage>", f_["ty"]):
                held.append("%s.%s: %s" % (a_["path"].split("::")[-1], f_["name"], short_ty(f_["ty"])))
    out.append(Inst("OWN", "context-holds-no-request-sender", not held, "src/client/context.rs", "fields of the context's own structs that hold a sending end of the request queue: %s" % (held or "none"),
                    "run() ends with HandleClosed once every handle is gone: the context itself keeps no handle"))
    # every request a handle queued reaches the loop of run(): nothing else takes messages out of the request queue
    # (a set_up() / connect() that drains "stale" requests drops operations whose callers were told nothing)
    readers = []
    n_run = 0
    for _, ub in ctx.client_units():
        for i in sorted(ub.reach):
            t = ub.term(i)
            if t["k"] != "call" or not t["ops"] or t["ops"][0].get("k") == "const":
                continue
            pl = t["ops"][0]["pl"]
            ty = ub.locals[pl["l"]]["ty"] if not pl["p"] else ""
            if not re.search(r"Receiver<client::message::ContextMessage>", ty) or re.search(r"^(std::|core::)?(mem|ptr)::", callee_name(t) or ""):
                continue
            if re.search(r"::run(::|$)", ub.path):
                n_run += 1
            elif not ub.path.endswith("::new"):
                readers.append("%s at %s" % (short_ty(callee_name(t) or "?"), ub.site(i)))
    out.append(Inst("OWN", "request-queue-read-only-in-run", not readers, "src/client/context.rs", "uses of the receiving end of the request queue outside run(): %s (inside run(): %d)" % (readers or "none", n_run),
                    "a queued request is taken out of the queue by the loop of run() only"))
    sess = ctx.facts.adt(SESSION)
    if not sess:
        raise AnchorLost("Session struct")
    for fld in sess["variants"][0]["fields"]:
        ok = not re.search(r"\b(Arc|Rc|Weak|ManuallyDrop|Box<dyn)\b|&", fld["ty"])
        out.append(Inst("OWN", "session-field:%s" % fld["name"], ok, "src/client/context.rs", fld["ty"], "plain owned collection"))
    cx = ctx.facts.adt("client::context::Context")
    for fld in cx["variants"][0]["fields"]:
        if fld["name"] in ("session", "message_queue"):
            ok = not re.search(r"\b(Arc|Rc|Weak|&)", fld["ty"])
            out.append(Inst("OWN", "context-field:%s" % fld["name"], ok, "src/client/context.rs", fld["ty"], "owned by Context"))
    # O5: once the context is gone a failed enqueue / a cancelled receiver ends the operation with an error: on the
    # Err edge of the test of that result no normal (Ok) return is reachable. Stated on the flattened operation, so it
    # does not matter whether `?` is used, whether the enqueue-and-await lives in a shared helper, or how the awaited
    # value is unwrapped afterwards.
    def err_edge_outcomes(body, is_value):
        """For every switch on the discriminant of a Result that is_value(origin) accepts: (block, kinds of the
        exits reachable from its Err edge)."""
        found = []
        all_exits = exits(ctx, body)
        for d in sorted(body.reach):
            si = body.switch_info(d)
            if not si or si["kind"] != "discr" or si.get("adt") != "std::result::Result":
                continue
            o = body.origin({"pl": si["place"]}, through_calls=False)
            if not is_value(o):
                continue
            err_succ = [bb for v, bb in si["targets"] if v == 1]
            if not err_succ:
                listed = {v for v, _ in si["targets"]}
                err_succ = [si["otherwise"]] if 1 not in listed and si["otherwise"] is not None else []
            for es in err_succ:
                reach = body.reachable_from(es)
                kinds = sorted({x["kind"] for x in all_exits if x["bb"] in reach})
                built = set()
                for x in reach:
                    for st in body.blocks[x]["stmts"]:
                        if st["k"] == "assign" and st["rv"]["k"] == "agg" and (st["rv"].get("adt") or "").startswith("client::error::"):
                            built.add(st["rv"]["adt"].split("::")[-1] + ("::" + st["rv"]["variant"] if st["rv"].get("variant") and st["rv"]["variant"] != st["rv"]["adt"].split("::")[-1] else ""))
                found.append((d, kinds, sorted(built)))
        return found
    for name, body in ctx.handle_ops().items():
        enq = [e for e in ctx.effects(body) if e.kind == "Enqueue"]
        for e in enq:
            outs = err_edge_outcomes(body, lambda o, e=e: o[0] == "call" and o[1] == e.inner_bb)
            prop = bool(outs) and all(k and not ({"ok", "other", "callret"} & set(k)) for _, k, _b in outs)
            out.append(Inst("OWN", "%s:enqueue-propagated@%s" % (name, len([o for o in out if o.key.startswith("OWN:%s:enqueue" % name)])), prop, e.site(),
                            "failed enqueue %s" % ("ends the operation with an error" if prop else "is ignored or may still end in a normal return (exits reachable from the failure: %s)" % [k for _, k, _b in outs]),
                            "fails immediately with ContextExited once the context is gone"))
        # every request that was handed to the context is waited for: no normal return is reachable from the enqueue
        # without passing the await of a response channel (the context's verdict -- refused, written, acknowledged --
        # is what the operation reports)
        rec_polls = [a["poll_bb"] for a in body.awaits()
                     if "oneshot::Receiver" in ((body.term(a["poll_bb"])["callee"].get("self_ty") or "") + " " + (body.term(a["poll_bb"])["callee"].get("resolved") or ""))]
        ok_exits = [x["bb"] for x in exits(ctx, body) if x["kind"] == "ok"]
        for k_, e in enumerate(enq):
            reach = body.reachable_from(e.inner_bb, avoid=rec_polls)
            skipped = sorted(x for x in ok_exits if x in reach)
            out.append(Inst("OWN", "%s:response-awaited@%d" % (name, k_), not skipped and bool(rec_polls), e.site(),
                            "after the request is enqueued %s" % ("every normal return passes the await of a response channel" if not skipped else
                                                                  "a normal return is reachable without awaiting the response: %s" % [body.site(x) for x in skipped][:3]),
                            "the operation reports the context's verdict (MaximumPacketSizeExceeded, QuotaExceeded, the acknowledgement)"))
        for a in body.awaits():
            t = body.term(a["poll_bb"])
            st = (t["callee"].get("self_ty") or "") + " " + (t["callee"].get("resolved") or "")
            if "oneshot::Receiver" in st:
                # Canceled (context gone) must end in an error return, i.e. become ContextExited for the caller
                pd = t["dest"]["l"]

                def awaited(o, pd=pd):
                    if o[0] != "place" or o[1]["l"] != pd:
                        return False
                    pr = [p for p in o[1]["p"] if p != "deref"]
                    return len(pr) == 2 and isinstance(pr[0], dict) and pr[0].get("dc") == "Ready"
                outs = err_edge_outcomes(body, awaited)
                prop = bool(outs) and all(k and not ({"ok", "other", "callret"} & set(k)) for _, k, _b in outs)
                nth = len([o_ for o_ in out if o_.key.startswith("OWN:%s:await-result" % name)])
                out.append(Inst("OWN", "%s:await-result-propagated@%s" % (name, nth), prop, body.site(a["poll_bb"]),
                                "a cancelled receiver %s" % ("always ends the operation with an error (Canceled -> ContextExited)" if prop else "may be reported as success or is not tested (exits reachable from Canceled: %s)" % [k for _, k, _b in outs]),
                                "every operation still pending when the context is dropped completes with ContextExited"))
                # ... and with that error only: nothing else is built on the cancelled edge
                other = sorted({v for _, _k, bs in outs for v in bs if not re.search(r"ContextExited|^MqttError", v)})
                out.append(Inst("OWN", "%s:cancel-is-context-exited@%s" % (name, nth), bool(outs) and not other, body.site(a["poll_bb"]),
                                "on the cancelled edge of the awaited receiver the operation builds %s" % ("only the conversion of Canceled (ContextExited)" if not other else "other errors as well: %s" % other),
                                "a dropped response channel is reported as ContextExited, whatever else is true"))
            ok = "oneshot::Receiver" in st
            out.append(Inst("OWN", "%s:await@%s" % (name, len([o for o in out if o.key.startswith("OWN:%s:await@" % name)])), ok, body.site(a["poll_bb"]),
                            "awaits %s" % (short_ty(t["callee"].get("self_ty") or "?")), "handle operations await nothing but their own oneshot::Receiver"))
    return out


def _feeds(body, call_bb, x):
    """The `?` of residual exit x tests the result of the call in call_bb."""
    if x.get("try_op") is None:
        return False
    o = body.origin(x["try_op"], through_calls=False)
    return o[0] == "call" and o[1] == call_bb


# ------------------------------------------------------------------------------------ RESUME

@rule("RESUME-PAIR", floor=3)
def resume_pair(ctx):
    """R1: every class of entry pushed to the retransmission queue (QoS 1 PUBLISH, QoS 2 PUBLISH,
    PUBREL) is removed, by key, in the arm of the acknowledgement that finishes it (PUBACK, PUBREC,
    PUBCOMP)."""
    hm = ctx.outbound_handler()
    hp = ctx.inbound_handler()
    guards = type_guards(ctx, hm)
    effs = ctx.effects(hm)
    pushes = [e for e in effs if e.kind == "Push" and "retrasmit_queue" in e.detail["fields"]]
    classes = set()
    out = []
    rel = ctx.spec("acks")["retransmit_release"]
    from outpaths import ArmPaths
    ap = ArmPaths(ctx, hm, "AwaitAck")
    for e in pushes:
        # the packet types for which a path reaches this push (path-sensitive: the type may be tested around it)
        regs = ap.class_of_block(e.bb)
        for reg in regs:
            if reg == "PUBLISH":
                classes |= {"Puback", "Pubrec"}
            elif reg == "PUBREL":
                classes |= {"Pubcomp"}
            else:
                out.append(Inst("RESUME-PAIR", "push:unclassified", False, e.site(), "push to retrasmit_queue on a path of packet class %s" % reg, "only unfinished handshakes (PUBLISH, PUBREL) are stored"))
        if not regs:
            out.append(Inst("RESUME-PAIR", "push:unclassified", False, e.site(), "push to retrasmit_queue outside the acknowledged-request arm", "only unfinished handshakes are stored"))
        keyok = any(a[0] == "field" and a[2] == "action_id" for a in set().union(*e.detail["args"]))
        out.append(Inst("RESUME-PAIR", "push:%s:keyed" % "+".join(regs), keyok, e.site(), "stored under msg.action_id=%s" % keyok, "stored under the key the acknowledgement will carry"))
    # every PUBLISH / PUBREL that was written and registered is also stored
    okp = lambda p: exit_kind(hm, p) == "ok"
    for cls in ("PUBLISH", "PUBREL"):
        regs_ = [e for e in effs if e.kind == "Push" and "awaiting_ack" in e.detail["fields"] and cls in ap.class_of_block(e.bb)]
        for r_ in regs_:
            hold, n = ap.followed_by(cls, r_.bb, {e.bb for e in pushes}, only_ok=okp)
            hold2, n2 = ap.precedes(cls, {e.bb for e in pushes}, r_.bb)
            out.append(Inst("RESUME-PAIR", "stored-when-registered:%s" % cls, (hold or hold2) and (n + n2) > 0, r_.site(),
                            "on every %s path that registers the waiter the packet is also stored for retransmission: %s" % (cls, hold or hold2), "an unfinished handshake is always stored"))
    sw, arms, otherwise, other_vs, _ = match_arms(hp, RXPACKET)
    rems = [e for e in ctx.effects(hp) if e.kind == "Remove" and "retrasmit_queue" in e.detail["fields"]]
    rem_arms = {}
    from r_quota import _refine_other
    for e in rems:
        arm = arm_of(hp, arms, otherwise, e.bb)
        if arm == "otherwise":
            arm = _refine_other(hp, e.bb, other_vs, ctx)
        keyed = e.detail["how"] == "keyed" and any(a[0] == "call" and a[1].endswith("rx_action_id") for a in e.detail["recv"] | set().union(*e.detail["args"]) if True)
        for arm1 in str(arm).split("|"):      # a body shared by `A | B` patterns belongs to both arms
            rem_arms.setdefault(arm1, []).append((e, keyed))
    for c in sorted(classes):
        got = rem_arms.get(c)
        if not got:
            out.append(Inst("RESUME-PAIR", "ack=%s:no-removal" % c, False, hp.site(arms.get(c, otherwise)),
                            "%s finishes a stored %s but nothing removes it from the retransmission queue: it would be re-sent although acknowledged" % (c.upper(), rel[c]),
                            "keyed Remove(retrasmit_queue) in the %s arm" % c))
        else:
            e, keyed = got[0]
            out.append(Inst("RESUME-PAIR", "ack=%s:removes" % c, True, e.site(), "%s removes the stored %s" % (c, rel[c]), ""))
            # whatever the acknowledgement says: a refused PUBLISH (reason >= 0x80) is finished too. Looked at for this
            # kind of packet: a test that is decided by the kind alone (a flag of a per-kind table) is no dependence.
            from spec import variant_specs
            sp_ = variant_specs(ctx, hp, RXPACKET, sw).get(c)
            dep = []
            unconditional = False

            def _reason_tests(e_):
                found = []
                for (d, s_) in hp.control_dep_closure(e_.inner_bb if not e_.via else e_.bb):
                    t_ = hp.term(d)
                    if t_["k"] != "switch":
                        continue
                    if sp_ is not None and d in sp_.reach and len([x for x in hp.succ(d) if (d, x) in sp_.edges]) <= 1:
                        continue
                    si_ = hp.switch_info(d)
                    ats = hp.atoms_deep({"pl": si_["place"]}) if si_ and si_["kind"] == "discr" else (hp.atoms_deep(t_["op"]) if t_["op"].get("k") != "const" else set())
                    if any(a[0] == "field" and a[2] == "reason" for a in ats):
                        found.append(hp.site(d))
                return found
            import contextlib
            with (sp_.pinned() if sp_ is not None else contextlib.nullcontext()):
                for e_, _k in got:
                    r_ = _reason_tests(e_)
                    dep += r_
                    if not r_:
                        unconditional = True
            out.append(Inst("RESUME-PAIR", "ack=%s:removal-independent-of-reason" % c, unconditional, e.site(),
                            "removal of the stored %s %s" % (rel[c], "does not depend on the reason code" if unconditional else "depends on the reason code tested at %s" % sorted(set(dep))),
                            "acknowledged is acknowledged: nothing that was answered is re-sent on resume"))
    for a in sorted(set(rem_arms) - classes):
        out.append(Inst("RESUME-PAIR", "ack=%s:unexpected-removal" % a, False, rem_arms[a][0][0].site(), "removal from retrasmit_queue in arm %s" % a, "only PUBACK/PUBREC/PUBCOMP finish a stored packet"))
    return out


@rule("RESUME-EXPIRY", floor=3)
def resume_expiry(ctx):
    """R2: session_expired returns true iff the interval is 0, false if it is u32::MAX, otherwise
    `elapsed > interval` (or >=)."""
    b = ctx.body(r"client::context::Context::<[^>]*>::session_expired$")
    out = []
    isint = field_pred(b, "session_expiry_interval")
    rows = []
    for i in sorted(b.reach):
        for st in b.blocks[i]["stmts"]:
            if st["k"] != "assign" or st["lhs"]["l"] != 0 or st["lhs"]["p"]:
                continue
            rv = st["rv"]
            conds = []
            for (d, s_) in dominating_edges(b, i):
                c = Cond(b, d)
                n = c.cmp_norm(isint)
                if n:
                    truth = c.holds_on(s_)
                    k = b.fold(n[1])
                    conds.append((n[0] if truth else {"Eq": "Ne", "Ne": "Eq"}.get(n[0], "!" + n[0]), k))
                conds.extend(int_switch_facts(b, d, s_, isint))
            site = "%s:%d" % (b.fn["file"], st["line"])
            if rv["k"] == "use" and rv["op"].get("k") == "const":
                rows.append((tuple(conds), rv["op"]["val"], site))
            elif rv["k"] == "bin":
                # normalise with the interval on the left
                op = rv["op"]
                if isint(rv["a"]) and not isint(rv["b"]):
                    nop, other = op, rv["b"]
                elif isint(rv["b"]):
                    nop, other = {"Lt": "Gt", "Gt": "Lt", "Le": "Ge", "Ge": "Le"}.get(op, op), rv["a"]
                else:
                    nop, other = "?", None
                el = other is not None and any(a[0] == "call" and ("elapsed" in a[1] or "duration_since" in a[1]) or a[0] == "closure" for a in b.atoms(other))
                rows.append((tuple(conds), ("cmp", nop, el), site))
            else:
                rows.append((tuple(conds), ("?",), site))
    zero = [r for r in rows if ("Eq", 0) in r[0]]
    out.append(Inst("RESUME-EXPIRY", "interval==0", len(zero) == 1 and zero[0][1] is True, zero[0][2] if zero else b.site(0), "interval == 0 -> %s" % (zero[0][1] if zero else "not tested"), "expired"))
    mx = [r for r in rows if ("Eq", 4294967295) in r[0]]
    out.append(Inst("RESUME-EXPIRY", "interval==MAX", len(mx) == 1 and mx[0][1] is False, mx[0][2] if mx else b.site(0), "interval == u32::MAX -> %s" % (mx[0][1] if mx else "not tested"), "never expires"))
    gen = [r for r in rows if isinstance(r[1], tuple) and r[1][0] == "cmp"]
    okg = len(gen) == 1 and gen[0][1][1] in ("Lt", "Le") and gen[0][1][2]
    out.append(Inst("RESUME-EXPIRY", "general:%s" % ("interval %s elapsed" % gen[0][1][1] if gen else "missing"), bool(okg), gen[0][2] if gen else b.site(0),
                    "otherwise returns `interval %s elapsed` (elapsed derived from the disconnection timestamp=%s)" % ((gen[0][1][1], gen[0][1][2]) if gen else ("?", "?")),
                    "expired iff elapsed > interval (interval < elapsed, or <=)"))
    return out


@rule("RESUME-ORDER", floor=6)
def resume_order(ctx):
    """R3/R5/R6: in run() the replay happens only on a reconnect, before the select loop, preceded by
    reset_session exactly when the session expired; retransmit writes the stored bytes front to back,
    awaiting each write; reset_session clears every collection; set_up/connect never touch the session."""
    run = ctx.run_body()        # flattened: the replay helper(s) are inlined, whatever they are called
    out = []
    effs = ctx.effects(run)
    w = [e for e in effs if e.kind == "TxWrite" and any(a[0] == "field" and a[1] == SESSION and a[2] == "retrasmit_queue" for a in e.detail["buf"])]
    if len(w) != 1:
        raise AnchorLost("exactly one write of the stored packets (Session.retrasmit_queue) in run (found %d)" % len(w))
    rtb = w[0].inner_bb

    def edge_truth(c, s_):
        t = c.holds_on(s_)
        return None if t is None else (t ^ bool(c.neg))

    def is_reconnect_test(c):
        if c.kind == "call" and (c.callee or "").endswith("is_reconnect"):
            return True
        if c.kind == "call" and c.callee in ("is_some", "is_none"):
            return any(a[0] == "field" and a[2] == "disconnection_timestamp" for x in c.args for a in run.atoms(x))
        return False
    # dominated by the edge on which this is a reconnect
    on_reconnect = False
    for (d, s_) in dominating_edges(run, rtb):
        c = Cond(run, d)
        if is_reconnect_test(c):
            t = edge_truth(c, s_)
            if c.kind == "call" and c.callee == "is_none":
                t = None if t is None else not t
            if t is True:
                on_reconnect = True
    out.append(Inst("RESUME-ORDER", "replay-only-on-reconnect", on_reconnect, run.site(rtb), "the replay write %s dominated by the edge on which is_reconnect holds" % ("is" if on_reconnect else "is NOT"), "nothing is re-sent on a first connection"))
    # before the select loop: the replay write is not reachable from any await of the select
    comp = run.completion_of(rtb)
    sel = [a for a in run.awaits() if "PollFn" in ((run.term(a["poll_bb"])["callee"].get("self_ty") or "") + (run.term(a["poll_bb"])["callee"].get("resolved") or ""))]
    ok = comp is not None and bool(sel) and all(not run.reachable_from(a["poll_bb"]) & {rtb} for a in sel) and all(a["poll_bb"] in run.reachable_from(rtb) for a in sel)
    out.append(Inst("RESUME-ORDER", "replay-before-new-traffic", ok, run.site(rtb), "the replay is awaited before the select loop and is not reachable from it: %s" % ok, "replay before any new traffic"))
    # the session is reset exactly on the edge on which it has expired, before the replay
    rs = list(run.calls(r"Context::reset_session$"))
    clears = [e for e in effs if e.kind == "Clear" and e.detail["fields"]]
    # every place where run() empties the session: calls of the reset helper and clears written out in run() itself
    reset_bbs = sorted({i for i, _ in rs} | {e.bb for e in clears if not e.via})
    unguarded = []
    for rb in reset_bbs:
        g = False
        for (d, s_) in run.control_dep_closure(rb):
            c = Cond(run, d)
            if c.kind == "call" and (c.callee or "").endswith("session_expired") and edge_truth(c, s_) is True:
                g = rtb in run.reachable_from(rb) and rb not in run.reachable_from(rtb)
        if not g:
            unguarded.append(run.site(rb))
    okr = bool(reset_bbs) and not unguarded
    out.append(Inst("RESUME-ORDER", "reset-iff-expired", okr, run.site(reset_bbs[0]) if reset_bbs else run.site(0),
                    "the session is emptied at %d place(s) of run(), each on the true edge of session_expired before the replay: %s%s" % (len(reset_bbs), okr, "; not so at %s" % sorted(set(unguarded)) if unguarded else ""),
                    "expired session: nothing re-sent, abandoned operations fail; a live session is never emptied"))
    # the replay loop
    loop_blocks = {b_ for b_ in run.reach if rtb in run.reachable_from(b_) and b_ in run.reachable_from(rtb)} | {rtb}
    before = {b_ for b_ in run.reach if rtb in run.reachable_from(b_)}
    it = [(i, t) for i, t in run.calls(r"(VecDeque::iter|IntoIterator::into_iter)$") if i in before and any(a[0] == "field" and a[2] == "retrasmit_queue" for a in run.atoms(t["ops"][0]))]
    rev = [(i, t) for i, t in run.calls(r"(Iterator::rev|DoubleEndedIterator::next_back|Iterator::skip|Iterator::filter|Iterator::take|Iterator::step_by|Iterator::skip_while|Iterator::take_while)$")
           if i in before and any(a[0] == "field" and a[2] == "retrasmit_queue" for x in t["ops"] for a in run.atoms(x))]
    # `for x in q.iter()` desugars to into_iter(iter(q)): an into_iter over an iterator already counted is not a second one
    it = [(i, t) for i, t in it if not any(a[0] == "call" and re.search(r"(VecDeque::<[^>]*>::iter|VecDeque::iter)$", strip_generics(a[1]) if "<" in a[1] else a[1]) for a in run.atoms(t["ops"][0])) or (callee_name(t) or "").endswith("VecDeque::iter")]
    okw = len(it) == 1 and not rev and comp is not None and len(loop_blocks) > 1
    muts = buffer_like_mutations(run)
    out.append(Inst("RESUME-ORDER", "replay-front-to-back", okw and not muts, run.site(rtb),
                    "replay writes=%d iterators over the queue=%d reordering adaptors=%d awaited=%s inside a loop=%s mutations=%s" % (len(w), len(it), len(rev), comp is not None, len(loop_blocks) > 1, muts or "none"),
                    "every stored packet, original order, bytes unchanged, each write awaited"))
    # every stored packet is written: inside the loop nothing but the iteration itself decides whether the write happens
    cond_w = []
    for (d, s_) in run.control_dep_closure(rtb):
        if d not in loop_blocks:
            continue
        si_ = run.switch_info(d)
        ats_ = run.atoms({"k": "copy", "pl": si_["place"]}) if si_ and si_["kind"] == "discr" else (run.atoms(run.term(d)["op"]) if run.term(d)["k"] == "switch" and run.term(d)["op"].get("k") != "const" else set())
        if si_ and si_["kind"] == "discr" and si_.get("adt") == "std::option::Option" and any(a[0] == "call" and re.search(r"Iterator>?::next$", a[1]) for a in ats_):
            continue
        # the outcome of the previous write (still pending; failed: the replay stops with that error)
        if si_ and si_["kind"] == "discr" and si_.get("adt") in ("std::task::Poll", "std::result::Result", "std::ops::ControlFlow") \
                and any(a[0] == "call" and re.search(r"TxPacketStream(<[^>]*>)?::write", a[1]) for a in ats_):
            continue
        if run.term(d)["k"] != "switch":
            continue
        cond_w.append(run.site(d))
    out.append(Inst("RESUME-ORDER", "replay-unconditional", not cond_w, run.site(rtb),
                    "the replay write %s" % ("is decided by the iteration alone" if not cond_w else "also depends on the test(s) at %s" % sorted(set(cond_w))),
                    "every stored packet is re-sent (what must not be re-sent was removed from the queue when it was acknowledged)"))
    # R5: what the reset clears (a helper, or the statements themselves inside run)
    cleared = set()
    rs_fn = ctx.facts.find(r"client::context::Context::<[^>]*>::reset_session$")
    if rs_fn:
        rsb = ctx.world.body(rs_fn[0]["path"])
        for e in effects(ctx.world, rsb, 1):
            if e.kind == "Clear":
                cleared |= e.detail["fields"]
        rsite = rsb.site(0)
    else:
        for e in clears:
            cleared |= e.detail["fields"]
        rsite = clears[0].site() if clears else run.site(0)
    sess = ctx.facts.adt(SESSION)
    def _is_queue(ty):
        if "VecDeque" in ty or re.match(r"std::vec::Vec<", ty):
            return True
        a_ = ctx.facts.adt(ty)         # a queue wrapped in a private newtype (`struct UnreleasedIds(VecDeque<u16>)`)
        return a_ is not None and a_["kind"] == "struct" and len(a_["variants"][0]["fields"]) == 1 and "VecDeque" in a_["variants"][0]["fields"][0]["ty"]
    allf = {f["name"] for f in sess["variants"][0]["fields"] if _is_queue(f["ty"])}
    out.append(Inst("RESUME-ORDER", "reset-clears-all", cleared == allf, rsite, "cleared %s of %s" % (sorted(cleared), sorted(allf)), "abandoned operations fail instead of hanging (their senders are dropped)"))
    # R6
    for nm in ("set_up", "connect", "authorize"):
        b = ctx.coroutine(r"client::context::Context::<[^>]*>::" + nm) if nm != "set_up" else ctx.body(r"client::context::Context::<[^>]*>::set_up$")
        touched = [e for e in effects(ctx.world, b, 2) if e.kind in ("Push", "Remove", "Clear", "OtherDeque") and e.detail["fields"]]
        sf = [1 for i in b.reach for st in b.blocks[i]["stmts"] if st["k"] == "assign" and any(a == SESSION for a, n in place_fields(st["lhs"]))]
        out.append(Inst("RESUME-ORDER", "%s-keeps-session" % nm, not touched and not sf, b.site(0), "session mutations in %s: %d" % (nm, len(touched) + len(sf)), "original futures complete on the new connection"))
    return out


def buffer_like_mutations(body):
    out = []
    for i in sorted(body.reach):
        for st in body.blocks[i]["stmts"]:
            if st["k"] == "assign" and "deref" in st["lhs"]["p"] and st["lhs"]["l"] > body.fn["arg_count"] and st["lhs"]["p"][-1] == "deref":
                at = body.atoms({"l": st["lhs"]["l"], "p": []})
                if any(a[0] == "field" and a[2] == "retrasmit_queue" for a in at):
                    out.append("%s:%d" % (body.fn["file"], st["line"]))
    return out


# ------------------------------------------------------------------------------------ HANDLE-ERRS

CONTEXT_VERDICTS = ("QuotaExceeded", "MaximumPacketSizeExceeded", "SocketClosed", "HandleClosed", "Disconnected", "InternalError")


@rule("HANDLE-ERRS", floor=5)
def handle_errs(ctx):
    """A handle operation decides nothing about the connection by itself: the errors it builds on its own are the
    refusal of a malformed request (codec errors from the builders), ContextExited (its channel ends are gone) and the
    error that reports a failing reason code of the acknowledgement it received. QuotaExceeded, MaximumPacketSizeExceeded,
    SocketClosed, HandleClosed and Disconnected are verdicts of the context: they reach the caller only through the
    operation's own response channel. (An operation that answers from a copy of context state keeps answering from it
    after the context is gone, instead of failing with ContextExited.)"""
    out = []
    for name, body in sorted(ctx.handle_ops().items()):
        built = []
        for i in sorted(body.reach):
            for st in body.blocks[i]["stmts"]:
                if st["k"] == "assign" and st["rv"]["k"] == "agg" and re.match(r"client::error::(\w+)$", st["rv"].get("adt") or ""):
                    nm = st["rv"]["adt"].split("::")[-1]
                    if nm in CONTEXT_VERDICTS:
                        built.append((nm, "%s:%d" % (body.fn["file"], st["line"])))
                elif st["k"] == "assign" and st["rv"]["k"] == "agg" and st["rv"].get("adt") == "client::error::MqttError" and st["rv"].get("variant") in CONTEXT_VERDICTS:
                    built.append((st["rv"]["variant"], "%s:%d" % (body.fn["file"], st["line"])))
        out.append(Inst("HANDLE-ERRS", "%s:no-context-verdict" % name, not built, built[0][1] if built else body.site(0),
                        "%s() builds %s by itself" % (name, sorted({b_[0] for b_ in built}) if built else "no error that is the context's to give"),
                        "QuotaExceeded / MaximumPacketSizeExceeded / SocketClosed / HandleClosed / Disconnected come from the context, through the response channel"))
    return out
