"""Property -> rules table (DESIGN §4.0)."""

RULE_MODULES = ["r_ack", "r_quota", "r_key"]

TRUST = [
    "rustc nightly builds mir_built faithfully from the working tree (same front end as the real build)",
    "futures::channel semantics: oneshot::Sender::send consumes the sender; dropping a sender cancels the receiver; mpsc is FIFO",
    "MQTT 5 tables in /verif/spec transcribed correctly from the OASIS standard",
]

PROPS = {
    "C05": {
        "rules": ["KEY", "LOOKUP", "FIFO", "REGISTRATION", "MSGKIND"],
        "explanation": "Static rules over MIR: KEY (symbolic key expressions of tx_action_id / rx_action_id agree per request->acknowledgement pair of the standard, injective bit layout), "
                       "LOOKUP (every completion is sent on the sender removed at linear_search_by_key(awaiting_ack, rx_action_id(same packet))), FIFO (who may mutate Session collections and how), "
                       "REGISTRATION (per-path: written => exactly one registration; refused => none), MSGKIND (message kind / key / channel per handle operation).",
        "not_decided": "the claim over all interleavings of polls and acknowledgements as executions; the rules establish the keyed lookup discipline that makes order irrelevant",
        "assumptions": TRUST,
    },
    "C08": {
        "rules": ["ACK-TABLE", "ACK-BODY", "ACK-CTRL", "ACK-COUNT"],
        "explanation": "Per-path effect count and control-dependence analysis of the inbound handler's PUBLISH and PUBREL arms on MIR: reply table, identifier provenance, "
                       "acknowledgement decisions may depend only on packet type / QoS / packet identifier, exactly the prescribed acknowledgement on every normal path, one write per ack().",
        "not_decided": "nothing material: the property is a per-path effect count in one handler (wire order follows from acknowledgements being awaited in place by the single context task)",
        "assumptions": TRUST,
    },
    "C09": {
        "rules": ["Q2DEDUP", "ACK-TABLE"],
        "explanation": "Necessary structural condition on MIR: delivery of an inbound QoS 2 PUBLISH must be control dependent on a membership test of Session-owned state keyed by the packet identifier, "
                       "with add on first delivery and removal in the PUBREL arm; PUBREC/PUBCOMP reply table.",
        "not_decided": "history-level exactness of the set once it exists (beyond the add/test/remove discipline)",
        "assumptions": TRUST,
    },
    "C10": {
        "rules": ["QUOTA-WRITERS", "QUOTA-DEC", "QUOTA-INC"],
        "explanation": "Who-may-write and guarded-arithmetic rules over Connection.send_quota on MIR: writers, decrement guarded by F != 0 with a refusing F == 0 edge, one decrement before every PUBLISH write, "
                       "increments bounded by F < M, set of releasing acknowledgements = {PUBACK, PUBCOMP, PUBREC >= 0x80}, release independent of lookup/delivery.",
        "not_decided": "numeric claim over concrete long histories (follows from the invariant F + outstanding = M implied by the rules, not separately explored)",
        "assumptions": TRUST,
        "arith_rules": [],
    },
    "C12": {
        "rules": ["MAXSIZE-PRED", "MAXSIZE-FIRST", "MAXSIZE-SOURCE"],
        "explanation": "Decision table of validate_packet_size by path enumeration (accept iff absent or len <= max), dominance of the size check over every effect in each outbound arm, "
                       "effect-freedom of the refusing edge, identity of checked and written slice, single source of the limit (CONNACK).",
        "not_decided": "that L is the encoder's true output length (C01)",
        "assumptions": TRUST,
    },
}
