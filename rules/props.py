"""Property -> rules table (DESIGN §4.0)."""

RULE_MODULES = ["r_ack", "r_quota", "r_key", "r_exits", "r_flow", "r_poll", "r_panic", "r_codec_tx", "r_codec_rx", "r_more"]

TRUST = [
    "rustc nightly builds mir_built faithfully from the working tree (same front end as the real build)",
    "futures::channel semantics: oneshot::Sender::send consumes the sender; dropping a sender cancels the receiver; mpsc is FIFO",
    "MQTT 5 tables in /verif/spec transcribed correctly from the OASIS standard",
]

PROPS = {
    "C05": {
        "rules": ["KEY", "LOOKUP", "FIFO", "REGISTRATION", "MSGKIND", "IDALLOC", "RSP-VARIANT", "SHORTFORM-EXACT", "THRESH", "HANDSHAKE-QOS2", "BUFFERED", "FRAMER-FRESH", "REPARSE", "MINHDR", "ACCUMULATE", "PROPLEN-GUARD", "HANDSHAKE-DUP", "REASONS"],
        "filters": {"REASONS": r"Puback|Pubrec|Pubcomp|Suback|Unsuback|floor", "IDALLOC": r":rmw|:injective|floor", "SHORTFORM-EXACT": r"AckRx|floor", "THRESH": r"ContextHandle|floor", "HANDSHAKE-QOS2": r"pubrel-after-good|pubrel-always|floor",
                    "ACCUMULATE": r"Suback|Unsuback|AckRx|floor"},
        "explanation": "Static rules over MIR: KEY (symbolic key expressions of tx_action_id / rx_action_id agree per request->acknowledgement pair of the standard, injective bit layout), "
                       "LOOKUP (every completion is sent on the sender removed at linear_search_by_key(awaiting_ack, rx_action_id(same packet))), FIFO (who may mutate Session collections and how), "
                       "REGISTRATION (per-path: written => exactly one registration; refused => none), MSGKIND (message kind / key / channel per handle operation), "
                       "THRESH / HANDSHAKE-QOS2 on the publish operation (an acknowledgement below 0x80 is a success: QoS 2 goes on to PUBREL / PUBCOMP, i.e. completes on the acknowledgement of its own type). PROPLEN-GUARD for the acknowledgement decoders; HANDSHAKE-DUP (the context rewrites nothing but the DUP bit of a stored packet: the bytes the key was computed from are the bytes sent).",
        "not_decided": "the claim over all interleavings of polls and acknowledgements as executions; the rules establish the keyed lookup discipline that makes order irrelevant",
        "assumptions": TRUST,
    },
    "C08": {
        "rules": ["ACK-TABLE", "ACK-BODY", "ACK-CTRL", "ACK-COUNT", "WRITE", "BUFFERED", "FRAMER-FRESH", "REPARSE", "MINHDR", "REPEATABLE", "HANDLER-AWAITS", "PROPLEN-GUARD", "LM", "DECODE-ERR-CAUSE", "MANDATORY"],
        "filters": {"WRITE": r"asyncwrite|write_all|site:ack|floor", "REPEATABLE": r"PublishRx|floor"},
        "explanation": "Per-path effect count and control-dependence analysis of the inbound handler's PUBLISH and PUBREL arms on MIR: reply table, identifier provenance, "
                       "acknowledgement decisions may depend only on packet type / QoS / packet identifier, exactly the prescribed acknowledgement on every normal path, one write per ack(). The handlers of the context task await nothing but transport writes; no bounded channel towards the application exists (HANDLER-AWAITS). LM for AckTx (the acknowledgement on the wire is as long as its Remaining Length says); FRAMER-FRESH reset-outside-set_up (packets that arrived with the CONNACK are still acknowledged); DECODE-ERR-CAUSE / MANDATORY / PROPLEN-GUARD (a well-formed PUBLISH is decoded, hence acknowledged).",
        "not_decided": "nothing material: the property is a per-path effect count in one handler (wire order follows from acknowledgements being awaited in place by the single context task)",
        "assumptions": TRUST,
    },
    "C09": {
        "rules": ["Q2DEDUP", "ACK-TABLE", "ACK-COUNT", "ACK-CTRL", "FIFO", "ADAPTER", "BUFFERED", "FRAMER-FRESH", "REPARSE", "MINHDR", "DISPATCH", "LM"],
        "filters": {"DISPATCH": r"key-from-packet-only|floor", "FIFO": r"unreleased|floor", "ACK-COUNT": r"arm=Publish|floor", "ACK-CTRL": r"Pubrec|floor"},
        "explanation": "Necessary structural condition on MIR: delivery of an inbound QoS 2 PUBLISH must be control dependent on a membership test of Session-owned state keyed by the packet identifier, "
                       "with add on first delivery and removal in the PUBREL arm, record and delivery before any suspension point; PUBREC/PUBCOMP reply table; a re-delivery is still answered with PUBREC (ACK-COUNT / ACK-CTRL of the PUBLISH arm). The release of the identifier does not depend on the PUBREL's reason code (Q2DEDUP release-independent-of-reason). DISPATCH key-from-packet-only (a re-delivery whose identifier was filtered out is not re-routed by a fallback key); LM for AckTx.",
        "not_decided": "history-level exactness of the set once it exists (beyond the add/test/remove discipline)",
        "assumptions": TRUST,
    },
    "C10": {
        "rules": ["QUOTA-WRITERS", "QUOTA-DEC", "QUOTA-INC", "FIRST-RESPONSE", "DEFAULTS", "SHORTFORM-EXACT", "HANDSHAKE-QOS2", "BUFFERED", "FRAMER-FRESH", "REPARSE", "MINHDR", "DECODE-BE", "HANDLE-ERRS", "FULLFORM", "RESUME-QUOTA"],
        "filters": {"HANDLE-ERRS": r"publish|floor", "FULLFORM": r"ConnackRx|floor", "FIRST-RESPONSE": r"handle_connack-first|floor", "DEFAULTS": r"ReceiveMaximum|receive_maximum|floor", "SHORTFORM-EXACT": r"AckRx|floor", "HANDSHAKE-QOS2": r"pubrel-always|pubrel-after-good|floor"},
        "explanation": "Who-may-write and guarded-arithmetic rules over Connection.send_quota on MIR: writers, decrement guarded by F != 0 with a refusing F == 0 edge, one decrement before every PUBLISH write, "
                       "increments bounded by F < M, set of releasing acknowledgements = {PUBACK, PUBCOMP, PUBREC >= 0x80}, release independent of lookup/delivery. R is written by handle_connack only, from the CONNACK's Receive Maximum and nothing else (no other field, constant, min / max) (QUOTA-WRITERS M-only-from-connack); a handle operation never builds QuotaExceeded by itself (HANDLE-ERRS); CONNACK is decoded to its end (FULLFORM). RESUME-QUOTA: nothing records a disconnection on this tree, so the replay cannot run; as soon as something does, the replay must account for the slots of what it re-sends.",
        "not_decided": "numeric claim over concrete long histories (follows from the invariant F + outstanding = M implied by the rules, not separately explored)",
        "assumptions": TRUST,
        "arith_rules": [],
    },
    "C12": {
        "rules": ["MAXSIZE-PRED", "MAXSIZE-FIRST", "MAXSIZE-SOURCE", "FIRST-RESPONSE", "WRITE", "DECODE-BE", "OWN", "HANDLE-ERRS", "FULLFORM"],
        "filters": {"HANDLE-ERRS": r"no-context-verdict|floor", "FULLFORM": r"ConnackRx|floor", "FIRST-RESPONSE": r"handle_connack-first|floor", "WRITE": r"asyncwrite|write_all|floor", "DECODE-BE": r"u32|floor", "OWN": r"response-awaited|await-result-propagated|floor"},
        "explanation": "Decision table of validate_packet_size by path enumeration (accept iff absent or len <= max), dominance of the size check over every effect in each outbound arm, "
                       "effect-freedom of the refusing edge, identity of checked and written slice, single source of the limit (CONNACK). The stored limit is the announced value or none, never a constant standing in for 'no limit' (MAXSIZE-SOURCE source-pure); a packet handed to the transport in pieces is split losslessly (WRITE write_all-pieces); a handle operation never builds MaximumPacketSizeExceeded by itself (HANDLE-ERRS).",
        "not_decided": "that L is the encoder's true output length (C01)",
        "assumptions": TRUST,
    },
    "C06": {
        "rules": ["HANDSHAKE-DUP", "HANDSHAKE-QOS2", "THRESH", "MSGKIND", "QUOTA-DEC", "SHORTFORM-EXACT", "LOOKUP", "ENCODE-ONCE", "BUFFERED", "FRAMER-FRESH", "REPARSE", "MINHDR", "WRITE", "LM-PRIM", "KEY", "PROPLEN-GUARD", "REASONS", "RESUME-ORDER", "OWN"],
        "filters": {"OWN": r"request-queue-read-only-in-run|floor", "REASONS": r"Puback|Pubrec|Pubcomp|floor", "RESUME-ORDER": r"replay-front-to-back|replay-only-on-reconnect|anchor-lost|floor", "QUOTA-DEC": r"quota-read-only-for-publish|zero-edge-refuses|floor", "SHORTFORM-EXACT": r"AckRx|floor", "ENCODE-ONCE": r"publish|floor", "WRITE": r"asyncwrite|write_all|floor",
                    "LM-PRIM": r"UTF8String|Payload|Binary|NonZero|u16|floor"},
        "explanation": "Dominance rules on MIR: the DUP bit is set on the stored copy only (after the completed first write, before the push to the retransmission queue), the PUBREL identifier derives from the received PUBREC, "
                       "the PUBREL enqueue is dominated by the Continue edge of the `?` over the PUBREC reason check, QoS 0 completes after its write, reason thresholds are exactly 0x80 with Err on the failing side, one PUBLISH enqueue per QoS branch. KEY (the exchange key keeps every bit of the packet identifier: shifts happen on the widened value). PROPLEN-GUARD (an acknowledgement with long properties is decoded, not refused).",
        "not_decided": "interleavings with other operations and delayed polling between the two QoS 2 phases (schedules); content equality of topic/payload (C01)",
        "assumptions": TRUST,
    },
    "C07": {
        "rules": ["SUBREG", "DISPATCH", "ADAPTER", "FIFO", "MULTI", "OWN", "IDALLOC", "UPROPS", "ACCUMULATE", "REPEATABLE", "Q2DEDUP", "BUFFERED", "FRAMER-FRESH", "REPARSE", "MINHDR", "HANDLER-AWAITS", "DECODE-ERR-CAUSE", "MANDATORY"],
        "filters": {"HANDLER-AWAITS": r"inbound|bounded-channel|floor", "MULTI": r"PublishRx", "OWN": r"no-explicit-close|sender-never-cloned|floor", "IDALLOC": r"subscription_identifier|floor", "ACCUMULATE": r"PublishRx|floor", "REPEATABLE": r"PublishRx|floor",
                    "Q2DEDUP": r"independent-of-dup|deliver-guarded|deliver-unguarded|deliver-before-suspension|floor"},
        "explanation": "Registration of (subscription identifier, stream) on every path that writes the SUBSCRIBE; delivery receiver = keyed lookup by the received subscription identifier; payload moved whole (no field write, no &mut use); "
                       "subscriptions removed only on the failed-delivery edge; who-may-mutate table; decision table of SubscribeStream::poll_next by path enumeration. Delivery precedes every suspension point of the arm (Q2DEDUP deliver-before-suspension); the handlers await nothing but transport writes and the queues towards the application are unbounded (HANDLER-AWAITS). UPROPS accessors; DISPATCH key-from-packet-only (the lookup key is the Subscription Identifier of the PUBLISH and nothing of the session); DECODE-ERR-CAUSE / MANDATORY (an alias-only PUBLISH is accepted).",
        "not_decided": "order / exactly-once over histories with lagging or dropped streams (executions); a PUBLISH carrying several Subscription Identifiers (known finding, codec keeps one)",
        "assumptions": TRUST,
    },
    "C11": {
        "rules": ["IDALLOC", "SUBREG", "VARINT-ENC", "OPTS-LOSSLESS"],
        "filters": {"OPTS-LOSSLESS": r"identifier|floor"},
        "explanation": "Every identifier handed to a request builder derives from one atomic read-modify-write on the shared counter (no load/store pair); zero-ness dataflow proves the value reaching NonZero::try_from(..).unwrap() non-zero; "
                       "counter created once with value 1; identifier setters are not public; one fetch_add on sub_id per subscribe(); nothing but fetch_add(1) ever writes a counter (no fetch_sub / store anywhere in the crate). The subscription identifier is encoded by an encoder whose byte layout is decided per stored form (VARINT-ENC); option setters do not alter values (OPTS-LOSSLESS).",
        "not_decided": "uniqueness among outstanding operations over histories (implied by a sequential wrapping counter under the stated proviso); thread schedules beyond atomicity of the RMW",
        "assumptions": TRUST,
    },
    "C13": {
        "rules": ["EXITS", "EXITS-EXPLICIT", "EXITS-OK", "EXITS-END", "FIRST-RESPONSE", "THRESH", "CONV", "WRITE", "SHORTFORM-EXACT", "REPARSE", "BUFFERED", "MINHDR", "RXHDR", "FRAMER-FRESH", "OWN", "FULLFORM", "PROPLEN-GUARD", "DECODE-ERR-CAUSE", "MANDATORY"],
        "filters": {"FULLFORM": r"ConnackRx|floor", "WRITE": r"WRITE:site:|floor", "SHORTFORM-EXACT": r"DisconnectRx|floor", "OWN": r"no-explicit-close|context-holds-no-request-sender|request-queue-read-only-in-run|floor"},
        "explanation": "Complete table of the exits of Context::run (recursively through handle_packet / handle_message / ack / retransmit), each classified by the residual error type of its `?` and what produced it; explicit returns; "
                       "required Ok(()) exits and what they are control dependent on; the end of the request queue / packet stream ends run() at once (EXITS-END); decoders of run()-phase packets test the whole fixed-header byte (RXHDR); buffered packets are served before the next read (BUFFERED); first-response table of connect()/authorize(); reason thresholds; From<..> for MqttError variant table. No handle operation closes the request queue (OWN no-explicit-close); framing state never outlives its transport, so the CONNACK of a new connection is framed from its own bytes (FRAMER-FRESH); CONNACK is decoded to its end (FULLFORM). OWN context-holds-no-request-sender (HandleClosed is reachable: the context keeps no handle); DECODE-ERR-CAUSE / MANDATORY / PROPLEN-GUARD (run() ends with a codec error for undecodable input only).",
        "not_decided": "'at every reachable session state': the exits do not consult session state, which is stated rather than explored",
        "assumptions": TRUST,
    },
    "C14": {
        "rules": ["OWN", "CONV", "ADAPTER", "RESUME-ORDER", "COMPLETE-ERR", "HANDLE-ERRS"],
        "explanation": "Ownership discipline: no leak primitive in the crate, senders never cloned, Session collections own their senders directly, Canceled/TrySendError map to ContextExited, every handle operation propagates a failed enqueue and awaits only its own oneshot receiver, "
                       "the stream adapter maps inner end-of-stream to end-of-stream, reset_session clears every collection; the context sends Err(..) on a response channel only for the two local refusals (COMPLETE-ERR), a cancelled channel is reported as ContextExited only. A handle operation builds no verdict of the context (QuotaExceeded, MaximumPacketSizeExceeded, SocketClosed, HandleClosed, Disconnected) by itself: such errors reach the caller only through its response channel, so an operation started after the context is gone cannot be answered from stale state (HANDLE-ERRS).",
        "not_decided": "liveness itself (that the wake-up happens) is a property of the channel library (trusted base)",
        "assumptions": TRUST,
    },
    "C15": {
        "rules": ["EXITS", "EXITS-EXPLICIT", "QUOTA-INC", "DISPATCH", "REGISTRATION", "ENQUEUE-ALWAYS", "FIFO", "HANDLER-AWAITS", "ACK-CTRL", "ACK-COUNT", "SUBREG"],
        "explanation": "No exit of run() is caused by a failed completion or delivery (EXITS classifies every `?`, EXITS-EXPLICIT every explicit error return of the handlers: only a server DISCONNECT != 0); the quota release does not depend on the lookup or on the completion having been delivered; a failed delivery only removes that subscription. Acknowledgement decisions do not depend on the delivery outcome (ACK-CTRL / ACK-COUNT: a dropped stream does not suppress the acknowledgement); a subscription identifier is never reused (SUBREG); the handlers never wait for the application (HANDLER-AWAITS).",
        "not_decided": "'other operations complete with their own acknowledgements' under all interleavings (follows from KEY/LOOKUP of C05 once the context keeps running)",
        "assumptions": TRUST,
    },
    "C17": {
        "rules": ["RESUME-PAIR", "RESUME-EXPIRY", "RESUME-ORDER", "HANDSHAKE-DUP", "FIFO", "LEGAL-ARM", "DEFAULTS", "KEY", "SEI-ORDER", "RESUME-QUOTA"],
        "filters": {"FIFO": r"retrasmit_queue|floor", "LEGAL-ARM": r"ConnackRx:SessionExpiryInterval|floor", "DEFAULTS": r"SessionExpiryInterval|session_expiry|floor"},
        "explanation": "Pairing of every class pushed to the retransmission queue with a keyed removal in the arm of its acknowledgement; normalised truth table of session_expired; dominance/ordering of is_reconnect, session_expired, reset_session, retransmit and the select loop in run(); "
                       "retransmit iterates front to back and awaits each unchanged write; stored copy carries DUP. The replay write is decided by the iteration alone (RESUME-ORDER replay-unconditional); KEY (removal by a key that keeps every bit of the identifier). SEI-ORDER (the requested session expiry interval is stored before the CONNACK is handled, so what the broker grants decides expiry); RESUME-QUOTA.",
        "not_decided": "behaviour over disconnection points x histories; wall-clock arithmetic",
        "assumptions": TRUST,
    },
    "C03": {
        "rules": ["PENDING", "EOS", "MINHDR", "REPARSE", "BUFFERED", "VARINT-ERR", "VARINT-OK", "PANIC", "REARM", "FRAMER-FRESH", "PENDING-PURE"],
        "filters": {"PANIC": r"packet_stream|VarSizeInt as std::convert::TryFrom<&\\\\[u8\\\\]>|ledger-link:MINHDR"},
        "explanation": "Necessary structural clauses of framing on MIR: forward dataflow over RxPacketStream::poll_next proving that Poll::Pending is returned only after an inner poll returned Pending for the same context; "
                       "every Ready(None) control dependent on the transport's own result or a malformed length (read error / 0 bytes into a provably non-empty destination); the gate to the length parse is size >= 2; "
                       "index and length arithmetic of the reassembly machine discharged site by site in both arithmetic modes (PANIC ledger). After every read that delivered bytes the size test is passed on every way on and the only next state is the length parse (MINHDR after-read); framing state is written by poll_next and the constructor only, anything else must reset all of it, and set_up gives every transport a freshly built or fully reset framer (FRAMER-FRESH); the read result is classified on the feasible paths (Err and 0 end the stream, only a non-zero count is added); paths that return Pending assign no field of the stream (PENDING-PURE).",
        "not_decided": "'exactly the same packets for every chunking': equality of the emitted sequence over all compositions of the byte stream is a statement about runtime index values; no rule is claimed for it",
        "assumptions": TRUST,
        "arith_rules": ["PANIC"],
        "filters": {"PANIC": r"packet_stream|VarSizeInt as std::convert::TryFrom<&\[u8\]>|ledger-link:MINHDR"},
    },
    "C04": {
        "rules": ["PANIC", "DECODE-WITNESS", "VARIANT-DOMAIN", "VARINT-GUARD", "VARINT-ERR", "FIRST-RESPONSE", "EXITS", "WRITE", "EOS", "PENDING", "BUFFERED", "REPARSE", "MINHDR", "REARM", "DECODE-LOOP", "FRAMER-FRESH", "CHUNK"],
        "explanation": "Panic ledger: every panic-capable site (MIR asserts, unwrap/expect, panic!/unreachable!, indexing, curated panicking bytes API) in bodies reachable from the inbound roots is enumerated and discharged by a dominating guard, a direct length comparison, "
                       "constant folding, the in-memory-length argument or a named ledger entry; fixed-width decoders carry a length witness; partial functions over packet enums are called inside their domain; first-response and run() exits are error returns; transport faults propagate; a decode loop cannot spin on an undecodable item (DECODE-LOOP). An error reporting a reason code is built only under a failing edge of the threshold test (THRESH error-only-when-failed, linked from the ledger entries of the debug assertions in the From<..Rx> for ..Error conversions). CHUNK (the decoded value is the delimited bytes themselves, so advancing by its byte_len() cannot run past the input; every string component is validated before an accessor unwraps it).",
        "not_decided": "non-panicking misbehaviour on garbage beyond what EXITS classifies; panics inside dependencies not in the curated list; ledger entries are reasoned, not proved (each is one named site with a reason)",
        "assumptions": TRUST + ["curated list of panicking methods of the bytes crate (advance, split_to, split_off, get_*, copy_to_bytes, slice)"],
        "arith_rules": ["PANIC"],
    },
    "C16": {
        "rules": ["PENDING", "REARM", "OWN", "WRITE", "ADAPTER", "PENDING-PURE", "HANDLER-AWAITS"],
        "explanation": "Waker contract on MIR: both hand-written poll functions return Pending only in states where an inner poll returned Pending for the same task context; run() re-arms each select! future in the arm that consumed it; "
                       "handle operations await only their own oneshot receiver; write futures are awaited in place; the stream adapter forwards Pending from the inner receiver. Paths of RxPacketStream::poll_next that return Pending assign no field of the stream and touch the buffer only through resize and the read itself (PENDING-PURE); the handlers await nothing but transport writes (HANDLER-AWAITS). OWN context-holds-no-request-sender.",
        "not_decided": "trace equality across polling disciplines (executions under different schedulers); idempotence of the buffer bookkeeping of RxPacketStream under a spurious poll (runtime state)",
        "assumptions": TRUST,
    },
    "C01": {
        "rules": ["LM", "LM-PRIM", "ORDER", "BITS", "IDS", "LEGAL", "MANDATORY", "SETTER", "WRITE", "MSGKIND", "ENCODE-ONCE", "ENQUEUE-ALWAYS", "VARINT-THRESH", "REGISTRATION", "OPTS-LOSSLESS", "VARINT-ENC"],
        "filters": {"LEGAL": r"LEGAL:tx:", "MANDATORY": r"Tx|floor"},
        "explanation": "Encoder structure on MIR, for all optional fields / packet types / call sites at once: length mirror (every field written is counted in the remaining / property length it belongs to and vice versa, every counted length prefix is written, "
                       "measured types = written types), item order against the standard, bit layouts of the flag bytes, evaluated packet / property identifiers and fixed headers, legal property sets, mandatory parts (generated build() + validate() error paths), "
                       "option setters forward to the builder field of the same name and return Self, single writer (write_all over the whole slice, awaited in place), one encode per message buffer, exactly one write per non-refused request, VarSizeInt thresholds; for every primitive with a straight-line encoder the bytes appended by encode() equal byte_len() as a symbolic sum over its fields (LM-PRIM). The option setters carry the caller's value through moves and checked / widening conversions only (OPTS-LOSSLESS: no floating point, no narrowing cast, no arithmetic on the value); the variable byte integer encoder writes byte j as bits 7j..7j+6 with the continuation bit on all but the last byte, decided by normalising the byte expressions (VARINT-ENC). Lengths reach their length fields without narrowing casts (LM-7) and a length prefix is written whatever its value (LM-3 unconditional).",
        "not_decided": "that decoding the bytes yields exactly the values supplied for every value (round-trip equality over runtime values, boundary lengths 127/128/16383/...): primitives are covered by the existing boundary tests, the composition is what the rules decide",
        "assumptions": TRUST,
        "filters": {"LEGAL": r"LEGAL:tx:", "MANDATORY": r"Tx|floor"},
    },
    "C02": {
        "rules": ["LEGAL", "LEGAL-ARM", "IDS", "REASONS", "DEFAULTS", "MANDATORY", "SHORTFORM", "SHORTFORM-EXACT", "MULTI", "ACCESSOR", "PUBID", "BITS", "REPARSE", "VARINT-ERR", "VARINT-OK", "UTF8-BYTES", "ACCUMULATE", "REPEATABLE", "UPROPS", "DECODE-BE", "DECODE-LOOP", "FRAMER-FRESH", "FULLFORM", "PROPLEN-GUARD", "CHUNK", "DECODE-ERR-CAUSE"],
        "filters": {"LEGAL": r"LEGAL:rx:|floor", "MANDATORY": r"Rx|floor", "BITS": r"publish-decode|type-nibble|floor"},
        "explanation": "Decoder structure on MIR: accepted property set per receive decoder = the standard's legal set (order-free property loop), wire type per property identifier, reason enums = TryFrom<u8> maps = the standard's code sets, "
                       "defaults of absent properties, mandatory parts of inbound packets, shortened forms (tail decodes do not dominate every success exit), multiplicity (collections for repeatable properties), "
                       "accessors read exactly the field they are named after, PUBLISH header masks / shifts, packet identifier iff QoS > 0; the string decoders validate with the standard library and refuse no string for a byte that occurs in well-formed multi-byte UTF-8 (byte predicates evaluated on all 256 values); builder setters of repeatable items accumulate (ACCUMULATE), a repeatable property is never a reason to refuse the packet (REPEATABLE), UserProperties is append-only (UPROPS), u16 / u32 are assembled big endian (DECODE-BE), decode loops end on the first undecodable item (DECODE-LOOP). The packets without a shortened form are decoded to their end on every success path (FULLFORM); framing state never outlives its transport (FRAMER-FRESH). The length-prefixed primitives keep exactly the bytes their prefix delimits and validate that very cut (CHUNK); a decoder refuses for framing reasons only, never for the content of a field it has just decoded (DECODE-ERR-CAUSE); the property length is refused exactly when it exceeds what is left (PROPLEN-GUARD); every received user property is stored and every accessor sees all of them (UPROPS push-unconditional / accessors-see-all).",
        "not_decided": "numeric / value equality of decoded primitives over all inputs, UTF-8 validation itself (std), payloads crossing the receive buffer (runtime values; primitives have boundary tests)",
        "assumptions": TRUST,
        "filters": {"LEGAL": r"LEGAL:rx:|floor", "MANDATORY": r"Rx|floor", "BITS": r"publish-decode|type-nibble|floor"},
    },
}
