"""P-EFF: effect sites of a body, seen through closures and local helpers (bounded inlining)."""
import re
from mir import Body, callee_name, callee_resolved, strip_generics, place_fields

SESSION = "client::context::Session"
CONNECTION = "client::context::Connection"

VECDEQUE_PUSH = {"push_back": "back", "push_front": "front", "insert": "insert", "extend": "extend", "append": "append"}
VECDEQUE_REMOVE = {"remove": "keyed", "pop_front": "front", "pop_back": "back", "swap_remove_back": "swap",
                   "swap_remove_front": "swap", "retain": "retain", "retain_mut": "retain", "drain": "drain",
                   "truncate": "truncate", "split_off": "split"}
VECDEQUE_CLEAR = {"clear"}
VECDEQUE_READ = {"iter", "iter_mut", "get", "get_mut", "front", "back", "len", "is_empty", "contains", "index", "index_mut",
                 "front_mut", "back_mut", "range", "as_slices"}


class Effect:
    __slots__ = ("kind", "bb", "detail", "body", "inner_bb", "via", "term")

    def __init__(self, kind, bb, detail, body, inner_bb, via, term):
        self.kind = kind      # TxWrite | Ack | Complete | Deliver | Enqueue | Push | Remove | Clear | Read | FieldWrite | IdAlloc | Call
        self.bb = bb          # block in the *top* body where the effect happens (call site / closure consumer)
        self.detail = detail  # dict
        self.body = body      # Body in which the primitive call is located
        self.inner_bb = inner_bb
        self.via = via        # list of helper / closure paths it was seen through
        self.term = term

    def __repr__(self):
        return "Effect(%s bb%d %s via=%s)" % (self.kind, self.bb, self.detail, [v.split("::")[-2:] for v in self.via])

    def site(self):
        return self.body.site(self.inner_bb)


class World:
    """Caches Body objects for a fact base."""

    def __init__(self, facts):
        self.facts = facts
        self._bodies = {}

    def body(self, path):
        if path not in self._bodies:
            f = self.facts.fn(path)
            if f is None:
                return None
            self._bodies[path] = Body(f, self.facts)
        return self._bodies[path]

    def body_re(self, regex):
        f = self.facts.one(regex)
        return self.body(f["path"])

    def coroutine(self, fn_regex):
        f = self.facts.coroutine_of(fn_regex)
        return self.body(f["path"])

    def local_callee_body(self, term):
        """Body of a local (crate) callee of a call terminator; for `async fn` the coroutine body."""
        c = term.get("callee")
        if not c or c.get("krate") != self.facts.crate:
            # may still be a trait method resolved to a local impl
            if not c or not c.get("resolved"):
                return None, None
        path = c.get("resolved") or c["def"]
        b = self.body(path)
        if b is None:
            return None, None
        co = self.body(path + "::{closure#0}")
        if co is not None and co.fn["kind"] == "coroutine" and len(b.blocks) <= 4:
            return co, "coroutine"
        return b, "fn"


def upvar_index(body, pl):
    """If place is rooted in the closure/coroutine environment `_1.i` / `(*_1).i`, return i."""
    if body.fn["kind"] not in ("closure", "coroutine") or pl["l"] != 1:
        return None
    for p in pl["p"]:
        if p == "deref":
            continue
        if isinstance(p, dict) and "f" in p and not p.get("adt"):
            return p["f"]
        return None
    return None


def env_atoms(world, body, x, env, depth=0):
    """Atoms of operand/place x in `body`, with upvars / params substituted through `env`
    (env: index -> set of atoms in the outer context). For coroutine bodies the locals that were
    moved out of the environment (`_3 = move _1.0`) are followed automatically by Body.atoms."""
    raw = body.atoms(x)
    out = set()
    for a in raw:
        out.add(a)
    # substitute environment
    if env:
        idxs = set()
        _collect_env_idx(body, x, idxs, set())
        for i in idxs:
            out |= env.get(i, set())
    return out


def _collect_env_idx(body, x, idxs, seen, depth=0):
    if x is None or depth > 60:
        return
    if x.get("k") == "const":
        return
    pl = x["pl"] if "pl" in x else x
    ui = upvar_index(body, pl)
    if ui is not None:
        idxs.add(ui)
        return
    l = pl["l"]
    if body.fn["kind"] == "fn" and 1 <= l <= body.fn["arg_count"]:
        idxs.add(l - 1)
    if l in seen:
        return
    seen.add(l)
    for d in body.defs.get(l, []):
        if d[0] == "stmt":
            rv = d[3]["rv"]
            for key in ("op", "a", "b"):
                if key in rv and isinstance(rv[key], dict):
                    _collect_env_idx(body, rv[key], idxs, seen, depth + 1)
            if "pl" in rv:
                _collect_env_idx(body, rv["pl"], idxs, seen, depth + 1)
            for o in rv.get("ops", []):
                _collect_env_idx(body, o, idxs, seen, depth + 1)
        elif d[0] == "call":
            for o in d[2]["ops"]:
                _collect_env_idx(body, o, idxs, seen, depth + 1)


def session_field(atoms):
    fs = {a[2] for a in atoms if a[0] == "field" and a[1] == SESSION}
    return fs


def classify_call(world, body, bb, term, env):
    """Primitive effect of one call terminator, or None."""
    nm = callee_name(term) or ""
    res = callee_resolved(term) or nm
    c = term.get("callee") or {}
    last = nm.split("::")[-1]
    if nm == "io::packet_stream::TxPacketStream::write":
        return ("TxWrite", {"buf": env_atoms(world, body, term["ops"][1], env)})
    if nm == "client::context::Context::ack":
        return ("Ack", {"reason": (c.get("args") or ["?"])[-1], "id": env_atoms(world, body, term["ops"][1], env)})
    if nm == "futures::futures_channel::oneshot::Sender::send":
        payload = term["ops"][1]
        o = body.origin(payload, through_calls=False)
        variant = None
        inner = set()
        if o[0] == "agg" and o[2]["rv"]["what"] == "adt":
            variant = o[2]["rv"]["variant"]
            for op in o[2]["rv"]["ops"]:
                inner |= env_atoms(world, body, op, env)
        return ("Complete", {"variant": variant, "payload": inner, "sender": env_atoms(world, body, term["ops"][0], env),
                             "ty": (c.get("args") or ["?"])[0]})
    if nm == "futures::futures_channel::mpsc::UnboundedSender::unbounded_send":
        ty = (c.get("args") or ["?"])[0]
        # a subscription stream carries the received packet, or the PUBLISH itself (the only kind ever sent on it)
        kind = "Deliver" if (ty.endswith("RxPacket") or ty.endswith("codec::publish::PublishRx")) else ("Enqueue" if ty.endswith("ContextMessage") else "Send")
        return (kind, {"ty": ty, "sender": env_atoms(world, body, term["ops"][0], env),
                       "payload": env_atoms(world, body, term["ops"][1], env)})
    is_vec = False
    if re.search(r"(^|[<: ])std::vec::Vec(<|::)", nm) or re.search(r"(^|[<: ])std::vec::Vec(<|::)", res):
        # a Session collection kept as a plain Vec: the same vocabulary (push / remove / retain / clear / reads)
        is_vec = bool(term["ops"]) and bool(session_field(env_atoms(world, body, term["ops"][0], env)))
    if "VecDeque" in nm or "VecDeque" in res or is_vec:
        meth = (res if ("VecDeque" in res or (is_vec and "Vec" in res)) else nm).split("::")[-1]
        if is_vec:
            meth = {"push": "push_back", "pop": "pop_back", "swap_remove": "swap_remove_back", "deref": "iter", "deref_mut": "iter_mut", "as_slice": "iter",
                    "as_mut_slice": "iter_mut", "first": "front", "last": "back"}.get(meth, meth)
        recv = env_atoms(world, body, term["ops"][0], env) if term["ops"] else set()
        fs = session_field(recv)
        det = {"fields": fs, "method": meth, "recv": recv,
               "args": [env_atoms(world, body, o, env) for o in term["ops"][1:]]}
        if meth in VECDEQUE_PUSH:
            det["how"] = VECDEQUE_PUSH[meth]
            return ("Push", det)
        if meth in VECDEQUE_REMOVE:
            det["how"] = VECDEQUE_REMOVE[meth]
            return ("Remove", det)
        if meth in VECDEQUE_CLEAR:
            return ("Clear", det)
        if meth in VECDEQUE_READ:
            return ("Read", det)
        if meth == "into_iter":
            # `for x in &deque` / `&mut deque`: element access like iter() / iter_mut(); by value it drains the deque
            st_ = (c.get("self_ty") or "") + " " + res
            if re.search(r"(^|<)&(mut )?std::collections::VecDeque", st_):
                return ("Read", det)
            det["how"] = "drain"
            return ("Remove", det)
        if meth in ("new", "with_capacity", "default"):
            return None
        return ("OtherDeque", det)
    if re.search(r"sync::atomic::Atomic\w+::(fetch_\w+|swap|compare_exchange\w*|store|load)$", nm):
        return ("Atomic", {"method": last, "recv": env_atoms(world, body, term["ops"][0], env),
                           "args": [body.fold(o) for o in term["ops"][1:]]})
    return None


def effects(world, body, depth=3, env=None, top_bb=None, via=None, _visited=None, helpers=True):
    """All effect sites of `body`, including those inside closures it creates and local helpers
    it calls (up to `depth` levels), attributed to the block of `body` where they are triggered."""
    out = []
    via = via or []
    _visited = _visited or set()
    # closure aggregates created in this body: local -> (def, ops)
    closures = {}
    for i in sorted(body.reach):
        for st in body.blocks[i]["stmts"]:
            if st["k"] == "assign" and st["rv"]["k"] == "agg" and st["rv"]["what"] in ("closure", "coroutine"):
                closures[st["lhs"]["l"]] = (st["rv"]["def"], st["rv"]["ops"], i)
    for i in sorted(body.reach):
        blk = body.blocks[i]
        at = top_bb if top_bb is not None else i
        # field writes
        for st in blk["stmts"]:
            if st["k"] != "assign":
                continue
            fs = place_fields(st["lhs"])
            if fs:
                adt, name = fs[-1]
                if adt in (CONNECTION, SESSION):
                    out.append(Effect("FieldWrite", at, {"adt": adt, "field": name, "stmt": st,
                                                          "rv_atoms": body.rv_atoms(st["rv"])}, body, i, via, None))
        t = blk["term"]
        if t["k"] != "call":
            continue
        prim = classify_call(world, body, i, t, env)
        if prim:
            out.append(Effect(prim[0], at, prim[1], body, i, via, t))
        if depth <= 0:
            continue
        # closures passed to this call
        for o in t["ops"]:
            if o["k"] in ("move", "copy") and not o["pl"]["p"] and o["pl"]["l"] in closures:
                cdef, cops, _ = closures[o["pl"]["l"]]
                cb = world.body(cdef)
                if cb is None or cdef in _visited:
                    continue
                cenv = {k: env_atoms(world, body, cop, env) for k, cop in enumerate(cops)}
                out += effects(world, cb, depth - 1, cenv, at, via + [cdef], _visited | {cdef}, helpers)
        # local helper (the poll of an awaited local future is not a new call: its effects are
        # attributed to the call that created the future)
        if not helpers or (t.get("callee") or {}).get("name") in ("poll", "poll_next", "poll_next_unpin"):
            continue
        cb, kind = world.local_callee_body(t)
        if cb is not None and cb.path not in _visited and cb.path != body.path:
            cenv = {k: env_atoms(world, body, cop, env) for k, cop in enumerate(t["ops"])}
            sub = effects(world, cb, depth - 1, cenv, at, via + [cb.path], _visited | {cb.path}, helpers)
            if sub:
                out += sub
    return out
