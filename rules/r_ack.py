"""ACK (C08) and Q2DEDUP (C09): acknowledgement of inbound PUBLISH / PUBREL in the inbound handler."""
import re
from engine import rule, Inst, AnchorLost
from ctx import match_arms, arm_of, RXPACKET, fmt_atoms, short_ty
from mir import callee_name, callee_resolved
from pathutil import traced_paths, exit_kind

PUBLISHRX = "codec::publish::PublishRx"
QOS = "core::base_types::QoS"

# provenance that an acknowledgement decision may legitimately depend on
ALLOWED_FIELDS = {"qos", "packet_identifier"}
FORBIDDEN_CALL_PARTS = ("unbounded_send", "oneshot::Sender::send", "linear_search_by_key", "VecDeque", "Iterator::position")


def _decision_atoms(body, bb):
    """Provenance of a branch decision, including the decisions that selected the value of a flag variable it tests."""
    t = body.term(bb)
    if t["k"] != "switch":
        return set(), None
    si = body.switch_info(bb)
    if si["kind"] == "discr":
        return body.atoms_deep({"pl": si["place"]}), si
    if t["op"].get("k") == "const":
        return set(), si
    return body.atoms_deep(t["op"]), si


def _is_try_on_write(body, atoms):
    calls = {a[1] for a in atoms if a[0] == "call"}
    return any(c.endswith("TxPacketStream::write") or c.endswith("Context::ack") or c.endswith("ack::{closure#0}") or c.endswith("write::{closure#0}") for c in calls) \
        and not any(any(p in c for p in FORBIDDEN_CALL_PARTS) for c in calls)


@rule("ACK-TABLE", floor=3)
def ack_table(ctx):
    """Every ack::<R> call of the inbound handler lies in the arm of the packet the standard says it
    answers (PUBLISH -> PUBACK/PUBREC, PUBREL -> PUBCOMP), takes the identifier from that packet's
    `packet_identifier`, and is awaited in place."""
    hp = ctx.inbound_handler()
    sw, arms, otherwise, other_vs, _ = match_arms(hp, RXPACKET)
    effs = ctx.effects(hp)
    acks = [e for e in effs if e.kind == "Ack" and not e.via]
    spec = ctx.spec("acks")["inbound_to_reply"]
    legal = {"Publish": {v for k, v in spec.items() if k.startswith("Publish/") and v}, "Pubrel": {spec["Pubrel"]}}
    out = []
    seen = {}
    for e in acks:
        arm = arm_of(hp, arms, otherwise, e.bb)
        r = short_ty(e.detail["reason"])
        seen.setdefault(arm, set()).add(r)
        ok = arm in legal and r in legal[arm]
        out.append(Inst("ACK-TABLE", "arm=%s:ack<%s>" % (arm, r), ok, e.site(),
                        "ack::<%s> in arm %s" % (r, arm), "reply table (spec/acks.json): %s" % {k: sorted(v) for k, v in legal.items()}))
        # (ii) identifier provenance
        ida = e.detail["id"]
        fields = {(short_ty(a[1]), a[2]) for a in ida if a[0] == "field" and a[2] not in (0, 1, "0", "1")}
        downs = {a[1] for a in ida if a[0] == "downcast"}
        okid = any(f[1] == "packet_identifier" for f in fields) and all(f[1] == "packet_identifier" for f in fields) and (arm in downs)
        out.append(Inst("ACK-TABLE", "arm=%s:ack<%s>:id" % (arm, r), okid, e.site(),
                        "identifier derives from %s of variant(s) %s" % (sorted(fields), sorted(d for d in downs if d not in ("Some",))),
                        "the received %s's packet_identifier only" % arm))
        # (v) awaited in place
        comp = hp.completion_of(e.inner_bb)
        out.append(Inst("ACK-TABLE", "arm=%s:ack<%s>:awaited" % (arm, r), comp is not None, e.site(),
                        "future of the ack call is %s" % ("polled by an await in the same body" if comp else "not awaited in place"),
                        "acknowledgements are awaited where they are created (wire order = arrival order)"))
    for arm, need in legal.items():
        for r in sorted(need):
            if r not in seen.get(arm, set()):
                out.append(Inst("ACK-TABLE", "arm=%s:ack<%s>:missing" % (arm, r), False, hp.site(arms.get(arm, sw)),
                                "no ack::<%s> call in arm %s" % (r, arm), "the standard requires this reply"))
    return out


@rule("ACK-BODY", floor=2)
def ack_body(ctx):
    """`ack` builds the packet from its identifier parameter and performs exactly one TxWrite on
    every normal path."""
    b = ctx.flat(ctx.coroutine(r"client::context::Context::<[^>]*>::ack"))      # a helper that builds the bytes is looked at in place
    effs = ctx.effects(b)
    writes = [e for e in effs if e.kind == "TxWrite"]
    out = []
    n_paths = 0
    bad = None
    for path, tr in traced_paths(ctx, b, 0, writes):
        if exit_kind(b, path) != "ok":
            continue
        n_paths += 1
        if len(tr) != 1:
            bad = (path, len(tr))
    out.append(Inst("ACK-BODY", "one-write-per-path", bad is None and n_paths > 0, b.site(0),
                    "%d normal paths, each with exactly one TxWrite" % n_paths if bad is None else "a normal path has %d writes" % bad[1],
                    "exactly one acknowledgement packet per call"))
    # identifier parameter reaches the builder
    found = False
    for i, t in b.calls(r"AckTxBuilder::packet_identifier$"):
        from effects import _collect_env_idx
        idxs = set()
        _collect_env_idx(b, t["ops"][1], idxs, set())
        found = True
        out.append(Inst("ACK-BODY", "id-param", idxs == {1}, b.site(i),
                        "builder.packet_identifier(arg) derives from parameter index %s" % sorted(idxs),
                        "the packet_id parameter (index 1)"))
    if not found:
        raise AnchorLost("AckTxBuilder::packet_identifier call in ack")
    return out


@rule("ACK-CTRL", floor=3)
def ack_ctrl(ctx):
    """(iii) every ack call is control dependent only on tests of the packet type, its QoS and its
    packet identifier (and on earlier acknowledgement writes having succeeded) - never on the
    subscription identifier, a lookup result or a delivery result."""
    hp = ctx.inbound_handler()
    effs = ctx.effects(hp)
    out = []
    import contextlib
    from spec import variant_specs
    sw0 = match_arms(hp, RXPACKET)[0]
    specs = variant_specs(ctx, hp, RXPACKET, sw0)
    for e in [e for e in effs if e.kind == "Ack" and not e.via]:
        r = short_ty(e.detail["reason"])
        deps = hp.control_dep_closure(e.inner_bb)
        bad = []
        n = 0
        # judged for each kind of packet that can reach the acknowledgement: a test whose outcome is fixed by the kind of
        # packet (the arms left a note such as `Followup::Puback(id)` that is matched on after they joined) is no
        # decision, and a value defined in several arms is what this kind's arm made it
        kinds = [v for v, sp in specs.items() if e.inner_bb in sp.reach] or [None]
        for v_ in kinds:
            sp = specs.get(v_) if v_ else None
            with (sp.pinned() if sp is not None else contextlib.nullcontext()):
                for (bb, succ) in sorted(deps):
                    if sp is not None and (bb not in sp.reach or len([x for x in hp.succ(bb) if (bb, x) in sp.edges]) <= 1):
                        continue
                    atoms, si = _decision_atoms(hp, bb)
                    if si is None:
                        continue
                    n += 1
                    fields = {(short_ty(a[1]), a[2]) for a in atoms if a[0] == "field" and not isinstance(a[2], int) and not str(a[1]).startswith("std::")}
                    calls = {a[1] for a in atoms if a[0] == "call"}
                    badf = sorted(f for f in fields if f[1] not in ALLOWED_FIELDS and f[0] not in ("RxPacket",))
                    badc = sorted(c for c in calls if any(p in c for p in FORBIDDEN_CALL_PARTS))
                    if "Try::branch" in " ".join(calls) and not _is_try_on_write(hp, atoms):
                        badc.append("?-on-non-write")
                    for f in badf:
                        bad.append(("%s.%s" % f, hp.site(bb)))
                    for c in badc:
                        bad.append(("call " + "::".join(c.split("::")[-2:]), hp.site(bb)))
        if not bad:
            out.append(Inst("ACK-CTRL", "ack<%s>" % r, True, e.site(), "control dependent on %d decisions, all over packet type / qos / packet_identifier" % n,
                            "allowed decision provenance: %s" % sorted(ALLOWED_FIELDS)))
        for what, site in sorted(set(bad)):
            out.append(Inst("ACK-CTRL", "ack<%s>:depends-on:%s" % (r, what), False, e.site(),
                            "ack::<%s> is control dependent on a test of %s at %s" % (r, what, site),
                            "acknowledgement must not depend on subscription identifier / lookup / delivery"))
    return out


@rule("ACK-COUNT", floor=2)
def ack_count(ctx):
    """(i) path count: on every normal path through the PUBLISH arm the acknowledgements sent match
    the QoS decision taken on that path (QoS1: one PUBACK, QoS2: one PUBREC, no identifier: none);
    through the PUBREL arm exactly one PUBCOMP. A path that reaches the end of the arm without having
    decided on QoS or the identifier is a violation."""
    hp = ctx.inbound_handler()
    sw, arms, otherwise, other_vs, _ = match_arms(hp, RXPACKET)
    effs = [e for e in ctx.effects(hp) if e.kind == "Ack" and not e.via]
    qos_adt = ctx.facts.adt(QOS)
    qv = {v["discr"]: v["name"] for v in qos_adt["variants"]}
    spec = ctx.spec("acks")["inbound_to_reply"]
    out = []
    for arm in ("Publish", "Pubrel"):
        if arm not in arms:
            raise AnchorLost("arm %s of the inbound dispatch" % arm)
        n = 0
        bad = {}
        for path, tr in traced_paths(ctx, hp, arms[arm], effs):
            ek = exit_kind(hp, path)
            if ek != "ok":
                continue
            n += 1
            got = sorted(short_ty(e.detail["reason"]) for e in tr)
            if arm == "Pubrel":
                want = [spec["Pubrel"]]
                why = "PUBREL"
            else:
                qos_dec = None
                pid_dec = None
                for a, b_ in zip(path, path[1:]):
                    atoms, si = _decision_atoms(hp, a)
                    if si is None or si["kind"] != "discr":
                        continue
                    fields = {x[2] for x in atoms if x[0] == "field"}
                    vals = hp.edge_value(a, b_)
                    if si.get("adt") == QOS and "qos" in fields:
                        names = [qv.get(v, "otherwise") for v in vals]
                        if "otherwise" in names:
                            listed = {qv.get(v) for v, _ in si["targets"]}
                            names = [x for x in qv.values() if x not in listed]
                        qos_dec = names
                    elif si.get("adt") == "std::option::Option" and "packet_identifier" in fields and "qos" not in fields and "subscription_identifier" not in fields:
                        pid_dec = "Some" if 1 in vals else "None"
                if pid_dec == "None":
                    # no identifier to acknowledge: the decoder yields one exactly when QoS > 0 (rule PUBID)
                    want = []
                    why = "packet_identifier=None"
                elif qos_dec is not None and len(qos_dec) == 1:
                    w = spec["Publish/" + qos_dec[0]]
                    want = [w] if w else []
                    why = "qos=" + qos_dec[0]
                else:
                    want = None
                    why = "no decision on qos / packet_identifier on this path"
            if want is None or got != want:
                k = (why, tuple(got))
                bad.setdefault(k, path)
        ctx.analysed["paths"] += n
        if not bad:
            out.append(Inst("ACK-COUNT", "arm=%s" % arm, n > 0, hp.site(arms[arm]),
                            "%d normal paths through the arm, acknowledgements match the decision on each" % n,
                            "spec/acks.json inbound_to_reply"))
        for (why, got), path in sorted(bad.items()):
            out.append(Inst("ACK-COUNT", "arm=%s:%s:sent=%s" % (arm, why, list(got)), False, hp.site(path[-1]),
                            "path through arm %s with [%s] sends %s" % (arm, why, list(got) or "nothing"),
                            "exactly the acknowledgement the table prescribes for that QoS",
                            {"path_blocks": path[:80], "path_lines": _lines(hp, path)}))
    return out


def _lines(body, path):
    out = []
    for b in path:
        l = body.line_of(b)
        if l and (not out or out[-1] != l):
            out.append(l)
    return out[:60]


@rule("Q2DEDUP", floor=1)
def q2dedup(ctx):
    """C09 necessary condition: the Deliver of an inbound QoS 2 PUBLISH is control dependent on a
    membership test of a Session-owned collection keyed by the packet identifier; the absent edge
    adds the identifier; the PUBREL arm removes it."""
    hp = ctx.inbound_handler()
    sw, arms, otherwise, other_vs, _ = match_arms(hp, RXPACKET)
    effs = ctx.effects(hp)
    delivers = [e for e in effs if e.kind == "Deliver"]
    if not delivers:
        raise AnchorLost("Deliver (unbounded_send::<RxPacket>) in the inbound handler")
    session = ctx.facts.adt("client::context::Session")
    std_fields = {"awaiting_ack", "subscriptions", "retrasmit_queue"}
    out = []
    for e in delivers:
        deps = hp.control_dep_closure(e.inner_bb)
        guard_fields = set()
        for (bb, succ) in deps:
            atoms, si = _decision_atoms(hp, bb)
            fs = {a[2] for a in atoms if a[0] == "field" and a[1] == "client::context::Session"}
            ids = {a[2] for a in atoms if a[0] == "field" and a[2] == "packet_identifier"}
            if fs - {"subscriptions"} and ids:
                guard_fields |= (fs - {"subscriptions"})
        ok = bool(guard_fields)
        # add / remove discipline
        adds = [x for x in effs if x.kind == "Push" and x.detail["fields"] & guard_fields and arm_of(hp, arms, otherwise, x.bb) == "Publish"]
        rems = [x for x in effs if x.kind == "Remove" and x.detail["fields"] & guard_fields and arm_of(hp, arms, otherwise, x.bb) == "Pubrel"]
        fact = "Deliver is guarded by a membership test on Session.%s keyed by packet_identifier; adds in PUBLISH arm: %d, removes in PUBREL arm: %d" % (
            sorted(guard_fields), len(adds), len(rems)) if ok else \
            "Deliver of a received PUBLISH is not control dependent on any test of Session state keyed by the packet identifier (Session fields: %s)" % sorted(
                f["name"] for f in session["variants"][0]["fields"])
        out.append(Inst("Q2DEDUP", "deliver-unguarded" if not ok else "deliver-guarded", ok and bool(adds) and bool(rems), e.site(), fact,
                        "QoS 2 re-delivery before PUBREL must not be yielded again: needs add/test/remove state"))
        if ok:
            # an identifier is recorded once: only on the edge on which the membership test found it absent. A second
            # entry for a re-delivery outlives a release that removes one entry (`position` + `remove`), and the next
            # message that reuses the identifier is taken for a re-delivery
            for a_ in adds:
                guarded = False
                for (d, s_) in hp.control_dep_closure(a_.inner_bb if not a_.via else a_.bb):
                    atoms, si = _decision_atoms(hp, d)
                    if {x[2] for x in atoms if x[0] == "field" and x[1] == "client::context::Session"} & guard_fields:
                        guarded = True
                out.append(Inst("Q2DEDUP", "add-only-when-absent", guarded, a_.site(),
                                "the identifier is recorded %s" % ("on an edge of the membership test only" if guarded else "whether or not it is already recorded (no test of Session.%s decides the push)" % sorted(guard_fields)),
                                "one entry per unreleased identifier"))
            # the release removes exactly the identifier of the PUBREL, whatever its position
            for r in rems:
                keyed = r.detail["how"] in ("keyed", "retain")
                idk = any(a[0] == "field" and a[2] == "packet_identifier" for a in (r.detail["recv"] | (set().union(*r.detail["args"]) if r.detail["args"] else set())))
                cd_bad = []
                for (d, s_) in hp.control_dep_closure(r.inner_bb if not r.via else r.bb):
                    atoms, si = _decision_atoms(hp, d)
                    if si is None:
                        continue
                    calls = {a[1] for a in atoms if a[0] == "call"}
                    if any(c.endswith("VecDeque::front") or c.endswith("VecDeque::back") or c.endswith("VecDeque::len") for c in calls):
                        cd_bad.append("position-dependent")
                out.append(Inst("Q2DEDUP", "release:%s" % r.detail["method"], keyed and not cd_bad, r.site(),
                                "PUBREL releases the identifier with %s (%s%s)" % (r.detail["method"], "by value" if keyed else "by position", ", " + ",".join(cd_bad) if cd_bad else ""),
                                "the identifier of the PUBREL is released wherever it is stored (a later PUBLISH reusing it is a new message)"))
                # ... whatever the PUBREL says: its reason code (a failure code answers a PUBREC of ours that refused the
                # message; the exchange is over either way) does not decide whether the identifier is released
                rdep = []
                for (d, s_) in hp.control_dep_closure(r.inner_bb if not r.via else r.bb):
                    atoms, si = _decision_atoms(hp, d)
                    if any(a[0] == "field" and a[2] == "reason" for a in atoms):
                        rdep.append(hp.site(d))
                out.append(Inst("Q2DEDUP", "release-independent-of-reason:%s" % r.detail["method"], not rdep, r.site(),
                                "release of the identifier %s" % ("does not depend on the PUBREL's reason code" if not rdep else "depends on the reason code tested at %s" % sorted(set(rdep))),
                                "every PUBREL ends the exchange: the identifier may be used for a new message afterwards"))
            # the bookkeeping is released by PUBREL only (PUBCOMP / PUBACK belong to the outbound identifier space)
            for x in effs:
                if x.kind in ("Remove", "Clear") and x.detail["fields"] & guard_fields:
                    arm_x = arm_of(hp, arms, otherwise, x.bb)
                    out.append(Inst("Q2DEDUP", "release-in:%s" % arm_x, arm_x == "Pubrel", x.site(), "Session.%s is released in arm %s" % (sorted(x.detail["fields"] & guard_fields), arm_x),
                                    "only an inbound PUBREL releases an inbound QoS 2 identifier"))
            # the identifier is recorded and the message handed over within the same step of the context task: no
            # suspension point (`.await`) lies before either of them, so no write failure / dropped run() future can
            # separate "yielded" from "remembered"
            yields = [y for y in hp.reach if hp.term(y)["k"] == "yield"]
            for what, x in [("record", a_) for a_ in adds] + [("deliver", e)]:
                xb = x.inner_bb if not x.via else x.bb
                late = [y for y in yields if xb in hp.reachable_from(y)]
                out.append(Inst("Q2DEDUP", "%s-before-suspension" % what, not late, x.site(),
                                "%s of the QoS 2 identifier / message %s" % (what, "happens before any suspension point of the handler" if not late else
                                                                             "can follow the suspension point(s) at %s" % sorted({hp.site(y) for y in late})),
                                "delivery and bookkeeping are one atomic step: a failed or abandoned acknowledgement write must not leave a delivered message unrecorded (or a recorded one undelivered)"))
            # only QoS 2 identifiers are remembered: a QoS 1 identifier recorded here is never released (no PUBREL follows a
            # PUBACK) and would make a later QoS 2 message with the same identifier look like a re-delivery
            for a_ in adds:
                only2 = False
                seen_q = []
                for (d, s_) in hp.control_dep_closure(a_.inner_bb if not a_.via else a_.bb):
                    si = hp.switch_info(d)
                    if si and si["kind"] == "discr" and (si.get("adt") or "").endswith("QoS"):
                        names = {si["variants"].get(v) for v in hp.edge_value(d, s_) if v != "otherwise"}
                        if "otherwise" in hp.edge_value(d, s_):
                            names |= set(si["variants"].values()) - {si["variants"].get(v) for v, _ in si["targets"]}
                        seen_q.append(sorted(names))
                        if names == {"ExactlyOnce"}:
                            only2 = True
                    else:
                        from cond import Cond as _C
                        c_ = _C(hp, d)
                        if c_.kind == "call" and c_.callee == "eq":
                            at = set()
                            for x in c_.args:
                                at |= hp.atoms(x)
                            v = {y[2] for y in at if y[0] == "variant" and (y[1] or "").endswith("QoS")}
                            h = c_.holds_on(s_)
                            if v == {"ExactlyOnce"} and h is not None and (h ^ bool(c_.neg)):
                                only2 = True
                if not only2:
                    # the decision may have been taken earlier and carried in an Option (`id.filter(|_| qos == ExactlyOnce)`,
                    # tested later): the recording hangs on that Option being Some, and every place that makes it Some
                    # hangs on QoS == ExactlyOnce
                    def _q2(bb_):
                        for (d2, s2) in hp.control_dep_closure(bb_):
                            si2 = hp.switch_info(d2)
                            if si2 and si2["kind"] == "discr" and (si2.get("adt") or "").endswith("QoS"):
                                nm2 = {si2["variants"].get(v) for v in hp.edge_value(d2, s2) if v != "otherwise"}
                                if "otherwise" in hp.edge_value(d2, s2):
                                    nm2 |= set(si2["variants"].values()) - {si2["variants"].get(v) for v, _ in si2["targets"]}
                                if nm2 == {"ExactlyOnce"}:
                                    return True
                            else:
                                c2 = _C(hp, d2)
                                if c2.kind == "call" and c2.callee == "eq":
                                    at2 = set()
                                    for x in c2.args:
                                        at2 |= hp.atoms(x)
                                    v2 = {y[2] for y in at2 if y[0] == "variant" and (y[1] or "").endswith("QoS")}
                                    h2 = c2.holds_on(s2)
                                    if v2 == {"ExactlyOnce"} and h2 is not None and (h2 ^ bool(c2.neg)):
                                        return True
                        return False
                    from cond import Cond as _C
                    for (d, s_) in hp.control_dep_closure(a_.inner_bb if not a_.via else a_.bb):
                        si = hp.switch_info(d)
                        if not si or si["kind"] != "discr" or si.get("adt") != "std::option::Option" or 1 not in hp.edge_value(d, s_):
                            continue
                        cur = si["place"]
                        for _ in range(8):
                            ds_ = hp.whole_defs(cur["l"])
                            if len(ds_) != 1 or ds_[0][0] != "stmt":
                                break
                            rv_ = ds_[0][3]["rv"]
                            if cur["p"] and isinstance(cur["p"][0], dict) and "f" in cur["p"][0] and rv_["k"] == "agg" and len(rv_["ops"]) > cur["p"][0]["f"] \
                                    and rv_["ops"][cur["p"][0]["f"]].get("k") in ("move", "copy"):
                                nx = rv_["ops"][cur["p"][0]["f"]]["pl"]
                                cur = {"l": nx["l"], "p": list(nx["p"]) + list(cur["p"][1:])}
                                continue
                            if not cur["p"] and rv_["k"] == "use" and rv_["op"].get("k") in ("move", "copy"):
                                cur = rv_["op"]["pl"]
                                continue
                            break
                        o_ = ("place", cur)
                        if o_[1]["p"]:
                            continue
                        somes = [x for x in hp.whole_defs(o_[1]["l"]) if x[0] == "stmt" and x[3]["rv"]["k"] == "agg" and x[3]["rv"].get("variant") == "Some"]
                        others = [x for x in hp.whole_defs(o_[1]["l"]) if not (x[0] == "stmt" and x[3]["rv"]["k"] == "agg" and x[3]["rv"].get("variant") in ("Some", "None"))]
                        if somes and not others and all(_q2(x[1]) for x in somes):
                            only2 = True
                            seen_q.append("carried in an Option made Some under QoS == ExactlyOnce only")
                out.append(Inst("Q2DEDUP", "record-only-qos2", only2, a_.site(),
                                "the identifier is recorded %s" % ("only on the QoS 2 edge" if only2 else "without a dominating QoS == ExactlyOnce decision (QoS decisions seen: %s)" % (seen_q or "none")),
                                "only identifiers that a PUBREL will release are remembered"))
            # recognition of a re-delivery must not depend on the DUP flag
            dup_dep = []
            for x in [e] + adds:
                for (d, s_) in hp.control_dep_closure(x.inner_bb if not x.via else x.bb):
                    atoms, si = _decision_atoms(hp, d)
                    if any(a[0] == "field" and a[2] == "dup" for a in atoms):
                        dup_dep.append(hp.site(d))
            out.append(Inst("Q2DEDUP", "independent-of-dup", not dup_dep, e.site(), "delivery / bookkeeping decisions depending on the DUP flag: %s" % (sorted(set(dup_dep)) or "none"),
                            "a repeated QoS 2 PUBLISH is a re-delivery whether or not the broker set DUP"))
    return out


# ------------------------------------------------------------------------------------ HANDLER-AWAITS

@rule("HANDLER-AWAITS", floor=6)
def handler_awaits(ctx):
    """The two handlers of the context task suspend on nothing but writes to the transport (directly, or through the
    acknowledgement helper): what a handler waits for is under the control of the peer's flow control only, never of the
    application (a full subscription queue, a response channel) -- a stream nobody reads cannot hold up acknowledgements,
    other streams or other operations."""
    from mir import callee_resolved as _cr
    out = []
    ok_src = re.compile(r"(client::context::Context(::<[^>]*>)?::ack|io::packet_stream::TxPacketStream(::<[^>]*>)?::write)$")
    for role, body in (("inbound", ctx.inbound_handler()), ("outbound", ctx.outbound_handler())):
        for a in body.awaits():
            o = a["origin"]
            nm = (_cr(o[2]) or callee_name(o[2]) or "?") if o[0] == "call" else "a future that is not the result of a call (%s)" % o[0]
            ok = o[0] == "call" and bool(ok_src.search(nm))
            # a crate-local async helper that itself only awaits writes (`send_ack`, `write_packet`)
            if not ok and o[0] == "call" and ctx.facts.fn(nm) is not None and ctx.layer_of(nm) == "client":
                co = ctx.facts.fn(nm + "::{closure#0}")
                if co is not None and co["kind"] == "coroutine":
                    hb = ctx.flat(ctx.world.body(nm + "::{closure#0}"))
                    inner = [x["origin"] for x in hb.awaits()]
                    ok = bool(inner) and all(x[0] == "call" and ok_src.search(_cr(x[2]) or callee_name(x[2]) or "") for x in inner)
            out.append(Inst("HANDLER-AWAITS", "%s:%s" % (role, nm.split("::")[-1] if o[0] == "call" else "non-call"), ok, body.site(a["poll_bb"]),
                            "the %s handler awaits %s" % (role, nm), "only writes to the transport are awaited inside a handler"))
    # the queues on which the context hands packets to the application (the subscription streams) are unbounded: sending
    # never waits, whoever reads or does not read them
    for f_ in ctx.facts.fns:
        if not f_["file"].startswith("src/client/"):
            continue
        b = ctx.world.body(f_["path"])
        for i, t in b.calls(r"futures_channel::mpsc::channel$|mpsc::channel$|mpsc::Sender::<[^>]*>::(send|try_send|start_send|poll_ready)$|SinkExt::send$|SinkExt::feed$"):
            tys = " ".join((t["callee"].get("args") or []) + [t["callee"].get("self_ty") or ""])
            if "RxPacket" not in tys:
                continue
            out.append(Inst("HANDLER-AWAITS", "bounded-channel:%s" % (callee_name(t) or "").split("::")[-1], False, b.site(i), "%s::<%s> in %s" % (callee_name(t), tys[:80], b.path),
                            "the queues from the context to the application are unbounded (mpsc::unbounded, oneshot)"))
    return out
