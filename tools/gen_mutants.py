#!/usr/bin/env python3
"""Materialise tools/mutants_src.py into /verif/mutants/<id>.diff (against /repo HEAD) and verify each one
compiles and passes the repository's test suite. Scratch worktree under /tmp, removed afterwards."""
import json, os, subprocess, sys, shutil
sys.path.insert(0, os.path.dirname(os.path.abspath(__file__)))
from mutants_src import M
WT = "/tmp/mut-wt"
OUT = "/verif/mutants"
def sh(cmd, **kw):
    return subprocess.run(cmd, shell=True, stdout=subprocess.PIPE, stderr=subprocess.STDOUT, text=True, **kw)
sh("git -C /repo worktree remove --force %s" % WT)
r = sh("git -C /repo worktree add -q --detach %s HEAD" % WT)
assert os.path.isdir(WT), r.stdout
env = dict(os.environ, CARGO_TARGET_DIR=WT + "/target", CARGO_NET_OFFLINE="true")
only = set(sys.argv[1:])
index = {}
if os.path.exists(OUT + "/index.json"):
    index = {e["id"]: e for e in json.load(open(OUT + "/index.json"))}
for m in M:
    if only and m["id"] not in only:
        continue
    p = os.path.join(WT, m["file"])
    s = open(p).read()
    if s.count(m["old"]) != 1:
        print("SKIP %s: pattern occurs %d times" % (m["id"], s.count(m["old"])))
        continue
    open(p, "w").write(s.replace(m["old"], m["new"]))
    d = sh("git -C %s diff" % WT).stdout
    t = subprocess.run("cargo test --offline --lib -q 2>&1 | tail -5", shell=True, cwd=WT, env=env, stdout=subprocess.PIPE, text=True).stdout
    ok = "test result: ok. 93 passed" in t
    print("%-28s tests_pass=%s" % (m["id"], ok))
    if not ok:
        print(t)
    open(os.path.join(OUT, m["id"] + ".diff"), "w").write(d)
    index[m["id"]] = {"id": m["id"], "file": m["file"], "expect": m["expect"], "compiles_and_passes_suite": ok}
    sh("git -C %s checkout -- ." % WT)
json.dump(sorted(index.values(), key=lambda e: e["id"]), open(OUT + "/index.json", "w"), indent=1)
shutil.rmtree(WT + "/target", ignore_errors=True)
sh("git -C /repo worktree remove --force %s" % WT)
