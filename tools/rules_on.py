#!/usr/bin/env python3
"""Developer aid: run selected rules on /repo's current tree (or on a given facts file) and print every instance.
usage: tools/rules_on.py repo|<facts.json.gz> <module[,module]> [RULE,RULE]"""
import sys, os
sys.path.insert(0, os.path.join(os.path.dirname(os.path.abspath(__file__)), "..", "rules"))
from ctx import Ctx
import engine, importlib, extract
mods = sys.argv[2].split(',')
for m in mods:
    importlib.import_module(m)
path = sys.argv[1]
if path == "repo":
    path, _ = extract.extract("/repo", "debug")
c = Ctx(path)
rids = sys.argv[3].split(',') if len(sys.argv) > 3 else [r for r in engine.RULES]
for rid in rids:
    for i in engine.run_rule(rid, c):
        print('OK ' if i.ok else 'BAD', i.key, '|', i.site, '|', i.fact)
        if i.kind == 'machinery error':
            print(i.detail['trace'])
