#!/usr/bin/env python3
"""Developer aid: run only the named rules on /repo + each patch of a corpus (scratch copies; the extraction cache makes
this cheap after a full corpus run) and print the instances that fail.
usage: tools/rules_on_corpus.py benign|seeded|<glob> RULE[,RULE..]"""
import sys, os, glob, shutil, importlib
HERE = os.path.dirname(os.path.abspath(__file__))
sys.path.insert(0, os.path.join(HERE, "..", "rules"))
from concurrent.futures import ProcessPoolExecutor


def one(args):
    path, rids = args
    from props import RULE_MODULES
    for m in RULE_MODULES:
        importlib.import_module(m)
    import mutate, extract, engine
    from ctx import Ctx
    tmp = mutate.scratch_copy()
    try:
        ok, msg = mutate.apply_patch(tmp, path)
        if not ok:
            return path, "patch-does-not-apply", []
        try:
            p, _ = extract.extract(tmp, "debug")
        except Exception as e:
            return path, "does-not-compile", [str(e)[-200:]]
        c = Ctx(p)
        bad = []
        for rid in rids:
            for i in engine.run_rule(rid, c):
                if not i.ok:
                    bad.append("%s | %s | %s" % (i.key, i.site, (i.fact or "")[:160]))
        return path, "ok", bad
    finally:
        shutil.rmtree(tmp, ignore_errors=True)


if __name__ == "__main__":
    which, rids = sys.argv[1], sys.argv[2].split(",")
    jobs = sorted(glob.glob("/verif/benign/*.diff")) if which == "benign" else sorted(glob.glob("/verif/seeded/*/patch.diff")) if which == "seeded" else sorted(glob.glob(which))
    noisy = []
    with ProcessPoolExecutor(max_workers=int(os.environ.get("VERIF_JOBS", "4"))) as ex:
        for path, status, bad in ex.map(one, [(j, rids) for j in jobs]):
            if bad or status != "ok":
                noisy.append(path)
                print("==", path, status)
                for b in bad:
                    print("    ", b)
    print("%d patches, %d with failing instances of %s" % (len(jobs), len(noisy), rids))
