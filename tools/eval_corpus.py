#!/usr/bin/env python3
"""Evaluate every seeded breakage (/verif/seeded/*/patch.diff) and every checker mutant (/verif/mutants/*.diff)
against all checks on a scratch copy of the current /repo. Writes /verif/seeded/RESULTS.json and
/verif/mutants/RESULTS.json. /repo itself is never touched."""
import sys, os, importlib, json, glob, re
from concurrent.futures import ProcessPoolExecutor
HERE = os.path.dirname(os.path.abspath(__file__))
sys.path.insert(0, os.path.join(HERE, "..", "rules"))


def one(path):
    from props import RULE_MODULES
    for m in RULE_MODULES:
        importlib.import_module(m)
    import mutate
    status, out, info = mutate.violations_with_patch(path)
    return path, status, {p: [k[0] for k in ks] for p, ks in out.items()}


def main():
    which = sys.argv[1] if len(sys.argv) > 1 else "all"
    jobs = []
    if which in ("all", "seeded"):
        jobs += sorted(glob.glob("/verif/seeded/*/patch.diff"))
    if which in ("all", "mutants"):
        jobs += sorted(glob.glob("/verif/mutants/*.diff"))
    if which in ("all", "benign"):
        jobs += sorted(glob.glob("/verif/benign/*.diff"))
    res = {}
    with ProcessPoolExecutor(max_workers=int(os.environ.get("VERIF_JOBS", "8"))) as ex:
        for path, status, out in ex.map(one, jobs):
            res[path] = {"status": status, "fires": out}
            print(path, status, {p: len(v) for p, v in out.items()}, flush=True)
    seeded = {}
    for path, r in res.items():
        if "/seeded/" in path:
            sid = path.split("/")[-2]
            prop = sid.split("-")[0]
            own = r["fires"].get(prop, [])
            seeded[sid] = {"status": r["status"], "caught_by_own_property": bool(own), "own_property_keys": own[:6],
                           "other_properties_firing": sorted(p for p in r["fires"] if p != prop)}
    if seeded:
        json.dump(seeded, open("/verif/seeded/RESULTS.json", "w"), indent=1, sort_keys=True)
    muts = {}
    idx = {e["id"]: e for e in json.load(open("/verif/mutants/index.json"))} if os.path.exists("/verif/mutants/index.json") else {}
    for path, r in res.items():
        if "/mutants/" in path:
            mid = os.path.basename(path)[:-5]
            exp = idx.get(mid, {}).get("expect", [])
            hit = []
            for prop, rx in exp:
                hit.append(any(re.search(rx, k) for k in r["fires"].get(prop, [])))
            muts[mid] = {"status": r["status"], "expected": exp, "expected_fired": hit, "fires": {p: v[:4] for p, v in r["fires"].items()}}
    if muts:
        json.dump(muts, open("/verif/mutants/RESULTS.json", "w"), indent=1, sort_keys=True)
    ben = {os.path.basename(p)[:-5]: r for p, r in res.items() if "/benign/" in p}
    if ben:
        json.dump({k: {"status": v["status"], "alarms": v["fires"]} for k, v in ben.items()}, open("/verif/benign/RESULTS.json", "w"), indent=1, sort_keys=True)
        print("benign refactorings: %d, raising alarms: %s" % (len(ben), sorted(k for k, v in ben.items() if v["fires"] or v["status"] != "ok")))
    missed = [s for s, v in seeded.items() if not v["caught_by_own_property"]]
    print("seeded: %d, caught by their own property's check: %d, missed: %s" % (len(seeded), len(seeded) - len(missed), missed))
    bad = [m for m, v in muts.items() if v["expected"] and not all(v["expected_fired"])]
    benign = [m for m, v in muts.items() if not v["expected"] and v["fires"]]
    print("mutants: %d, expected rule missing for: %s ; benign mutants raising alarms: %s" % (len(muts), bad, benign))


if __name__ == "__main__":
    main()
