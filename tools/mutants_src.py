"""Source of the checker's own mutants: (id, file, old, new, expected (property, rule-key regex)).
`tools/gen_mutants.py` turns them into /verif/mutants/<id>.diff against the repaired tree and verifies that each
compiles and passes the repository's 93 tests. They are the positive examples of the rule engine:
the thorough tier applies every diff to a scratch copy of the *current* /repo and requires the
expected rule to fire and name the mutated instance."""

M = []


def m(mid, file, old, new, expect):
    M.append({"id": mid, "file": file, "old": old, "new": new, "expect": expect})


# ---- C01 length mirror / order / bits / ids
m("lm-drop-len-term", "src/codec/publish.rs",
  """            self.payload_format_indicator
                .as_ref()
                .map(|val| val.byte_len())
                .unwrap_or(0)
                + self""",
  """            self""",
  [("C01", r"LM:PublishTx:LM1:payload_format_indicator")])
m("order-swap-user-pass", "src/codec/connect.rs",
  """        if let Some(val) = self.username {
            encoder.encode(val);
        }

        if let Some(val) = self.password {
            encoder.encode(val);
        }""",
  """        if let Some(val) = self.password {
            encoder.encode(val);
        }

        if let Some(val) = self.username {
            encoder.encode(val);
        }""",
  [("C01", r"ORDER:ConnectTx:password-before-username")])
m("bits-no-local-shift", "src/codec/subscribe.rs", "((self.no_local as u8) << 2)", "((self.no_local as u8) << 1)", [("C01", r"BITS:subscription_options:no_local")])
m("bits-connect-clean-start", "src/codec/connect.rs", "((self.clean_start as u8) << 1)", "(self.clean_start as u8)", [("C01", r"BITS:connect_flags:clean_start")])
m("ids-unsubscribe-flags", "src/codec/unsubscribe.rs", "(Self::PACKET_ID << 4) | 0b0010", "Self::PACKET_ID << 4", [("C01", r"IDS:FIXED_HDR:UnsubscribeTx")])
m("write-all-to-write", "src/io/packet_stream.rs", "self.stream.write_all(&packet[0..packet.len()]).await", "self.stream.write(&packet[0..packet.len()]).await.map(|_| ())",
  [("C01", r"WRITE:asyncwrite:write@")])
m("setter-wrong-field", "src/client/opts.rs",
  """    pub fn will_retain(mut self, val: bool) -> Self {
        self.builder.will_retain(val);""",
  """    pub fn will_retain(mut self, val: bool) -> Self {
        self.builder.clean_start(val);""",
  [("C01", r"SETTER:ConnectOpts::will_retain:forwards")])
# ---- C02
m("legal-drop-arm", "src/codec/suback.rs",
  """                    Property::ReasonString(val) => {
                        builder.reason_string(val);
                    }
""",
  """""",
  [("C02", r"LEGAL:rx:SUBACK:ReasonString")])
m("shortform-disconnect", "src/codec/disconnect.rs",
  """        // When remaining length is 0, the Reason is 0x00 and there are no properties.
        if decoder.remaining() == 0 {
            return builder.build();
        }

""", "", [("C02", r"SHORTFORM:DisconnectRx:reason")])
m("reasons-drop-code", "src/codec/unsuback.rs", "            0x11 => Ok(UnsubackReason::NoSubscriptionExisted),\n", "", [("C02", r"REASONS:UnsubackReason:try_from")])
m("accessor-wrong-field", "src/client/rsp.rs",
  """    pub fn wildcard_subscription_available(&self) -> bool {
        bool::from(self.packet.wildcard_subscription_available)""",
  """    pub fn wildcard_subscription_available(&self) -> bool {
        bool::from(self.packet.shared_subscription_available)""",
  [("C02", r"ACCESSOR:ConnectRsp::wildcard_subscription_available")])
m("defaults-receive-max", "src/core/properties.rs", "Self(NonZero::try_from(65535).unwrap())", "Self(NonZero::try_from(65534).unwrap())", [("C02", r"DEFAULTS:ReceiveMaximum")])
# ---- C03 / C16
m("pending-without-poll", "src/client/stream.rs",
  """        match self.receiver.poll_next_unpin(cx) {
            Poll::Ready(rx_packet) => {
                if let Some(RxPacket::Publish(publish)) = rx_packet {
                    return Poll::Ready(Some(PublishData::from(publish)));
                }

                Poll::Ready(None)
            }""",
  """        match self.receiver.poll_next_unpin(cx) {
            Poll::Ready(rx_packet) => {
                if let Some(RxPacket::Publish(publish)) = rx_packet {
                    return Poll::Ready(Some(PublishData::from(publish)));
                }

                if rx_packet.is_some() {
                    return Poll::Pending;
                }

                Poll::Ready(None)
            }""",
  [("C16", r"PENDING:SubscribeStream:pending-after-inner_ready")])
m("minhdr-one-byte", "src/io/packet_stream.rs", "if *size >= 2 {", "if *size >= 1 {", [("C03", r"MINHDR:gate:size Ge 1")])
m("rearm-missing", "src/client/context.rs",
  """                        return Ok(());
                    }
                    msg_fut = message_queue.next();""",
  """                        return Ok(());
                    }
                    msg_fut = message_queue.next();
                    pck_fut = rx.next().fuse();""",
  [])
# ---- C04
m("decode-witness-removed", "src/core/base_types.rs",
  """        if bytes.len() < mem::size_of::<u32>() {
            return Err(InsufficientBufferSize.into());
        }

""", "", [("C04", r"DECODE-WITNESS:u32")])
m("panic-new-unwrap", "src/codec/connack.rs", "let remaining_len = decoder.try_decode::<VarSizeInt>()?;", "let remaining_len = decoder.try_decode::<VarSizeInt>().ok().unwrap();",
  [("C04", r"PANIC:.*ConnackRx as core::utils::TryDecode>::try_decode\|unwrap")])
m("panic-guard-removed", "src/codec/publish.rs",
  """        let property_len = decoder.try_decode::<VarSizeInt>()?;
        if property_len > decoder.remaining() {
            return Err(InvalidPropertyLength.into());
        }
""",
  """        let property_len = decoder.try_decode::<VarSizeInt>()?;
""",
  [("C04", r"PANIC:.*PublishRx as core::utils::TryDecode>::try_decode\|bytes\|")])
m("varint-check-after", "src/core/base_types.rs",
  """            if mult as usize > Self::MAX {
                return Err(ValueExceedesMaximum.into());
            }

            val += (byte as u32 & 127) * mult;
            mult *= 128;
""",
  """            val += (byte as u32 & 127) * mult;

            if mult as usize > Self::MAX {
                return Err(ValueExceedesMaximum.into());
            }

            mult *= 128;
""",
  [("C04", r"VARINT-GUARD|PANIC:ledger-link:VARINT-GUARD")])
# ---- C05
m("key-shift-tx-only", "src/client/utils.rs",
  """            ((SubackRx::PACKET_ID as usize) << 24)
                | ((subscribe.packet_identifier.get() as usize) << 8)""",
  """            ((SubackRx::PACKET_ID as usize) << 16)
                | ((subscribe.packet_identifier.get() as usize) << 8)""",
  [("C05", r"KEY:Subscribe->Suback:(tag|disjoint)")])
m("lookup-pop-front", "src/client/context.rs",
  """            other => {
                let action_id = utils::rx_action_id(&other);

                if let Some((_, sender)) =
                    utils::linear_search_by_key(&session.awaiting_ack, action_id)
                        .and_then(|pos| session.awaiting_ack.remove(pos))""",
  """            other => {
                let action_id = utils::rx_action_id(&other);

                if let Some((_, sender)) =
                    utils::linear_search_by_key(&session.awaiting_ack, action_id)
                        .and_then(|_| session.awaiting_ack.pop_front())""",
  [("C05", r"FIFO:inbound:Remove\(awaiting_ack\):pop_front|LOOKUP:complete@otherwise")])
m("registration-push-front", "src/client/context.rs",
  """                    tx.write(msg.packet.as_ref()).await?;
                    session
                        .awaiting_ack
                        .push_back((msg.action_id, msg.response_channel));
                }
            }""",
  """                    tx.write(msg.packet.as_ref()).await?;
                    session
                        .awaiting_ack
                        .push_front((msg.action_id, msg.response_channel));
                }
            }""",
  [("C05", r"FIFO:outbound:Push\(awaiting_ack\):push_front")])
# ---- C06
m("dup-before-write", "src/client/context.rs",
  """                    tx.write(msg.packet.as_ref()).await?;

                    let fixed_hdr = msg.packet.get_mut(0).unwrap();
                    *fixed_hdr |= (1 << 3) as u8; // Set DUP flag in the PUBLISH fixed header
""",
  """                    let fixed_hdr = msg.packet.get_mut(0).unwrap();
                    *fixed_hdr |= (1 << 3) as u8; // Set DUP flag in the PUBLISH fixed header

                    tx.write(msg.packet.as_ref()).await?;
""",
  [("C06", r"HANDSHAKE-DUP:dup-after-write")])
m("thresh-strict", "src/client/handle.rs", "if pubrec.reason as u8 >= 0x80 {", "if pubrec.reason as u8 > 0x80 {", [("C06", r"THRESH:.*threshold")])
# ---- C07
m("subreg-after-write-err", "src/client/context.rs",
  """                session
                    .subscriptions
                    .push_back((msg.subscription_identifier, msg.stream));

                tx.write(msg.packet.freeze().as_ref()).await?;""",
  """                tx.write(msg.packet.freeze().as_ref()).await?;""",
  [("C07", r"SUBREG:registered-on-send")])
# ---- C08
m("ack-swap-types", "src/client/context.rs",
  """                        QoS::AtLeastOnce => Self::ack::<PubackReason>(tx, packet_id).await?,
                        QoS::ExactlyOnce => Self::ack::<PubrecReason>(tx, packet_id).await?,""",
  """                        QoS::AtLeastOnce => Self::ack::<PubrecReason>(tx, packet_id).await?,
                        QoS::ExactlyOnce => Self::ack::<PubackReason>(tx, packet_id).await?,""",
  [("C08", r"ACK-COUNT:arm=Publish:qos=")])
# ---- C09
m("dedup-no-remove", "src/client/context.rs", "                session.unreleased.retain(|id| *id != packet_id.get());\n", "", [("C09", r"Q2DEDUP")])
# ---- C10
m("quota-no-dec", "src/client/context.rs", "                    connection.send_quota -= 1;\n", "", [("C10", r"QUOTA-DEC")])
m("quota-inc-unbounded", "src/client/context.rs",
  """                if failed && connection.send_quota != connection.remote_receive_maximum {
                    connection.send_quota += 1;
                }""",
  """                if failed {
                    connection.send_quota = connection.send_quota.saturating_add(1);
                }""",
  [("C10", r"QUOTA-(INC|WRITERS)")])
# ---- C11
m("id-load-store", "src/client/handle.rs",
  """            let id = self.packet_id.fetch_add(1, Ordering::Relaxed);
            if id != 0 {
                return id;
            }""",
  """            let id = self.packet_id.load(Ordering::Relaxed);
            self.packet_id.store(id.wrapping_add(1), Ordering::Relaxed);
            if id != 0 {
                return id;
            }""",
  [("C11", r"IDALLOC:.*:rmw")])
m("id-zero-again", "src/client/handle.rs",
  """            let id = self.packet_id.fetch_add(1, Ordering::Relaxed);
            if id != 0 {
                return id;
            }""",
  """            let id = self.packet_id.fetch_add(1, Ordering::Relaxed);
            if id != u16::MAX {
                return id;
            }""",
  [("C11", r"IDALLOC:.*:nonzero")])
# ---- C12
m("maxsize-strict", "src/client/context.rs", "|| packet.len() <= connection.remote_max_packet_size.unwrap() as usize", "|| packet.len() < connection.remote_max_packet_size.unwrap() as usize",
  [("C12", r"MAXSIZE-PRED:comparison")])
m("maxsize-after-push", "src/client/context.rs",
  """            ContextMessage::Subscribe(msg) => {
                if let Err(err) = Self::validate_packet_size(connection, msg.packet.as_ref()) {
                    // The caller may have dropped the operation's future: that is not an error.
                    let _ = msg.response_channel.send(Err(err));
                    return Ok(false);
                }

                session
                    .awaiting_ack
                    .push_back((msg.action_id, msg.response_channel));
                session
                    .subscriptions
                    .push_back((msg.subscription_identifier, msg.stream));
""",
  """            ContextMessage::Subscribe(msg) => {
                session
                    .subscriptions
                    .push_back((msg.subscription_identifier, msg.stream));

                if let Err(err) = Self::validate_packet_size(connection, msg.packet.as_ref()) {
                    // The caller may have dropped the operation's future: that is not an error.
                    let _ = msg.response_channel.send(Err(err));
                    return Ok(false);
                }

                session
                    .awaiting_ack
                    .push_back((msg.action_id, msg.response_channel));
""",
  [("C12", r"MAXSIZE-FIRST:arm=Subscribe:dominates-effects")])
# ---- C13 / C15
m("exit-on-failed-completion", "src/client/context.rs",
  """                    // The caller may have dropped the operation's future: that is not an error.
                    let _ = sender.send(Ok(other));""",
  """                    sender.send(Ok(other)).map_err(|_| HandleClosed)?;""",
  [("C15", r"EXITS:handle_packet:otherwise:send"), ("C13", r"EXITS:handle_packet:otherwise:send")])
m("disconnect-any-reason-ok", "src/client/context.rs", "if disconnect.reason == DisconnectReason::Success {", "if disconnect.reason != DisconnectReason::UnspecifiedError {",
  [("C13", r"EXITS-OK:handle_packet:stop|EXITS-EXPLICIT")])
m("conv-canceled", "src/client/error.rs",
  """impl From<Canceled> for MqttError {
    fn from(err: Canceled) -> Self {
        Self::ContextExited(err.into())""",
  """impl From<Canceled> for MqttError {
    fn from(_: Canceled) -> Self {
        Self::HandleClosed(HandleClosed)""",
  [("C14", r"CONV:Canceled")])
# ---- C14
m("own-forget-sender", "src/client/context.rs",
  """        session.awaiting_ack.clear();""",
  """        for entry in session.awaiting_ack.drain(..) {
            std::mem::forget(entry);
        }""",
  [("C14", r"OWN:(leak|no-leak)")])
# ---- C17
m("retransmit-rev", "src/client/context.rs", "for (_, packet) in session.retrasmit_queue.iter() {", "for (_, packet) in session.retrasmit_queue.iter().rev() {", [("C17", r"RESUME-ORDER:replay-front-to-back")])
m("expiry-inverted", "src/client/context.rs", "elapsed > connection.session_expiry_interval", "elapsed < connection.session_expiry_interval", [("C17", r"RESUME-EXPIRY:general")])
m("resume-no-pubcomp-removal", "src/client/context.rs",
  """                if connection.send_quota != connection.remote_receive_maximum {
                    connection.send_quota += 1;
                }

                utils::linear_search_by_key(&session.retrasmit_queue, action_id)
                    .and_then(|pos| session.retrasmit_queue.remove(pos));

                if let Some((_, sender)) =
                    utils::linear_search_by_key(&session.awaiting_ack, action_id)
                        .and_then(|pos| session.awaiting_ack.remove(pos))
                {
                    // The caller may have dropped the operation's future: that is not an error.
                    let _ = sender.send(Ok(rx_packet));
                }
            }
            RxPacket::Pubrec(pubrec) => {""",
  """                if connection.send_quota != connection.remote_receive_maximum {
                    connection.send_quota += 1;
                }

                if let Some((_, sender)) =
                    utils::linear_search_by_key(&session.awaiting_ack, action_id)
                        .and_then(|pos| session.awaiting_ack.remove(pos))
                {
                    // The caller may have dropped the operation's future: that is not an error.
                    let _ = sender.send(Ok(rx_packet));
                }
            }
            RxPacket::Pubrec(pubrec) => {""",
  [("C17", r"RESUME-PAIR:ack=Pubcomp:no-removal")])

# ---- rules added after the second seeding round
m("encode-once-buffer-reused", "src/client/handle.rs", "packet: buf.split(),", "packet: buf.clone(),",
  [("C01", r"ENCODE-ONCE:publish")])
m("enqueue-skipped-when-closed", "src/client/handle.rs",
  """    pub async fn ping(&mut self) -> Result<(), MqttError> {
        let (sender, receiver) = oneshot::channel();
""",
  """    pub async fn ping(&mut self) -> Result<(), MqttError> {
        if self.sender.is_closed() {
            return Ok(());
        }
        let (sender, receiver) = oneshot::channel();
""",
  [("C15", r"ENQUEUE-ALWAYS:ping")])
m("legal-arm-value-test", "src/codec/connack.rs",
  """                    Property::SessionExpiryInterval(val) => {
                        builder.session_expiry_interval(val);
                    }""",
  """                    Property::SessionExpiryInterval(val) => {
                        if val != SessionExpiryInterval::default() {
                            builder.session_expiry_interval(val);
                        }
                    }""",
  [("C02", r"LEGAL-ARM:ConnackRx:SessionExpiryInterval"), ("C17", r"LEGAL-ARM:ConnackRx:SessionExpiryInterval")])
m("varint-zero-tail-rejected", "src/core/base_types.rs",
  """            val += (byte as u32 & 127) * mult;
            mult *= 128;
""",
  """            if byte == 0 && idx != 0 {
                return Err(InvalidEncoding.into());
            }

            val += (byte as u32 & 127) * mult;
            mult *= 128;
""",
  [("C03", r"VARINT-ERR:"), ("C04", r"VARINT-ERR:")])
m("lm5b-disconnect-count-vs-write", "src/codec/disconnect.rs",
  """        if self.session_expiry_interval != SessionExpiryInterval::default() {
            encoder.encode(self.session_expiry_interval);""",
  """        if self.session_expiry_interval != SessionExpiryInterval::default()
            && self.session_expiry_interval != SessionExpiryInterval::from(u32::MAX)
        {
            encoder.encode(self.session_expiry_interval);""",
  [("C01", r"LM:DisconnectTx:LM5")])
m("key-low-byte", "src/client/utils.rs",
  """        TxPacket::Pubrel(pubrel) => {
            (PubcompRx::PACKET_ID as usize) << 24 | ((pubrel.packet_identifier.get() as usize) << 8)""",
  """        TxPacket::Pubrel(pubrel) => {
            (PubcompRx::PACKET_ID as usize) << 24 | ((pubrel.packet_identifier.get() as u8 as usize) << 8)""",
  [("C05", r"KEY:tx:no-narrowing-cast")])
m("unreleased-cleared-by-pubcomp", "src/client/context.rs",
  """                utils::linear_search_by_key(&session.retrasmit_queue, action_id)
                    .and_then(|pos| session.retrasmit_queue.remove(pos));

                if let Some((_, sender)) =
                    utils::linear_search_by_key(&session.awaiting_ack, action_id)
                        .and_then(|pos| session.awaiting_ack.remove(pos))
                {
                    // The caller may have dropped the operation's future: that is not an error.
                    let _ = sender.send(Ok(rx_packet));
                }
            }
            RxPacket::Pubrec(pubrec) => {""",
  """                utils::linear_search_by_key(&session.retrasmit_queue, action_id)
                    .and_then(|pos| session.retrasmit_queue.remove(pos));
                session.unreleased.retain(|id| (*id as usize) << 8 != action_id & 0xffff00);

                if let Some((_, sender)) =
                    utils::linear_search_by_key(&session.awaiting_ack, action_id)
                        .and_then(|pos| session.awaiting_ack.remove(pos))
                {
                    // The caller may have dropped the operation's future: that is not an error.
                    let _ = sender.send(Ok(rx_packet));
                }
            }
            RxPacket::Pubrec(pubrec) => {""",
  [("C09", r"Q2DEDUP:release-in:Pubcomp")])
m("stream-closed-explicitly", "src/client/rsp.rs",
  """    pub fn stream(self) -> SubscribeStream {
        SubscribeStream {
            receiver: self.receiver,
        }""",
  """    pub fn stream(mut self) -> SubscribeStream {
        if self.payload().iter().all(|reason| *reason as u8 >= 0x80) {
            self.receiver.close();
        }
        SubscribeStream {
            receiver: self.receiver,
        }""",
  [("C07", r"OWN:no-explicit-close"), ("C14", r"OWN:no-explicit-close")])
m("sub-id-folded", "src/client/opts.rs",
  """            VarSizeInt::try_from(val)
                .and_then(NonZero::try_from)
                .map(SubscriptionIdentifier::from)""",
  """            VarSizeInt::try_from(val % 16383 + 1)
                .and_then(NonZero::try_from)
                .map(SubscriptionIdentifier::from)""",
  [("C11", r"IDALLOC:SubscribeOpts::subscription_identifier:setter-preserves-value")])
m("pubrel-skipped-no-subscribers", "src/client/handle.rs",
  """                let (pubrel_sender, pubrel_receiver) = oneshot::channel();
""",
  """                if pubrec.reason as u8 == 0x10 {
                    return Ok(());
                }

                let (pubrel_sender, pubrel_receiver) = oneshot::channel();
""",
  [("C10", r"HANDSHAKE-QOS2:pubrel-always"), ("C06", r"HANDSHAKE-QOS2:pubrel-always")])
m("stop-depends-on-caller", "src/client/context.rs",
  """                let _ = msg.response_channel.send(Ok(()));

                if packet_id == DisconnectTx::PACKET_ID {""",
  """                let delivered = msg.response_channel.send(Ok(())).is_ok();

                if packet_id == DisconnectTx::PACKET_ID && delivered {""",
  [("C13", r"EXITS-OK:handle_message:disconnect-alone-decides")])
m("adapter-skips-dup", "src/client/stream.rs",
  """                if let Some(RxPacket::Publish(publish)) = rx_packet {
""",
  """                if let Some(RxPacket::Publish(publish)) = rx_packet {
                    if publish.dup && publish.retain {
                        return self.poll_next(cx);
                    }
""",
  [("C09", r"ADAPTER:inner=Ready/Some/Publish"), ("C07", r"ADAPTER:inner=Ready/Some/Publish")])
m("lookup-stops-early", "src/client/utils.rs",
  """    K: Copy + PartialEq,
{
    deque.iter().position(|(k, _)| *k == key)""",
  """    K: Copy + PartialEq,
{
    deque.iter().take(64).position(|(k, _)| *k == key)""",
  [("C05", r"LOOKUP:linear_search_by_key")])
