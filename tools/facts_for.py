#!/usr/bin/env python3
"""Developer aid: extract the fact base of /repo + a patch (scratch copy) and print its path. usage: tools/facts_for.py <diff>"""
import sys, os, shutil
sys.path.insert(0, os.path.join(os.path.dirname(os.path.abspath(__file__)), "..", "rules"))
import mutate, extract
tmp = mutate.scratch_copy()
try:
    mutate.apply_patch(tmp, sys.argv[1])
    p, info = extract.extract(tmp, "debug")
    print(p)
finally:
    shutil.rmtree(tmp, ignore_errors=True)
