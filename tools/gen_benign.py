#!/usr/bin/env python3
"""Materialise tools/benign_src.py into /verif/benign/<id>.diff and verify each compiles and passes the suite."""
import json, os, re, subprocess, sys, shutil, glob
sys.path.insert(0, os.path.dirname(os.path.abspath(__file__)))
from benign_src import B
WT = "/tmp/benign-wt"
OUT = "/verif/benign"
os.makedirs(OUT, exist_ok=True)
def sh(cmd, **kw):
    return subprocess.run(cmd, shell=True, stdout=subprocess.PIPE, stderr=subprocess.STDOUT, text=True, **kw)
sh("git -C /repo worktree remove --force %s" % WT)
sh("git -C /repo worktree add -q --detach %s HEAD" % WT)
env = dict(os.environ, CARGO_TARGET_DIR=WT + "/target", CARGO_NET_OFFLINE="true")
only = set(sys.argv[1:])
index = {}
if os.path.exists(OUT + "/index.json"):
    index = {e["id"]: e for e in json.load(open(OUT + "/index.json"))}
for m in B:
    if only and m["id"] not in only:
        continue
    ok_apply = True
    for (f, old, new) in m["edits"]:
        p = os.path.join(WT, f)
        s = open(p).read()
        if s.count(old) != 1:
            print("SKIP %s: pattern in %s occurs %d times" % (m["id"], f, s.count(old)))
            ok_apply = False
            break
        open(p, "w").write(s.replace(old, new))
    if ok_apply and m["renames"]:
        files = [os.path.join(WT, m["only"])] if m.get("only") else glob.glob(WT + "/src/**/*.rs", recursive=True)
        for p in files:
            s = open(p).read()
            s0 = s
            for old, new in m["renames"]:
                if re.fullmatch(r"\w+", old):
                    s = re.sub(r"\b%s\b" % re.escape(old), new, s)
                else:
                    s = s.replace(old, new)
            if s != s0:
                open(p, "w").write(s)
    if not ok_apply:
        sh("git -C %s checkout -- ." % WT)
        continue
    d = sh("git -C %s diff" % WT).stdout
    t = subprocess.run("cargo test --offline --lib -q 2>&1 | tail -8", shell=True, cwd=WT, env=env, stdout=subprocess.PIPE, text=True).stdout
    ok = "test result: ok. 93 passed" in t
    print("%-36s tests_pass=%s  (%d diff lines)" % (m["id"], ok, len(d.splitlines())))
    if not ok:
        print(t)
    open(os.path.join(OUT, m["id"] + ".diff"), "w").write(d)
    index[m["id"]] = {"id": m["id"], "note": m["note"], "compiles_and_passes_suite": ok}
    sh("git -C %s checkout -- ." % WT)
json.dump(sorted(index.values(), key=lambda e: e["id"]), open(OUT + "/index.json", "w"), indent=1)
shutil.rmtree(WT + "/target", ignore_errors=True)
sh("git -C /repo worktree remove --force %s" % WT)
