#!/usr/bin/env python3
"""Record positive examples for the rule engine: the fact base of /repo HEAD (baseline) and, for every checker
mutant, the bodies that differ from it. rules/fixtures_check.py replays them on every run: the expected
rule must fire on every recorded mutant (self-test of the rule engine, independent of /repo's current state)."""
import gzip, json, os, sys, importlib, shutil
HERE = os.path.dirname(os.path.abspath(__file__))
sys.path.insert(0, os.path.join(HERE, "..", "rules"))
import extract, mutate, roles
OUT = "/verif/fixtures"
os.makedirs(OUT, exist_ok=True)


def load(tmp):
    p, info = extract.extract(tmp, "debug")
    return roles.load_canonical(p)


def key_fn(f):
    return f["path"]


base_dir = mutate.scratch_copy("/repo")
base = load(base_dir)
shutil.rmtree(base_dir, ignore_errors=True)
with gzip.open(OUT + "/baseline.json.gz", "wt") as fh:
    json.dump(base, fh, separators=(",", ":"))
bfn = {key_fn(f): json.dumps(f, sort_keys=True) for f in base["fns"]}
idx = json.load(open("/verif/mutants/index.json"))
out_index = []
for e in idx:
    if not e["expect"]:
        continue
    tmp = mutate.scratch_copy("/repo")
    ok, msg = mutate.apply_patch(tmp, "/verif/mutants/%s.diff" % e["id"])
    if not ok:
        print("skip", e["id"], msg[:100]); shutil.rmtree(tmp, ignore_errors=True); continue
    try:
        d = load(tmp)
    finally:
        shutil.rmtree(tmp, ignore_errors=True)
    changed = [f for f in d["fns"] if bfn.get(key_fn(f)) != json.dumps(f, sort_keys=True)]
    removed = sorted(set(bfn) - {key_fn(f) for f in d["fns"]})
    delta = {"id": e["id"], "changed_fns": changed, "removed_fns": removed}
    for k in ("adts", "impls", "consts"):
        if json.dumps(d[k], sort_keys=True) != json.dumps(base[k], sort_keys=True):
            delta[k] = d[k]
    with gzip.open(OUT + "/%s.json.gz" % e["id"], "wt") as fh:
        json.dump(delta, fh, separators=(",", ":"))
    out_index.append({"id": e["id"], "expect": e["expect"], "changed": len(changed), "removed": len(removed)})
    print(e["id"], len(changed), len(removed), [k for k in ("adts", "impls", "consts") if k in delta])
json.dump(out_index, open(OUT + "/index.json", "w"), indent=1)
