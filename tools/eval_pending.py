#!/usr/bin/env python3
"""Run all checks on /repo + each behaviour-preserving refactoring under benign/pending/ (scratch copies; /repo is
never touched) and print the alarms they raise. usage: tools/eval_pending.py [glob-substring ...]"""
import sys, glob, os, importlib
HERE = os.path.dirname(os.path.abspath(__file__))
sys.path.insert(0, os.path.join(HERE, "..", "rules"))
from concurrent.futures import ProcessPoolExecutor


def one(path):
    from props import RULE_MODULES
    for m in RULE_MODULES:
        importlib.import_module(m)
    import mutate
    status, out, info = mutate.violations_with_patch(path)
    return path, status, {p: [(k[0], k[1], k[2][:200]) for k in ks] for p, ks in out.items()}, info


if __name__ == "__main__":
    sel = sys.argv[1:]
    jobs = sorted(glob.glob("/verif/benign/pending/*.diff"))
    if sel:
        jobs = [j for j in jobs if any(x in j for x in sel)]
    tot = 0
    noisy = []
    with ProcessPoolExecutor(max_workers=int(os.environ.get("VERIF_JOBS", "8"))) as ex:
        for path, status, out, info in ex.map(one, jobs):
            seen = {}
            for p, ks in sorted(out.items()):
                for k in ks:
                    seen.setdefault(k[0], (p, k))
            name = os.path.basename(path)[:-5]
            print("== %s %s alarms=%d %s" % (name, status, len(seen), info.get("msg", "")[-300:].replace("\n", " ") if status != "ok" else ""))
            for key, (p, k) in seen.items():
                print("    %s %s | %s | %s" % (p, k[0], k[1], k[2]))
            if seen or status != "ok":
                noisy.append(name)
            tot += 1
    print("pending benign refactorings: %d, raising alarms: %d %s" % (tot, len(noisy), noisy))
