#!/usr/bin/env python3
"""try_patch.py <patch.diff> [Cxx ...] : which checks fire on /repo + patch (scratch copy; /repo is not touched)."""
import sys, os, importlib, json
sys.path.insert(0, os.path.join(os.path.dirname(os.path.abspath(__file__)), "..", "rules"))
from props import RULE_MODULES
for m in RULE_MODULES:
    importlib.import_module(m)
import mutate
status, out, info = mutate.violations_with_patch(sys.argv[1], sys.argv[2:] or None)
print("status:", status, info.get("msg", "") if status != "ok" else "")
for prop, keys in sorted(out.items()):
    for k, site, fact, kind in keys:
        print("  %s %s | %s | %s" % (prop, k, site, fact[:160]))
if status == "ok" and not out:
    print("  (no check fires)")
